"""C16 — header rewrite rules do exactly what their syntax says."""
import json
import os

from . import common

GROUP = "g16"
PROP_FILE = "C16.v"


def load_jsonl(p):
    return [json.loads(l) for l in open(p)] if os.path.exists(p) else []


def run(ctx):
    ob_failed = []          # names of obligations that no longer check
    # 1. translator: regenerate Tables.v from the current source
    ok, msg = ctx.tables(GROUP)
    if not ok:
        ctx.log("tables:", msg)
        ob_failed.append("translator(gen/tables g16): " + msg)
    # 2. full build of the group; property file recompiled separately below
    ok, log, failed = ctx.coq_make(GROUP)
    core_broken = [f for f in failed if f not in (PROP_FILE,)]
    if not ok:
        ctx.log("coq build problems in:", failed)
    bad_words = common.forbidden_words([os.path.join(common.VERIF, "coq", "lib"),
                                        os.path.join(common.VERIF, "coq", GROUP)])
    if bad_words:
        ob_failed.append("forbidden vernacular: " + "; ".join(bad_words))
    info = ctx.check_theorems(GROUP, PROP_FILE)
    if info["rc"] != 0:
        ob_failed.append("theorem %s in %s no longer checks: %s" % (
            info.get("failed_at"), PROP_FILE, " ".join(info["log"].split())[-400:]))
    if core_broken:
        ob_failed.append("model/proof files do not compile: %s\n%s" % (core_broken, log[-1500:]))

    # 3. run the implementation, 4. correspondence + oracle inside Coq
    hb, hlog = ctx.build_harness("c16")
    meta, model_bad, prop_bad = {}, [], []
    if hb is None:
        ob_failed.append("harness does not build against the source tree: " + hlog[-800:])
    else:
        args = [hb, "-seed", str(ctx.seed), "-tier", ctx.tier, "-out", ctx.work]
        # the real binary, built from the current tree, for the end-to-end dispatch cases
        fwd = os.path.join(ctx.work, "forwarder")
        rc, blog = common.sh([common.go_cmd(), "build", "-o", fwd, "./cmd/forwarder"], cwd=ctx.repo,
                             env=common.go_env(), timeout=900)
        if rc != 0:
            ob_failed.append("forwarder binary does not build: " + blog[-600:])
        else:
            args += ["-forwarder", fwd]
        if ctx.replay:
            rp = json.load(open(ctx.replay))
            inner = os.path.join(ctx.work, "replay_in.json")
            json.dump(rp.get("replay", rp), open(inner, "w"))
            args += ["-replay", inner]
        rc, out = common.sh(args, timeout=600)
        if rc != 0:
            ob_failed.append("harness failed: " + out[-800:])
        else:
            meta = json.load(open(os.path.join(ctx.work, "meta.json")))
            res = ctx.coq_eval_shards(GROUP, ctx.work, meta["shards"])
            for shard, lg in res["_errors"]:
                ob_failed.append("correspondence shard %s did not evaluate: %s" % (shard, lg[-600:]))
            pj = load_jsonl(os.path.join(ctx.work, "pcases.jsonl"))
            aj = load_jsonl(os.path.join(ctx.work, "acases.jsonl"))
            ej = load_jsonl(os.path.join(ctx.work, "ecases.jsonl"))
            lj = load_jsonl(os.path.join(ctx.work, "lcases.jsonl"))
            fj = load_jsonl(os.path.join(ctx.work, "fcases.jsonl"))
            for rc_ in meta.get("e2e_refused") or []:
                ctx.violation("e2e-binary-refuses-valid-rules", dict(rc_, kind="e2e"), True,
                              "the real binary exits at start-up when given these valid rules through %s: %s"
                              % (rc_.get("observed_at"), json.dumps(rc_)[:300]))
            if meta.get("e2e_error"):
                ob_failed.append("end-to-end run failed: " + meta["e2e_error"])
            strict_e = {"M": set(), "P": set()}      # ecases failing the strict checks (indices)
            for shard in meta["shards"]:
                r = res.get(shard) or {}
                kind, idx = shard.split("_")[0], int(shard.split("_")[1].split(".")[0])
                base = idx * meta["shard_size"]
                if kind == "ecases":
                    # strict end-to-end checks: only used to tell the net/http empty-User-Agent
                    # artefact apart (see Check.ua_norm); decisions use the "ecasesua" shard
                    for ident in ("M", "P"):
                        strict_e[ident].update(base + i for i in (ctx.parse_nlist(r.get(ident)) or []))
                    continue
                src = {"pcases": pj, "acases": aj, "ecasesua": ej, "lcases": lj, "fcases": fj}[kind]
                kind = "ecases" if kind == "ecasesua" else kind
                for ident, acc in (("M", model_bad), ("P", prop_bad)):
                    for i in (ctx.parse_nlist(r.get(ident)) or []):
                        case = src[base + i] if base + i < len(src) else {"index": base + i}
                        acc.append((kind, case))
            ua_fail = {json.dumps(c, sort_keys=True) for k, c in prop_bad + model_bad if k == "ecases"}
            ua_only = [ej[i] for i in sorted(strict_e["P"]) if i < len(ej)
                       and json.dumps(ej[i], sort_keys=True) not in ua_fail]
            if ua_only:
                c0 = min(ua_only, key=lambda c: len(json.dumps(c)))
                d = dict(c0)
                d["case_kind"], d["kind"] = d.get("kind"), "e2e"
                ctx.violation("e2e-user-agent-written-once-by-net-http", d, True,
                              "%d end-to-end request cases where the rules leave User-Agent empty or with several values and the "
                              "next hop sees what net/http's request writer makes of it (no field / the first value only), "
                              "everything else as the rules say; smallest: %s"
                              % (len(ua_only), json.dumps(c0)[:400]))

    def smallest(cases):
        return min(cases, key=lambda kc: len(json.dumps(kc[1])))

    def replay_of(kc):
        kind, case = kc
        d = dict(case)
        d["case_kind"] = d.get("kind")
        d["kind"] = {"pcases": "parser", "acases": "applier", "ecases": "e2e", "lcases": "rule-list", "fcases": "channel"}[kind]
        return d

    # 5. decide (DESIGN.md 2.2)
    # end-to-end cases are keyed by message kind (call site), so a known finding on one
    # kind does not hide a violation on another
    streams = [("pcases", "parser", None), ("acases", "applier", None), ("lcases", "rule-list", None),
               ("fcases", "channel", None)]
    streams += [("ecases", "e2e-" + k, k) for k in ("ReqPlain", "ReqConnect", "ReqConnectOwn", "RespPlain", "RespConnect")]
    for kind, label, sub in streams:
        pb = [kc for kc in prop_bad if kc[0] == kind and (sub is None or kc[1].get("kind") == sub)]
        mb = [kc for kc in model_bad if kc[0] == kind and (sub is None or kc[1].get("kind") == sub)]
        if pb and kind == "ecases":
            # split: failures the faithful model of the wiring explains (same on model and binary)
            # versus unexplained ones (model differs too) — different keys, so a known finding on the
            # former never hides the latter
            mbset = {json.dumps(kc[1], sort_keys=True) for kc in mb}
            explained = [kc for kc in pb if json.dumps(kc[1], sort_keys=True) not in mbset]
            unexplained = [kc for kc in pb if json.dumps(kc[1], sort_keys=True) in mbset]
            if explained:
                kc = smallest(explained)
                ctx.violation("%s-rules-not-applied-once-in-order-as-modelled" % label, replay_of(kc), True,
                              "%d end-to-end cases where the observed header set is not the rules applied once in order "
                              "(the model of the wiring predicts exactly this output); smallest: %s"
                              % (len(explained), json.dumps(kc[1])[:400]))
            if unexplained:
                kc = smallest(unexplained)
                ctx.violation("%s-output-violates-property" % label, replay_of(kc), True,
                              "%d end-to-end cases failing the C16 predicate and not predicted by the model; smallest: %s"
                              % (len(unexplained), json.dumps(kc[1])[:400]))
        elif pb:
            kc = smallest(pb)
            ctx.violation("%s-output-violates-property" % label, replay_of(kc), True,
                          "%d cases where the implementation's own output fails the C16 predicate; smallest: %s"
                          % (len(pb), json.dumps(kc[1])[:300]))
        elif mb:
            kc = smallest(mb)
            ctx.violation("%s-correspondence" % label,
                          dict(replay_of(kc), unchecked="correspondence model(g16)/implementation (%s)" % label),
                          False,
                          "%d cases where model and implementation differ although the property predicate holds; smallest: %s"
                          % (len(mb), json.dumps(kc[1])[:300]))
    if ob_failed and not ctx.violations:
        ctx.violation("obligation-unchecked", dict(unchecked=ob_failed), False, ob_failed[0][:300])
    elif ob_failed:
        ctx.notes.append({"unchecked_obligations": ob_failed})
        for v in ctx.violations:
            pass

    chk = None
    if ctx.tier == "thorough" and not core_broken and info["rc"] == 0:
        chk = ctx.coqchk(GROUP, ["C16"])
        if not chk["ok"] or chk.get("axioms") not in ("<none>",):
            ob_failed.append("coqchk: %s" % chk)
            if not ctx.violations:
                ctx.violation("coqchk-failed", dict(unchecked="coqchk on G16.C16", detail=chk), False, str(chk)[:300])
    nontriv = int(meta.get("parser_accepted", 0)) + int(meta.get("applier_cases", 0)) + int(meta.get("e2e_cases", 0))
    coverage = {
        "obligations": len(info["theorems"]),
        "discharged": len(info["discharged"]),
        "checker_cmd": "make -j16 (coq_makefile, full .vo) in coq/lib and coq/g16; coqc C16.v; coqc on %d cases shards (vm_compute)"
                       % len(meta.get("shards", [])),
        "trusted_base": common.standard_trusted_base([
            "Print Assumptions per theorem: %s" % json.dumps(info["assumptions"]),
            "modelled, not verified: Go regexp semantics of the two header regexes (resolved by hand in Model.match_line), "
            "net/http.Header methods and CanonicalHeaderKey (FwdLib.Hdr), strings.EqualFold on ASCII",
        ]),
        "theorems": info["theorems"],
        "coqchk": chk,
        "unchecked_obligations": ob_failed,
        "evaluations": int(meta.get("parser_cases", 0)) + int(meta.get("applier_cases", 0)) + int(meta.get("e2e_cases", 0))
                       + int(meta.get("channel_cases", 0)),
        "channel_cases_by_source": meta.get("channel_kinds"),
        "e2e_cases_real_binary": meta.get("e2e_kinds"),
        "distinct_nontrivial": nontriv,
        "rule": "parser: every string of length <= %s over a 12-symbol alphabet (exhaustive) + grammar-generated rules + mutated rules; "
                "applier: random rule lists (1..8 parseable rules) x header maps (<=6 keys incl. keys differing only in case); "
                "non-trivial = parser cases the implementation accepts + applier cases (each has >=1 rule)" % meta.get("parser_exhaustive_len"),
        "traces_validated_against_impl": int(meta.get("parser_cases", 0)) + int(meta.get("applier_cases", 0)),
        "model_mismatches": len(model_bad),
        "property_failures_on_impl": len(prop_bad),
        "distribution": {k: meta.get(k) for k in ("parser_accepted", "parser_rejected", "applier_rule_actions",
                                                   "applier_rule_list_lengths")},
        "samples": [{"parser_inputs": meta.get("samples_parser")}, {"applier": meta.get("samples_applier")},
                    {"e2e": meta.get("samples_e2e")}, {"channel": meta.get("samples_channel")}],
    }
    ctx.finish("proof", coverage, [
        "the theorems are about the Gallina model; the model is tied to the code by gen/tables (shape flags, regex literals) "
        "and by the differential run above",
        "Go map iteration order is modelled as an arbitrary visiting order (proved irrelevant)",
    ])
