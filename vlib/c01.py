"""C01 — forwarded HTTP/1 requests carry exactly what the client sent."""
import json
import re
from urllib.parse import unquote_to_bytes

from . import common
from . import g01util as u

GROUP = "g01"
PROP_FILE = "C01.v"
OWN_FILES = ("Tables.v", "Via.v", "ViaCheck.v", "ViaProofs.v", "Ob18.v", "ReqPipeline.v", "ReqCheck.v", "ReqE2E.v",
             "ReqProofs.v", "RouteProofs.v", "TransportTac.v", "TransportProofs.v", "TransportProofs2.v", "E2EProofs.v",
             "BodyStream.v", "Ob01.v", "C01.v")


def parse_diag(text):
    """'[(0, [[84; 65]]); (3, [[..]; [..]])]' -> {0: ['TA'], 3: [...]}"""
    out = {}
    if not text:
        return out
    for m in re.finditer(r"\((\d+),\s*(\[\[.*?\]\])\)", text):
        names = []
        for n in re.finditer(r"\[(\d+(?:;\s*\d+)*)\]", m.group(2)):
            names.append(bytes(int(x) for x in re.findall(r"\d+", n.group(1))).decode("latin1"))
        out[int(m.group(1))] = names
    return out


def slug(name):
    return re.sub(r"[^a-z0-9]+", "-", name.lower()).strip("-")


def keys_stack(case, comps):
    hdr = case.get("header", {})
    keys = []
    for c in comps:
        if c == "X-Forwarded-For" and len(hdr.get("X-Forwarded-For") or []) > 1:
            keys.append("stack-x-forwarded-for-later-field-lines-dropped")
        elif c == "REFUSED":
            keys.append("stack-request-refused-without-documented-reason")
        else:
            keys.append("stack-field-%s-not-as-documented" % slug(c))
    keys = keys or ["stack-output-violates-property"]
    if case.get("concurrent"):
        keys = [k + "-under-concurrent-use" for k in keys]
    return keys


def sent_values(q, name):
    return [f["Value"] for f in q.get("fields", []) if f["Name"].lower() == name.lower()]


def keys_e2e(case, comps):
    conn = case.get("conn", {})
    q = (conn.get("reqs") or [{}])[case.get("index", 0)]
    obs = case.get("_obs", {})
    keys = []
    target_pct = False
    for c in comps:
        if c == "TARGET":
            sent = q.get("target", "")
            sent = re.sub(r"^http://[^/?]*", "", sent, flags=re.I) or "/"
            recv = re.sub(r"^http://[^/?]*", "", obs.get("target", ""), flags=re.I)
            sp, _, sq = sent.partition("?")
            rp, _, rq = recv.partition("?")
            if sq == rq and unquote_to_bytes(sp or "/") == unquote_to_bytes(rp):
                keys.append("e2e-request-target-path-percent-encoded")
                target_pct = True
            else:
                keys.append("e2e-request-target-changed")
        elif c == "X-Forwarded-For" and len(sent_values(q, "X-Forwarded-For")) > 1:
            keys.append("e2e-x-forwarded-for-later-field-lines-dropped")
        elif c == "User-Agent" and len(sent_values(q, "User-Agent")) > 1:
            keys.append("e2e-user-agent-later-field-lines-dropped")
        elif c == "Accept-Encoding" and sent_values(q, "Accept-Encoding")[:1] == [""]:
            keys.append("e2e-gzip-added-to-empty-accept-encoding")
        elif c == "Cache-Control" and not sent_values(q, "Cache-Control") and \
                [v.lower() for v in sent_values(q, "Pragma")][:1] == ["no-cache"]:
            keys.append("e2e-cache-control-added-for-pragma-no-cache")
        elif c == "X-Forwarded-Url" and "TARGET" in comps and not sent_values(q, "X-Forwarded-Url"):
            pass   # X-Forwarded-Url is derived from the request target: same class as the TARGET component
        elif c in ("BODY", "FRAMING", "METHOD", "STATUS", "NOTFORWARDED", "OWNFORWARDED"):
            keys.append("e2e-%s" % {"BODY": "body-changed", "FRAMING": "body-framing-changed", "METHOD": "method-changed",
                                    "STATUS": "status-or-origin-contact-count-wrong", "NOTFORWARDED": "request-not-forwarded",
                                    "OWNFORWARDED": "own-via-element-forwarded"}[c])
        else:
            keys.append("e2e-field-%s-not-as-documented" % slug(c))
    if "e2e-request-target-path-percent-encoded" not in keys and target_pct:
        keys.append("e2e-request-target-path-percent-encoded")
    return keys or ["e2e-exchange-violates-property"]


def run(ctx):
    # g01 imports G16.Model: hold g16's lock for the whole run so that a C16 check (which regenerates and rebuilds
    # g16) cannot interleave with the g01 build or the shard evaluation
    with common.Lock("group-g16"):
        _run(ctx)


def _run(ctx):
    info, ob_failed = u.prepare(ctx, PROP_FILE, OWN_FILES)
    meta = u.run_harness(ctx, "c01", ob_failed)
    model_bad, prop_bad, res = ([], [], {})
    if meta:
        model_bad, prop_bad, res = u.eval_shards(ctx, meta, ob_failed,
                                                 {"scases": "scases.jsonl", "ccases": "ccases.jsonl",
                                                  "xcases": "xcases.jsonl", "ycases": "ycases.jsonl", "kcases": "kcases.jsonl"},
                                                 idents=("M", "P", "D"),
                                                 sizes={"scases": meta.get("shard_size", 150), "ccases": meta.get("shard_size", 150),
                                                        "xcases": (meta.get("e2e") or {}).get("shard_size", 100),
                                                        "ycases": (meta.get("e2e") or {}).get("shard_size", 100),
                                                        "kcases": (meta.get("e2e") or {}).get("shard_size", 100)})
    # failing components per case, computed by Coq (D)
    diag = {}
    sizes = {"scases": meta.get("shard_size", 150), "ccases": meta.get("shard_size", 150),
             "xcases": (meta.get("e2e") or {}).get("shard_size", 100), "ycases": (meta.get("e2e") or {}).get("shard_size", 100),
             "kcases": (meta.get("e2e") or {}).get("shard_size", 100)}
    for shard, r in res.items():
        if isinstance(r, dict) and r.get("D") and not shard.startswith("_"):
            kind, idx = shard.rsplit("_", 1)[0], int(shard.rsplit("_", 1)[1].split(".")[0])
            for i, comps in parse_diag(r["D"]).items():
                diag[(kind, idx * sizes[kind] + i)] = comps

    def replay_of(kc):
        kind, case = kc
        if kind in ("scases", "ccases"):
            d = {k: v for k, v in case.items() if k not in ("_obs", "_i")}
            d["kind"] = "stack" if kind == "scases" else "configured-stack"
        else:
            d = {"kind": "e2e", "conn": case.get("conn"), "index": case.get("index")}
        d["observed"] = case.get("_obs")
        return d

    def keys_cfg(case, comps):
        return [k.replace("stack-", "configured-stack-", 1) for k in keys_stack(case, comps)]

    for kind, label, keyf in (("scases", "modifier-stack", keys_stack), ("ccases", "configured-modifier-stack", keys_cfg),
                              ("xcases", "end-to-end", keys_e2e), ("ycases", "end-to-end (header rules + credentials)", keys_e2e),
                              ("kcases", "connection-stream", lambda case, comps: ["e2e-connection-stream-bodies-differ"])):
        pb = [kc for kc in prop_bad if kc[0] == kind]
        mb = [kc for kc in model_bad if kc[0] == kind]
        groups = {}
        for kc in pb:
            comps = diag.get((kind, kc[1].get("_i", -1)), [])
            for key in keyf(kc[1], comps):
                groups.setdefault(key, []).append(kc)
        for key, kcs in sorted(groups.items()):
            kc = u.smallest(kcs)
            ctx.violation(key, replay_of(kc), True,
                          "%d %s cases where the implementation's own behaviour fails the C01 predicate; smallest: %s"
                          % (len(kcs), label, json.dumps(replay_of(kc))[:500]))
        if not pb and mb:
            kc = u.smallest(mb)
            ctx.violation("%s-correspondence" % label,
                          dict(replay_of(kc), unchecked="correspondence model(g01 ReqPipeline/ReqE2E)/implementation (%s)" % label),
                          False,
                          "%d %s cases where model and implementation differ although the property predicate holds; smallest: %s"
                          % (len(mb), label, json.dumps(replay_of(kc))[:500]))
    if meta.get("e2e_errors"):
        ob_failed.append("end-to-end exchanges failed at transport level: %s" % meta["e2e_errors"][:3])
    if meta.get("origin_parse_errors"):
        ob_failed.append("scripted origin could not parse what it received: %s" % meta["origin_parse_errors"][:3])
    if ob_failed and not ctx.violations:
        ctx.violation("obligation-unchecked", dict(unchecked=ob_failed), False, ob_failed[0][:300])
    elif ob_failed:
        ctx.notes.append({"unchecked_obligations": ob_failed})

    e2e = meta.get("e2e") or {}
    evals = int(meta.get("stack_cases", 0)) + int(meta.get("configured_stack_cases", 0)) + int(e2e.get("exchanges", 0)) + \
        int(e2e.get("configured_exchanges", 0)) + int(e2e.get("connection_streams", 0))
    ob_names, ob_done = u.table_obligations("Ob01.v", info)
    coverage = {
        "obligations": len(info["theorems"]) + len(ob_names),
        "discharged": len(info["discharged"]) + len(ob_done),
        "table_obligations": ob_names,
        "checker_cmd": "make -j16 (coq_makefile, full .vo) in coq/lib and coq/g01; coqc C01.v; coqc on %d cases shards (vm_compute)"
                       % len(meta.get("shards", [])),
        "trusted_base": common.standard_trusted_base([
            "Print Assumptions per theorem: %s" % json.dumps(info["assumptions"]),
            "modelled, not verified (ReqE2E.v L1/L3): net/http.ReadRequest (field grouping, Host, Transfer-Encoding/Trailer leaving the "
            "header map, Pragma->Cache-Control, Close), net/url parsing and EscapedPath, Transport request writing (target form, Host, "
            "User-Agent, framing fields, Accept-Encoding: gzip, Connection: close, one field line per value); body streaming and "
            "bufio synchronisation are observed only (byte equality and length measured by the harness)",
            "verif hooks /repo/zz_verif_c01.go (VerifC01ModifyRequest), /repo/verifhook/mheader",
        ]),
        "theorems": info["theorems"],
        "unchecked_obligations": ob_failed,
        "evaluations": evals,
        "distinct_nontrivial": evals - int(meta.get("stack_refused", 0)),
        "rule": "modifier stack of a real HTTPProxy on generated requests (header maps with repeated names, Connection options, hop-by-hop "
                "fields, pre-existing Via / X-Forwarded-*, User-Agent absent/empty/repeated, framing fields, all RemoteAddr shapes, CONNECT) "
                "+ end to end: raw client -> real proxy -> scripted origin, directly and through a scripted upstream HTTP proxy, 1-4 requests "
                "per keep-alive connection (sequential, pipelined, first request split across two writes), origin/absolute form, path and "
                "query byte classes, bodies none/Content-Length/chunked with sizes 0..70000 around 4 KiB and 32 KiB plus 1 MiB+4 KiB+1, 2 MiB, 5 MiB+3 "
                "(first and later request of a connection); inside a MITM tunnel also absolute-form http:// targets and client-supplied "
                "X-Forwarded-Proto; non-trivial = cases "
                "that were forwarded",
        "traces_validated_against_impl": evals,
        "model_mismatches": len(model_bad),
        "property_failures_on_impl": len(prop_bad),
        "distribution": {"stack_methods": meta.get("stack_methods"), "stack_header_shapes": meta.get("stack_header_shapes"),
                         "stack_refused": meta.get("stack_refused"), "e2e": e2e.get("stats"),
                         "configured_stack_cases": meta.get("configured_stack_cases"),
                         "configured_exchanges": e2e.get("configured_exchanges"), "e2e_configuration": e2e.get("configuration")},
        "samples": meta.get("samples"),
    }
    ctx.finish("proof", coverage, [
        "the theorems are about the Gallina model of the request modifier pipeline (ReqPipeline.v); net/http's reading and writing of the "
        "message are modelled (ReqE2E.v) and tied by the end-to-end differential run only",
        "q_tls in the model stands for 'read from an intercepted (MITM) session'; a TLS listener without interception is not driven end to end",
        "header rules are applied by C16's model G16.Model.apply_rules (imported read-only; its meaning is T16_apply_is_spec) and site "
        "credentials by a recorded answer of the real CredentialsMatcher (C06's); cases whose rules act on a documented field "
        "(Via, X-Forwarded-*, User-Agent, Content-Length) are checked for correspondence only",
    ])
