"""C14 — PAC evaluation returns what the script specifies, also under concurrency."""
import json
import os

from . import common

GROUP = "g14"
PROP_FILE = "C14.v"
HARNESS = "c14"
KNOWN_KW = ("DIRECT", "PROXY", "HTTP", "HTTPS", "SOCKS", "SOCKS4", "SOCKS5")


def load_jsonl(p):
    return [json.loads(l) for l in open(p)] if os.path.exists(p) else []


def helpers_in(tree, acc):
    if not tree:
        return acc
    if tree.get("h"):
        acc.append(tree["h"])
    helpers_in(tree.get("yes"), acc)
    helpers_in(tree.get("no"), acc)
    return acc


def odd_leaf(tree):
    """does the script have a leaf that is not an ASCII string?"""
    if not tree:
        return False
    if tree.get("k") == "leaf":
        v = tree.get("v") or {}
        return v.get("t") != "str" or not v.get("s", "").isascii()
    return odd_leaf(tree.get("yes")) or odd_leaf(tree.get("no"))


def py_spec_entry(ent):
    """mirror of G14.Spec.spec_entry, for labelling a failing case only (the verdict is Coq's)"""
    s = ent.strip(" \t\n\v\f\r")
    if s in ("", "DIRECT"):
        return ("direct", None)
    kw, sep, hp = s.partition(" ")
    if not sep:
        return ("malformed", "no-host-port")
    i = hp.rfind(":")
    if i < 0:
        return ("malformed", "no-port")
    port = hp[i + 1:]
    if hp.startswith("["):
        e = hp.find("]")
        if e < 0 or e + 1 != i or "[" in hp[1:] or "]" in hp[e + 1:]:
            return ("malformed", "bad-brackets")
        host = hp[1:e]
    else:
        host = hp[:i]
        if ":" in host or "[" in hp or "]" in hp:
            return ("malformed", "bad-host-port")
    if host == "":
        return ("malformed", "empty-host")
    if any(ord(c) <= 32 or ord(c) == 127 for c in host):
        return ("malformed", "blank-in-host")
    if not (port.isascii() and port.isdigit() and int(port) <= 65535):
        return ("malformed", "bad-port")
    mode = kw if kw in KNOWN_KW else "DIRECT"
    return ("proxy", [mode, host, port])


def classify_entry(case):
    """label of a failing result-list case: what the first entry is to the reference vs what First() returned"""
    text = case.get("text", "")
    first = text.split(";")[0] if text else ""
    kind, val = py_spec_entry(first)
    got = case.get("first")
    if kind == "malformed" and got is not None:
        return "parse-%s-accepted" % val
    if kind != "malformed" and got is None:
        return "parse-wellformed-entry-rejected"
    if kind == "proxy" and got is not None and list(got) != list(val):
        return "parse-entry-mapped-to-another-proxy"
    if kind == "direct" and got is not None and list(got) != ["DIRECT", "", ""]:
        return "parse-empty-entry-not-direct"
    if kind == "proxy" and got is not None:
        want = "" if val[0] == "DIRECT" else ("http" if val[0] == "PROXY" else val[0].lower()) + "://" + \
            ("[%s]:%s" % (val[1], val[2]) if ":" in val[1] else "%s:%s" % (val[1], val[2]))
        if case.get("url", "") != want:
            return "parse-keyword-mapped-to-another-scheme"
    return "parse-list-differs-from-reference"


def failing_obligations(make_log):
    """names of the lemmas of Obligations.v at which the build stopped (from the make -k log)"""
    import re
    path = os.path.join(common.VERIF, "coq", GROUP, "Obligations.v")
    lines = open(path).read().splitlines() if os.path.exists(path) else []
    names = []
    for m in re.finditer(r'File "\./Obligations\.v", line (\d+)', make_log):
        cur = None
        for l in lines[:int(m.group(1))]:
            mm = re.match(r"\s*(?:Lemma|Theorem)\s+([A-Za-z0-9_']+)", l)
            if mm:
                cur = mm.group(1)
        if cur and cur not in names:
            names.append(cur)
    return names


def run(ctx):
    ob_failed = []
    # G14 imports G17.Regex / RegexProofs only (no dependency on G17's Tables.v): make sure they are built,
    # under g17's lock because a C17 check may be building the same directory
    with common.Lock("group-g17"):
        g17 = os.path.join(common.VERIF, "coq", "g17")
        if not os.path.exists(os.path.join(g17, "Tables.v")):
            ctx.tables("g17")
        ctx.coq_make("g17")
    ctx.log("g17 built")
    ok, msg = ctx.tables(GROUP)
    if not ok:
        ctx.log("tables:", msg)
        ob_failed.append("translator(gen/tables g14): " + msg)
    ok, log, failed = ctx.coq_make(GROUP)
    tolerated = (PROP_FILE, "Obligations.v")
    core_broken = [f for f in failed if f not in tolerated]
    if not ok:
        ctx.log("coq build problems in:", failed)
    bad_words = common.forbidden_words([os.path.join(common.VERIF, "coq", "lib"),
                                        os.path.join(common.VERIF, "coq", "g17"),
                                        os.path.join(common.VERIF, "coq", GROUP)])
    if bad_words:
        ob_failed.append("forbidden vernacular: " + "; ".join(bad_words))
    ctx.log("g14 built")
    info = check_theorems(ctx)
    ctx.log("theorems checked: %d/%d" % (len(info["discharged"]), len(info["theorems"])))
    if info["rc"] != 0:
        ob_failed.append("theorem %s in %s no longer checks: %s" % (
            info.get("failed_at"), PROP_FILE, " ".join(info["log"].split())[-400:]))
        names = failing_obligations(log)
        if names:
            ob_failed.insert(0, "table obligation(s) no longer hold for the source tree: " + ", ".join(names))
    if core_broken:
        ob_failed.append("model/proof files do not compile: %s\n%s" % (core_broken, log[-1500:]))

    hb, hlog = ctx.build_harness(HARNESS)
    ctx.log("harness built")
    meta, res = {}, {}
    kinds = {"ecases": "eval", "scases": "sort", "pcases": "parse", "ipcases": "ip", "xcases": "route"}
    bad = {k: {"M": [], "P": [], "U": []} for k in kinds}
    if hb is None:
        ob_failed.append("harness does not build against the source tree: " + hlog[-800:])
    else:
        args = [hb, "-seed", str(ctx.seed), "-tier", ctx.tier, "-out", ctx.work]
        fwd = os.path.join(ctx.work, "forwarder")
        rc, blog = common.sh([common.go_cmd(), "build", "-o", fwd, "./cmd/forwarder"], cwd=ctx.repo, env=common.go_env(), timeout=900)
        if rc != 0:
            ob_failed.append("forwarder binary does not build: " + blog[-600:])
        else:
            args += ["-forwarder", fwd]
        if ctx.replay:
            rp = json.load(open(ctx.replay))
            rp = rp.get("replay", rp)
            if "kind" in rp:
                inner = os.path.join(ctx.work, "replay_in.json")
                json.dump(rp, open(inner, "w"))
                args += ["-replay", inner]
        rc, out = common.sh(args, timeout=1500)
        if rc != 0:
            ob_failed.append("harness failed: " + out[-800:])
        else:
            meta = json.load(open(os.path.join(ctx.work, "meta.json")))
            if meta.get("e2e_error"):
                ob_failed.append("scripts through the real proxy: " + meta["e2e_error"])
            ctx.log("harness ran: %s" % meta.get("counts"))
            res = coq_eval(ctx, meta["shards"])
            ctx.log("shards evaluated")
            for shard, lg in res["_errors"]:
                ob_failed.append("correspondence shard %s did not evaluate: %s" % (shard, lg[-600:]))
            src = {k: load_jsonl(os.path.join(ctx.work, k + ".jsonl")) for k in kinds}
            for shard in meta["shards"]:
                r = res.get(shard) or {}
                kind = shard.split("_")[0]
                base = int(shard.split("_")[1].split(".")[0]) * meta["shard_size"]
                for ident in ("M", "P", "U"):
                    for i in (ctx.parse_nlist(r.get(ident)) or []):
                        s = src[kind]
                        bad[kind][ident].append(s[base + i] if base + i < len(s) else {"index": base + i})

    def smallest(cases):
        return min(cases, key=lambda c: len(json.dumps(c)))

    # ---- decide (DESIGN.md 2.2)
    # the readers for dotted quads must agree with Go's net package (validates a modelled component)
    if bad["ipcases"]["M"]:
        c = smallest(bad["ipcases"]["M"])
        ctx.violation("ip-reader-correspondence",
                      dict(c, kind="ip", unchecked="G14.Net.parse_ip/parse_cidr disagree with net.ParseIP/ParseCIDR"),
                      False, "%d texts on which the model of net.ParseIP/ParseCIDR and Go differ; smallest %r"
                      % (len(bad["ipcases"]["M"]), c.get("text")))
    # scripts
    if bad["ecases"]["P"]:
        groups = {}
        for c in bad["ecases"]["P"]:
            hs = sorted(set(helpers_in(c.get("tree"), [])))
            if c.get("entry", "fn") not in ("fn", "fnx"):
                key = "entry-point-rule-differs-from-reference"
            elif c.get("shadows") or c.get("lexical") or c.get("at_load"):
                key = "eval-script-scope-differs-from-reference"      # the script's own declarations are in play
            elif odd_leaf(c.get("tree")):
                key = "eval-result-check-differs-from-reference"      # a non-string / non-ASCII result is in play
            else:
                key = "eval-%s-differs-from-reference" % (hs[0] if len(hs) == 1 else "script")
            groups.setdefault(key, []).append(c)
        for key, cs in sorted(groups.items()):
            c = smallest(cs)
            ctx.violation(key, dict(c, kind="eval"), True,
                          "%d scripts whose result through pac.ProxyResolver is not what the reference semantics gives; smallest: %s"
                          % (len(cs), json.dumps(c)[:400]))
    elif bad["ecases"]["M"]:
        c = smallest(bad["ecases"]["M"])
        ctx.violation("eval-correspondence", dict(c, kind="eval", unchecked="correspondence model(g14 find_proxy)/pac.ProxyResolver"),
                      False, "%d scripts on which model and implementation differ although the reference agrees with the implementation; smallest: %s"
                      % (len(bad["ecases"]["M"]), json.dumps(c)[:400]))
    # scripts through the real binary
    if bad["xcases"]["P"]:
        c = smallest(bad["xcases"]["P"])
        ctx.violation("e2e-pac-route-differs-from-reference", dict(c, kind="route"), True,
                      "%d requests through the real binary with --pac that are routed (origin / upstream A / upstream B / failure) differently "
                      "from what the reference semantics of the script and of its result's first entry demands; smallest script: %s"
                      % (len(bad["xcases"]["P"]), json.dumps(c)[:400]))
    elif bad["xcases"]["M"]:
        c = smallest(bad["xcases"]["M"])
        ctx.violation("e2e-pac-route-correspondence", dict(c, kind="route", unchecked="resolver API / model vs routing of the real binary with --pac"),
                      False, "%d requests on which the resolver API (or the model) and the real proxy's routing disagree; smallest script: %s"
                      % (len(bad["xcases"]["M"]), json.dumps(c)[:400]))
    # sortIpAddressList
    if bad["scases"]["P"]:
        c = smallest(bad["scases"]["P"])
        ctx.violation("sort-output-not-a-sorted-permutation", dict(c, kind="sort"), True,
                      "%d inputs on which sortIpAddressList's output is not the sorted list of its entries (IPv6 first); smallest %r"
                      % (len(bad["scases"]["P"]), c.get("input")))
    elif bad["scases"]["M"]:
        c = smallest(bad["scases"]["M"])
        ctx.violation("sort-correspondence", dict(c, kind="sort", unchecked="correspondence model(g14 sort_parsed)/sortIpAddressList"),
                      False, "%d inputs; smallest %r" % (len(bad["scases"]["M"]), c.get("input")))
    # result lists
    if bad["pcases"]["P"]:
        groups = {}
        for c in bad["pcases"]["P"]:
            groups.setdefault(classify_entry(c), []).append(c)
        for key, cs in sorted(groups.items()):
            c = min(cs, key=lambda x: len(x.get("text", "")))
            ctx.violation(key, dict(c, kind="parse"), True,
                          "%d result strings that Proxies.First/All/URL do not treat as the reference demands "
                          "(well-formed entry -> its proxy, malformed entry -> error); smallest %r" % (len(cs), c.get("text")))
    elif bad["pcases"]["M"]:
        c = min(bad["pcases"]["M"], key=lambda x: len(x.get("text", "")))
        ctx.violation("parse-correspondence", dict(c, kind="parse", unchecked="correspondence model(g14 proxies_first/all)/pac.Proxies"),
                      False, "%d result strings; smallest %r" % (len(bad["pcases"]["M"]), c.get("text")))
    # pool: the same stream again from a binary built with the race detector
    pool = meta.get("pool") or {}
    race = {"built": False}
    if hb is not None and not ctx.replay:
        rbin = os.path.join(ctx.work, "harness-c14-race")
        modfile = os.path.join(ctx.work, "go.mod")
        rc, rlog = common.sh([common.go_cmd(), "build", "-race", "-modfile=" + modfile, "-tags", "verif", "-o", rbin, "./cmd/" + HARNESS],
                             cwd=os.path.join(common.VERIF, "harness"), env=common.go_env(), timeout=900)
        if rc == 0:
            race["built"] = True
            pdir = os.path.join(ctx.work, "pool")
            env = dict(os.environ, GORACE="halt_on_error=0 exitcode=66")
            rc, rout = common.sh([rbin, "-seed", str(ctx.seed), "-tier", ctx.tier, "-out", pdir, "-only", "pool"], timeout=900, env=env)
            race["exit"] = rc
            race["races_reported"] = rout.count("WARNING: DATA RACE")
            if os.path.exists(os.path.join(pdir, "meta.json")):
                rpool = json.load(open(os.path.join(pdir, "meta.json"))).get("pool") or {}
                race["calls"] = rpool.get("calls")
                if rpool.get("mismatches") and not pool.get("mismatches"):
                    pool = dict(pool, mismatches=rpool["mismatches"])
            if race["races_reported"] or rc not in (0, 66):
                i = rout.find("WARNING: DATA RACE")
                ctx.violation("pool-data-race", dict(kind="pool", race_report=rout[i:i + 1500] if i >= 0 else rout[-1500:]), True,
                              "the race detector reports %d data race(s) (exit %s) while goroutines evaluate through ProxyResolverPool"
                              % (race["races_reported"], rc))
        else:
            ctx.notes.append({"race_build_failed": rlog[-400:]})
    ctx.log("pool under -race: %s" % race)
    if pool.get("mismatches"):
        ctx.violation("pool-concurrent-answers-differ", dict(kind="pool", mismatches=pool["mismatches"]), True,
                      "answers through ProxyResolverPool under %s goroutines differ from sequential evaluation: %s"
                      % (pool.get("goroutines"), pool["mismatches"][0][:300]))
    if ob_failed and not ctx.violations and not ctx.known_hits:
        ctx.violation("obligation-unchecked", dict(unchecked=ob_failed), False, ob_failed[0][:300])
    elif ob_failed:
        ctx.notes.append({"unchecked_obligations": ob_failed})

    counts = meta.get("counts", {})
    evals = sum(int(counts.get(k, 0)) for k in ("scripts", "sort_cases", "result_lists", "ip_texts")) + int(pool.get("calls", 0))
    coverage = {
        "obligations": len(info["theorems"]),
        "discharged": len(info["discharged"]),
        "checker_cmd": "make -j16 (coq_makefile, full .vo) in coq/lib, coq/g17, coq/g14; coqc C14.v; coqc on %d cases shards (vm_compute)"
                       % len(meta.get("shards", [])),
        "trusted_base": common.standard_trusted_base([
            "Print Assumptions per theorem: %s" % json.dumps(info["assumptions"]),
            "modelled, not verified: goja (the JavaScript helper bodies are transcribed by hand; JavaScript int32 values are represented "
            "by their bit patterns), the regexp semantics of G17.Model for shExpMatch's expression, Go net.ParseIP/ParseCIDR on dotted quads "
            "(Gallina readers, compared with Go on every run), IPv6 text parsing (recorded oracle), IP.To4/IPNet.Contains/CIDRMask, "
            "net.SplitHostPort, strconv.ParseUint, sync.Pool and goroutine scheduling (pool model is an LTS; the concurrent run is testing)",
        ]),
        "theorems": info["theorems"],
        "unchecked_obligations": ob_failed,
        "evaluations": evals,
        "distinct_nontrivial": int((meta.get("evaluation_outcomes") or {}).get("string", 0)) + int(counts.get("result_lists", 0)),
        "rule": "stream 1: generated decision-tree scripts over the PAC helpers (arguments near the host/URL: suffixes, globs derived from the text, "
                "masks with boundary octets, CIDRs with boundary prefix lengths, resolver tables, null/undefined/number arguments for the Go helpers, "
                "non-string and non-ASCII results, all entry-point variants) through pac.ProxyResolver.FindProxyForURL; "
                "stream 2: sortIpAddressList incl. entries that compare equal; stream 3: result strings through Proxies.First/All/URL; "
                "stream 4: dotted-quad-like texts through net.ParseIP/ParseCIDR vs the Gallina readers; "
                "stream 5: goroutines through ProxyResolverPool vs sequential answers; non-trivial = scripts that returned a string + result lists",
        "traces_validated_against_impl": evals,
        "model_mismatches": sum(len(bad[k]["M"]) for k in bad),
        "property_failures_on_impl": sum(len(bad[k]["P"]) for k in bad),
        "cases_outside_the_model": {"scripts": len(bad["ecases"]["U"]),
                                    "meaning": "a glob pattern with a JavaScript regexp metacharacter other than . * ? "
                                               "(outside the property's domain; Mozilla's helper treats it as regexp syntax)"},
        "distribution": {k: meta.get(k) for k in ("counts", "helper_calls_in_scripts", "entry_point_variants", "evaluation_outcomes")},
        "e2e_real_binary": {"routes": meta.get("e2e_routes"), "scripts": counts.get("scripts_through_the_real_proxy"),
                            "requests": counts.get("requests_through_the_real_proxy")},
        "pool": dict({k: pool.get(k) for k in ("scripts", "goroutines", "calls")}, race_detector=race),
        "samples": [{"scripts": meta.get("samples_scripts")}, {"result_lists": meta.get("samples_result_lists")}],
    }
    ctx.finish("proof", coverage, [
        "the theorems are about the Gallina transcription of the helper bodies; it is tied to the code by gen/tables "
        "(rewrite list of shExpMatch, octet bound, shifts and mask of convert_addr, keyword table, scheme mapping, pinned bodies) "
        "and by the differential run above",
        "concurrency: the pool is modelled as a transition system (exclusive hand-out proved); that the real sync.Pool and goja VMs "
        "behave like it is only tested (partial)",
    ])


def g14_coqc(ctx, vfile, cwd=None, timeout=900):
    lib = os.path.join(common.VERIF, "coq", "lib")
    g17 = os.path.join(common.VERIF, "coq", "g17")
    g14 = os.path.join(common.VERIF, "coq", GROUP)
    return common.sh(["coqc", "-Q", lib, "FwdLib", "-Q", g17, "G17", "-Q", g14, "G14", vfile], cwd=cwd or g14, timeout=timeout)


def check_theorems(ctx):
    """ctx.check_theorems with the extra -Q for G17 (the shared helper only knows lib + the group)"""
    import re
    g = os.path.join(common.VERIF, "coq", GROUP)
    path = os.path.join(g, PROP_FILE)
    info = {"file": PROP_FILE, "theorems": [], "discharged": [], "assumptions": {}, "log": "", "rc": 1}
    if not os.path.exists(path):
        info["log"] = "missing " + PROP_FILE
        return info
    src = common.strip_coq_comments(open(path).read())
    thms = re.findall(r"\b(?:Theorem|Lemma|Corollary|Example)\s+([A-Za-z0-9_']+)", src)
    rc, log = g14_coqc(ctx, PROP_FILE)
    info.update(theorems=thms, log=log, rc=rc)
    if rc == 0:
        info["discharged"] = list(thms)
        pa = re.findall(r"Print\s+Assumptions\s+([A-Za-z0-9_']+)", src)
        blocks = re.split(r"(?m)^(?=Closed under the global context|Axioms:)", log)
        blocks = [b.strip() for b in blocks if b.strip().startswith(("Closed under", "Axioms:"))]
        for name, blk in zip(pa, blocks):
            info["assumptions"][name] = " ".join(blk.split())
    else:
        m = re.search(r'line (\d+)', log)
        if m:
            line = int(m.group(1))
            cur = None
            for l in open(path).read().splitlines()[:line]:
                mm = re.match(r"\s*(?:Theorem|Lemma|Corollary|Example)\s+([A-Za-z0-9_']+)", l)
                if mm:
                    cur = mm.group(1)
            info["failed_at"] = cur
    ctx.theorem_info[PROP_FILE] = info
    return info


def coq_eval(ctx, shards, idents=("M", "P", "U"), jobs=16):
    import re
    from concurrent.futures import ThreadPoolExecutor
    res = {"_errors": []}

    def one(name):
        rc, log = g14_coqc(ctx, name, cwd=ctx.work)
        flat = " ".join(log.split())
        r = {}
        for ident in idents:
            m = re.search(r"\b%s = (.*?) : " % re.escape(ident), flat)
            r[ident] = m.group(1).strip() if m else None
        return name, rc, log, r

    with ThreadPoolExecutor(max_workers=jobs) as ex:
        for name, rc, log, r in ex.map(one, shards):
            res[name] = r
            if rc != 0 or any(v is None for v in r.values()):
                res["_errors"].append((name, log[-2000:]))
    return res
