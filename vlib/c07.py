"""C07 — MITM serves a valid certificate for the requested host and keeps origin verification."""
import json
import os
import re

from . import common

GROUP = "g07"
PROP_FILE = "C07.v"
KINDS = {  # shard prefix -> (jsonl file, label used in violation keys)
    "scases": ("scases.jsonl", "split"),
    "kcases": ("kcases.jsonl", "cache"),
    "qcases": ("qcases.jsonl", "history"),
    "hcases": ("hcases.jsonl", "handshake"),
    "rcases": ("rcases.jsonl", "request"),
}


def load_jsonl(p):
    return [json.loads(l) for l in open(p)] if os.path.exists(p) else []


def nlist(text):
    """'[1; 2]' / '[1%N; 2%N]' / '[]' -> [1, 2]"""
    return [int(x) for x in re.findall(r"\d+", text or "")]


def run(ctx):
    ob_failed = []
    ok, msg = ctx.tables(GROUP)
    if not ok:
        ctx.log("tables:", msg)
        ob_failed.append("translator(gen/tables g07): " + msg)
    ok, log, failed = ctx.coq_make(GROUP)
    core_broken = [f for f in failed if f not in (PROP_FILE, "Obligations.v")]
    if not ok:
        ctx.log("coq build problems in:", failed)
    bad_words = common.forbidden_words([os.path.join(common.VERIF, "coq", GROUP)])
    if bad_words:
        ob_failed.append("forbidden vernacular: " + "; ".join(bad_words))
    info = ctx.check_theorems(GROUP, PROP_FILE)
    if info["rc"] != 0:
        # name the obligation of Obligations.v that stopped checking, if that is the cause
        oblog = ""
        if "Obligations.v" in failed:
            rc2, oblog = ctx.coqc(GROUP, "Obligations.v")
            oblog = " ".join(oblog.split())[-400:]
            src = open(os.path.join(common.VERIF, "coq", GROUP, "Obligations.v")).read().splitlines()
            m = re.search(r"line (\d+)", oblog)
            name = None
            if m:
                for l in src[:int(m.group(1))]:
                    mm = re.match(r"\s*Lemma\s+([A-Za-z0-9_']+)", l)
                    if mm:
                        name = mm.group(1)
            ob_failed.append("table obligation %s in Obligations.v no longer holds for this source tree: %s" % (name, oblog))
        else:
            ob_failed.append("theorem %s in %s no longer checks: %s" % (
                info.get("failed_at"), PROP_FILE, " ".join(info["log"].split())[-400:]))
    if core_broken:
        ob_failed.append("model/proof files do not compile: %s\n%s" % (core_broken, log[-1500:]))

    hb, hlog = ctx.build_harness("c07")
    meta, model_bad, prop_bad = {}, [], []
    if hb is None:
        ob_failed.append("harness does not build against the source tree: " + hlog[-800:])
    else:
        args = [hb, "-seed", str(ctx.seed), "-tier", ctx.tier, "-out", ctx.work]
        if ctx.replay:
            rp = json.load(open(ctx.replay))
            inner = os.path.join(ctx.work, "replay_in.json")
            json.dump(rp.get("replay", rp), open(inner, "w"))
            args += ["-replay", inner]
        rc, out = common.sh(args, timeout=1500)
        if rc != 0:
            ob_failed.append("harness failed: " + out[-800:])
        else:
            meta = json.load(open(os.path.join(ctx.work, "meta.json")))
            res = ctx.coq_eval_shards(GROUP, ctx.work, meta["shards"])
            for shard, lg in res["_errors"]:
                ob_failed.append("correspondence shard %s did not evaluate: %s" % (shard, lg[-600:]))
            srcs = {k: load_jsonl(os.path.join(ctx.work, v[0])) for k, v in KINDS.items()}
            for shard in meta["shards"]:
                r = res.get(shard) or {}
                kind, idx = shard.split("_")[0], int(shard.split("_")[1].split(".")[0])
                basei = idx * meta["shard_size"]
                src = srcs[kind]
                for ident, acc in (("M", model_bad), ("P", prop_bad)):
                    for i in nlist(r.get(ident)):
                        case = src[basei + i] if basei + i < len(src) else {"index": basei + i}
                        acc.append((kind, case))

    # thorough: the same harness built with the race detector, stressing the leaf cache (capacity 1, TTL 300 ms,
    # 48 concurrent handshakes x 12 rounds, poked entries, validity 2 s)
    race = None
    if ctx.tier == "thorough" and not ctx.replay and hb is not None:
        hdir = os.path.join(common.VERIF, "harness")
        rbin = os.path.join(ctx.work, "harness-c07-race")
        rc, rlog = common.sh([common.go_cmd(), "build", "-race", "-modfile=" + os.path.join(ctx.work, "go.mod"), "-tags", "verif",
                              "-o", rbin, "./cmd/c07"], cwd=hdir, env=common.go_env(), timeout=900)
        if rc != 0:
            ob_failed.append("race build of the harness failed: " + rlog[-400:])
        else:
            rdir = os.path.join(ctx.work, "race")
            os.makedirs(rdir, exist_ok=True)
            rc, rout = common.sh([rbin, "-seed", str(ctx.seed), "-tier", "race", "-out", rdir], timeout=900)
            nraces = rout.count("WARNING: DATA RACE")
            rmeta = {}
            try:
                rmeta = json.load(open(os.path.join(rdir, "meta.json")))
            except Exception:
                pass
            race = {"cmd": "go build -race -tags verif ./cmd/c07; harness-c07-race -tier race", "exit": rc, "data_races": nraces,
                    "handshakes": (rmeta.get("counts") or {}).get("handshake"), "cache_cases": (rmeta.get("counts") or {}).get("cache")}
            if nraces or rc != 0:
                i = rout.find("WARNING: DATA RACE")
                ctx.violation("race-detector-report", {"kind": "race", "tier": "race", "report": rout[i:i + 3000] if i >= 0 else rout[-1500:]},
                              nraces > 0, "the race detector reported %d data race(s) (exit %s) while concurrent handshakes shared the "
                              "capacity-1 leaf cache: %s" % (nraces, rc, (rout[i:i + 600] if i >= 0 else rout[-400:])))

    def smallest(cases):
        # prefer the plainest witness: verification on, a valid origin, IPv4 literal
        return min(cases, key=lambda kc: (bool(kc[1].get("insecure")), kc[1].get("origin", "valid") != "valid",
                                          kc[1].get("host", "127.0.0.1") != "127.0.0.1", len(json.dumps(kc[1]))))

    for kind, (_, label) in KINDS.items():
        pb = [kc for kc in prop_bad if kc[0] == kind]
        mb = [kc for kc in model_bad if kc[0] == kind]
        if pb:
            kc = smallest(pb)
            ctx.violation("%s-output-violates-property" % label, kc[1], True,
                          "%d %s cases where the implementation's own behaviour fails the C07 predicate; smallest: %s"
                          % (len(pb), label, json.dumps(kc[1])[:300]))
        elif mb:
            kc = smallest(mb)
            ctx.violation("%s-correspondence" % label,
                          dict(kc[1], unchecked="correspondence model(g07)/implementation (%s)" % label), False,
                          "%d %s cases where model and implementation differ although the property predicate holds; smallest: %s"
                          % (len(mb), label, json.dumps(kc[1])[:300]))
    if ob_failed and not ctx.violations:
        ctx.violation("obligation-unchecked", dict(unchecked=ob_failed), False, ob_failed[0][:300])
    elif ob_failed:
        ctx.notes.append({"unchecked_obligations": ob_failed})

    n_ob = len(info["theorems"])
    ob_src = common.strip_coq_comments(open(os.path.join(common.VERIF, "coq", GROUP, "Obligations.v")).read())
    table_obs = re.findall(r"\bLemma\s+(ob_[A-Za-z0-9_']+)", ob_src)
    tables_ok = "Obligations.v" not in failed
    counts = meta.get("counts", {})
    evals = sum(int(v) for v in counts.values())
    dist = meta.get("distribution", {})
    nontriv = int(dist.get("split_accepted", 0)) + int(counts.get("history", 0)) + int(counts.get("cache", 0)) + int(counts.get("handshake", 0)) + int(counts.get("request", 0))
    leaks = [o for o in (meta.get("request_observations") or []) if o.get("plain") and o["case"].get("tls")]
    coverage = {
        "obligations": n_ob + len(table_obs),
        "discharged": len(info["discharged"]) + (len(table_obs) if tables_ok else 0),
        "checker_cmd": "make -j16 (coq_makefile, full .vo) in coq/lib and coq/g07; coqc C07.v; coqc on %d cases shards (vm_compute)"
                       % len(meta.get("shards", [])),
        "trusted_base": common.standard_trusted_base([
            "Print Assumptions per theorem: %s" % json.dumps(info["assumptions"]),
            "x509 is an ORACLE in T07_cert_valid_for_name/_histories (hypotheses: Verify is sound for `valid`, CreateCertificate on "
            "cert()'s template is valid for the requested name on [t-v,t+v] and chains to the CA); T07_cert_lookup_valid uses a "
            "concrete leaf view (SAN lists, window, signature-by-CA bit) compared with crypto/x509 on every run",
            "modelled, not verified: crypto/tls handshakes, crypto/x509, net.ParseIP (its verdict is recorded per case), the freelru cache "
            "(replaced by an adversary in the proof; poked through a verif hook in the run), net/http Transport (one Transport, scheme "
            "decides TLS; certificate verification by tls.Config), Go regexp (C17) for mitm-domains",
        ]),
        "theorems": info["theorems"],
        "table_obligations": table_obs,
        "unchecked_obligations": ob_failed,
        "evaluations": evals,
        "distinct_nontrivial": nontriv,
        "rule": "split: every string of length <= 5 (6 thorough) over {a,1,.,:,[,]} through net.SplitHostPort and url.Hostname (exhaustive) + corpus; "
                "cache: 14 names (DNS any case, IPv4, IPv6 bare/bracketed/non-canonical, with and without port) x 8 pre-loaded cache entries "
                "(none, valid, expired, not yet valid, other name, other case, other CA, wrong SAN kind) through the real cert(); history: random sequences (4..13 operations) of pokes (10 kinds of certificates, also valid ones "
                "of another name), evictions and cert() calls on one real cache, against the sequential reading of the LTS; handshake: real "
                "CONNECT + TLS handshakes through 4 proxy configurations (no list, mitm-domains include/exclude, cache capacity 1 with TTL 300 ms "
                "under 24 concurrent handshakes, validity 2 s with a second round after expiry), SNI absent/same/other case/different, client "
                "verifies each chain independently; request: inner requests (origin-form/absolute-form x X-Forwarded-Proto values) towards origins "
                "with valid/expired/wrong-name/untrusted certificates that also listen for plaintext on the same port, with and without --insecure, "
                "with and without Connection: Upgrade; two proxies configured with different CA files in one process (the second built after "
                "the first) against origins of either CA; a proxy that first tunnels a CONNECT through an HTTPS upstream proxy and then "
                "forwards intercepted requests to an origin whose certificate names that upstream proxy. "
                "non-trivial = split inputs net.SplitHostPort accepts + every cache/handshake/request case",
        "traces_validated_against_impl": evals,
        "model_mismatches": len(model_bad),
        "property_failures_on_impl": len(prop_bad),
        "distribution": dist,
        "plaintext_leaks_observed": [{"case": o["case"], "plaintext_cookie": o.get("plaintext_cookie"), "authority": o.get("authority")} for o in leaks][:5],
        "notes_from_harness": meta.get("notes"),
        "race_run": race,
        "samples": meta.get("samples") or [{"none": "harness did not run"}],
    }
    ctx.finish("proof", coverage, [
        "the theorems are about the Gallina model; the model is tied to the code by gen/tables (shape of cert(), TLSForHost, "
        "handleMITM, handleConnectRequest, handle, fixRequestScheme, shouldMITM, roundTrip, the forwarder wiring) and by the run above",
        "certificate validity is proved relative to an x509 oracle; handshakes, signatures and chain building are crypto/tls and crypto/x509",
        "CONNECT authorities always carry a port; names are ASCII; no wildcard certificates in the cache adversary of the run "
        "(the proof's adversary is unrestricted)",
    ])
