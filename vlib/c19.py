"""C19 — configured secrets never appear in diagnostics."""
import json
import os
import re

from . import common

GROUP = "g19"
PROP_FILE = "C19.v"
KINDS = {  # shard prefix -> (jsonl file, label used in violation keys)
    "rcases": ("rcases.jsonl", "redact"),
    "pcases": ("pcases.jsonl", "parse"),
    "ocases": ("ocases.jsonl", "logmode"),
    "fcases": ("fcases.jsonl", "describe"),
    "ecases": ("ecases.jsonl", "binary"),
}


def load_jsonl(p):
    return [json.loads(l) for l in open(p)] if os.path.exists(p) else []


def nlist(text):
    """'[1; 2]' / '[1%N; 2%N]' / '[]' -> [1, 2]"""
    return [int(x) for x in re.findall(r"\d+", text or "")]


def run(ctx):
    ob_failed = []
    ok, msg = ctx.tables(GROUP)
    if not ok:
        ctx.log("tables:", msg)
        ob_failed.append("translator(gen/tables g19): " + msg)
    ok, log, failed = ctx.coq_make(GROUP)
    core_broken = [f for f in failed if f not in (PROP_FILE, "Obligations.v")]
    if not ok:
        ctx.log("coq build problems in:", failed)
    bad_words = common.forbidden_words([os.path.join(common.VERIF, "coq", GROUP)])
    if bad_words:
        ob_failed.append("forbidden vernacular: " + "; ".join(bad_words))
    info = ctx.check_theorems(GROUP, PROP_FILE)
    if info["rc"] != 0:
        # name the obligation of Obligations.v that stopped checking, if that is the cause
        oblog = ""
        if "Obligations.v" in failed:
            rc2, oblog = ctx.coqc(GROUP, "Obligations.v")
            oblog = " ".join(oblog.split())[-400:]
            src = open(os.path.join(common.VERIF, "coq", GROUP, "Obligations.v")).read().splitlines()
            m = re.search(r"line (\d+)", oblog)
            name = None
            if m:
                for l in src[:int(m.group(1))]:
                    mm = re.match(r"\s*Lemma\s+([A-Za-z0-9_']+)", l)
                    if mm:
                        name = mm.group(1)
            ob_failed.append("table obligation %s in Obligations.v no longer holds for this source tree: %s" % (name, oblog))
        else:
            ob_failed.append("theorem %s in %s no longer checks: %s" % (
                info.get("failed_at"), PROP_FILE, " ".join(info["log"].split())[-400:]))
    if core_broken:
        ob_failed.append("model/proof files do not compile: %s\n%s" % (core_broken, log[-1500:]))

    hb, hlog = ctx.build_harness("c19")
    meta, model_bad, prop_bad = {}, [], []
    if hb is None:
        ob_failed.append("harness does not build against the source tree: " + hlog[-800:])
    else:
        fbin = os.path.join(ctx.work, "forwarder")
        rcb, blog = common.sh([common.go_cmd(), "build", "-o", fbin, "./cmd/forwarder"], cwd=ctx.repo, env=common.go_env(), timeout=900)
        if rcb != 0:
            ob_failed.append("the forwarder binary does not build from the source tree: " + blog[-600:])
        args = [hb, "-seed", str(ctx.seed), "-tier", ctx.tier, "-out", ctx.work] + (["-bin", fbin] if rcb == 0 else [])
        if ctx.replay:
            rp = json.load(open(ctx.replay))
            inner = os.path.join(ctx.work, "replay_in.json")
            json.dump(rp.get("replay", rp), open(inner, "w"))
            args += ["-replay", inner]
        rc, out = common.sh(args, timeout=1500)
        if rc != 0:
            ob_failed.append("harness failed: " + out[-800:])
        else:
            meta = json.load(open(os.path.join(ctx.work, "meta.json")))
            res = ctx.coq_eval_shards(GROUP, ctx.work, meta["shards"])
            for shard, lg in res["_errors"]:
                ob_failed.append("correspondence shard %s did not evaluate: %s" % (shard, lg[-600:]))
            srcs = {k: load_jsonl(os.path.join(ctx.work, v[0])) for k, v in KINDS.items()}
            for shard in meta["shards"]:
                r = res.get(shard) or {}
                kind, idx = shard.split("_")[0], int(shard.split("_")[1].split(".")[0])
                basei = idx * meta["shard_size"]
                src = srcs[kind]
                for ident, acc in (("M", model_bad), ("P", prop_bad)):
                    for i in nlist(r.get(ident)):
                        case = src[basei + i] if basei + i < len(src) else {"index": basei + i}
                        acc.append((kind, case))

    def smallest(cases):
        return min(cases, key=lambda kc: len(json.dumps(kc[1])))

    reports = {json.dumps(r["case"], sort_keys=True): r for r in (meta.get("runs") or [])}

    def label_of(kind, case):
        if kind == "ecases":
            cl = case.get("class", "run")
            if cl in ("rejected", "refusedcfg"):            # binary-rejected-flag | -env | -config, binary-refusedcfg-…
                return "binary-%s-%s" % (cl, case.get("source", "flag"))
            return "binary-" + cl                            # binary-run | binary-inprocess
        return KINDS[kind][1]

    labels = sorted(set(label_of(k, c) for k, c in prop_bad + model_bad))
    for label in labels:
        pb = [kc for kc in prop_bad if label_of(*kc) == label]
        mb = [kc for kc in model_bad if label_of(*kc) == label]
        if pb:
            kc = smallest(pb)
            rep = reports.get(json.dumps(kc[1], sort_keys=True), {})
            detail = ""
            if rep:
                detail = "; leaks: %s; differing lines: %s; missing non-secret parts: %s" % (
                    (rep.get("leaks") or [])[:3], (rep.get("diffs") or [])[:3], rep.get("missing_nonsecret"))
            ctx.violation("%s-output-violates-property" % label, kc[1], True,
                          "%d %s cases where the implementation's own output fails the C19 predicate; smallest: %s%s"
                          % (len(pb), label, json.dumps(kc[1])[:300], detail[:900]))
        elif mb:
            kc = smallest(mb)
            ctx.violation("%s-correspondence" % label,
                          dict(kc[1], unchecked="correspondence model(g19)/implementation (%s)" % label), False,
                          "%d %s cases where model and implementation differ although the property predicate holds; smallest: %s"
                          % (len(mb), label, json.dumps(kc[1])[:300]))
    for r in (meta.get("runs") or []):
        if r.get("err") and not r.get("ran"):
            ob_failed.append("a run of the real binary could not be completed (%s): %s" % (json.dumps(r["case"]), r["err"][:400]))
    if ob_failed and not ctx.violations:
        ctx.violation("obligation-unchecked", dict(unchecked=ob_failed), False, ob_failed[0][:300])
    elif ob_failed:
        ctx.notes.append({"unchecked_obligations": ob_failed})

    n_ob = len(info["theorems"])
    ob_src = common.strip_coq_comments(open(os.path.join(common.VERIF, "coq", GROUP, "Obligations.v")).read())
    table_obs = re.findall(r"\bLemma\s+(ob_[A-Za-z0-9_']+)", ob_src)
    tables_ok = "Obligations.v" not in failed
    counts = meta.get("counts", {})
    evals = sum(int(v) for v in counts.values())
    dist = meta.get("distribution", {})
    runs = meta.get("runs") or []
    nontriv = evals
    coverage = {
        "obligations": n_ob + len(table_obs),
        "discharged": len(info["discharged"]) + (len(table_obs) if tables_ok else 0),
        "checker_cmd": "make -j16 (coq_makefile, full .vo) in coq/lib and coq/g19; coqc C19.v; coqc on %d cases shards (vm_compute); "
                       "go build ./cmd/forwarder from the source tree and %d pairs of runs of that binary" % (len(meta.get("shards", [])), len(runs)),
        "trusted_base": common.standard_trusted_base([
            "Print Assumptions per theorem: %s" % json.dumps(info["assumptions"]),
            "the proof is THIN: non-interference of the redaction layer (redact functions, anyflag String()/GetSlice(), DescribeFlags, "
            "URL log lines) as transcribed; everything else that can print (slog handlers, martian debug logs, error texts of net/http and "
            "of the parsers, pflag/cobra error messages) is covered only by the runs of the real binary",
            "modelled, not verified: net/url userinfo escaping and Redacted(), fmt of []string, pflag/viper plumbing of env and config file",
            "the scan looks for: the literal secret, base64 (std, raw) of user:pass and of pass, query-/path-/userinfo-escaped, Go-quoted and "
            "JSON-quoted forms; for data: key material a 48-character window at the head and in the middle of the payload and of the PEM body",
        ]),
        "theorems": info["theorems"],
        "table_obligations": table_obs,
        "unchecked_obligations": ob_failed,
        "evaluations": evals,
        "distinct_nontrivial": nontriv,
        "rule": "redact: pairs of values (userinfo / proxy URL / host-port-user / data: URI) that differ only in the secret (1..16 characters "
                "over 92 printable ASCII characters incl. : @ %% / blank quote backslash; same and different lengths; no password; nil) through "
                "bind.RedactUserinfo, bind.RedactURL, forwarder.RedactHostPortUser, bind.RedactBase64; parse: pairs of ARGUMENT STRINGS "
                "`user:password[@host:port]` (passwords with : @ %%, user names containing @ or the password, refused forms) through "
                "forwarder.ParseUserinfo / ParseHostPortUser and then the redact function, against the model's parsers; logmode: 1..4 --log-http occurrences of 1..3 entries each (named api:/proxy: or unnamed, "
                "6 modes) through bind.HTTPLogConfig on a real pflag set, the modes both modules end up in; describe: the real `forwarder run` flag "
                "set parsed from arguments (random subset of 8 secret-bearing flags) and dumped by FlagsDescriber OneLine and Plain, twice; "
                "binary: the real binary started twice per case with secrets s1 != s2 of equal length via flags / FORWARDER_* environment / "
                "JSON config file, log level error|info|debug, log-http none|short-url|url|errors, text and json log format, with and "
                "without --log-file and MITM key material, two modules in different modes, upstream password via --proxy URL or via "
                "--credentials, upstream down; ~45 exchanges per run (proxy auth ok / missing / wrong; upstream closing / 407 / 502 / 403 / "
                "silent for plain requests and CONNECT; MITM handshake; userinfo in the request URL; /configz with / without / wrong "
                "credentials; 6 rounds of a 5xx exchange with a --credentials site alternating with successful proxy and API exchanges; "
                "HTTP-dump records of 5xx exchanges in errors mode and of modules configured for headers/body are exempt, as the statement "
                "allows); several --log-http occurrences (named/unnamed in either order, repeated); configurations the program refuses after "
                "parsing (duplicate --credentials targets, MITM key not matching the certificate) by flag / env / config file; inprocess: the real HTTPProxy "
                "with a 400 ms CONNECT timeout (the binary has no flag for it) against the same upstream faults, scan only. "
                "Every case is non-trivial (each carries at least one secret)",
        "traces_validated_against_impl": evals,
        "model_mismatches": len(model_bad),
        "property_failures_on_impl": len(prop_bad),
        "distribution": dist,
        "binary_runs": [{"case": r["case"], "ran": r.get("ran"), "leaks": len(r.get("leaks") or []), "diffs": len(r.get("diffs") or []),
                         "visible": r.get("visible"), "bytes_scanned": r.get("bytes_scanned"), "channels": r.get("channels")} for r in runs],
        "bytes_scanned": sum(int(r.get("bytes_scanned") or 0) for r in runs),
        "observed_flag_rendering": meta.get("observed_secret_flags"),
        "not_claimed": "--pac accepts a URL with userinfo and is bound without a redact function (Obligations.ob_unredacted_url_flags): "
                       "its password is printed in the configuration dump; the property does not list --pac",
        "notes_from_harness": (meta.get("notes") or [])[:5],
        "samples": meta.get("samples") or [{"none": "harness did not run"}],
    }
    ctx.finish("proof", coverage, [
        "the theorems are about the Gallina model of the redaction layer; the model is tied to the code by gen/tables (the flag table of "
        "bind/flag.go, the shapes and placeholders of the redact functions, describe.go, the URL log lines) and by the runs above",
        "assurance that NOTHING ELSE prints a secret comes from the differential runs of the real binary, which is testing",
        "secrets are printable ASCII without line breaks; the --proxy flag refuses passwords containing '@' and slice flags split at commas "
        "when given on the command line or in the environment (such secrets are used through the config file)",
    ])
