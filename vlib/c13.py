"""C13 — request and connection accounting is conserved on every path."""
import json
import os

from . import common
from . import g12util as g

GROUP = "g12"
PROP_FILE = "C13.v"


def trace_text(o):
    out = []
    for e in o.get("trace", []):
        if e["kind"] == "read":
            out.append("Read(%s)" % (e["method"] if e["has_req"] else "no request: " + e["err"][:30]))
        else:
            out.append("Wrote(%d,label=%s%s%s)" % (e["status"], e["method"], "" if e["own_req"] else ",NOT the request read",
                                                     ",err" if e["err"] else ""))
    return " ".join(out)


def run(ctx):
    info, ob_failed = g.prepare(ctx, PROP_FILE)
    meta, herr = g.run_harness(ctx, "c13")
    model_bad, prop_bad = [], []
    if meta is None:
        ob_failed.append(herr)
        meta = {}
    else:
        res = ctx.coq_eval_shards(GROUP, ctx.work, meta["shards"])
        for shard, lg in res["_errors"]:
            ob_failed.append("correspondence shard %s did not evaluate: %s" % (shard, lg[-600:]))
        xobs = g.load_jsonl(os.path.join(ctx.work, "obs.jsonl"))
        cobs = g.load_jsonl(os.path.join(ctx.work, "ct.jsonl"))
        mobs = g.load_jsonl(os.path.join(ctx.work, "mixed.jsonl"))
        bobs = g.load_jsonl(os.path.join(ctx.work, "bytes.jsonl"))
        for shard in meta["shards"]:
            r = res.get(shard) or {}
            kind, idx = shard.split("_")[0], int(shard.split("_")[1].split(".")[0])
            src = {"xcases": xobs, "ctcases": cobs, "mcases": mobs, "bcases": bobs}[kind]
            base = {"xcases": idx * meta["shard_size"], "ctcases": 0, "mcases": idx, "bcases": 0}[kind]
            for ident, acc in (("M", model_bad), ("P", prop_bad)):
                for i in (ctx.parse_nlist(r.get(ident)) or []):
                    case = src[base + i] if base + i < len(src) else {"index": base + i}
                    acc.append((kind, case))

    # thorough: the same harness built with the race detector (data races in the accounting code are schedule faults)
    race_note = None
    if ctx.tier == "thorough" and not ctx.replay:
        race_note = race_run(ctx)
        if race_note.get("races") or race_note.get("error"):
            ob_failed.append("race-detector run of the harness: %s" % json.dumps(race_note)[:1200])

    # decide (DESIGN.md 2.2).  One violation per leaf of the path tree (exchange cases) / per kind (conntrack).
    def key_of(kind, case):
        if kind == "xcases":
            return case.get("leaf", "?")
        if kind == "mcases":
            return "mixed-load-" + ("upstream" if case.get("upstream") else "direct")
        if kind == "bcases":
            return "byte-counters"
        return "conntrack-" + str(case.get("kind"))

    seen = set()
    for kind, case in sorted(prop_bad, key=lambda kc: len(json.dumps(kc[1]))):
        k = key_of(kind, case)
        if k in seen:
            continue
        seen.add(k)
        n = sum(1 for kk, cc in prop_bad if key_of(kk, cc) == k)
        if kind == "xcases":
            what = ("%d case(s) on leaf '%s' where the real proxy's trace / registry violate the accounting property; e.g. %s: %s; "
                    "in_flight=%s total=%s listener_active=%s dialer_active=%s upstream_connections_left_open=%s" % (
                        n, k, case.get("name"), trace_text(case), {a: b for a, b in case.get("in_flight", {}).items() if b},
                        case.get("total"), case.get("listener_active"), case.get("dialer_active"), case.get("upstream_open", 0)))
            ctx.violation("accounting:" + k, {"name": case.get("name"), "kind": "exchange"}, True, what)
        elif kind == "bcases":
            ctx.violation("accounting:" + k, {"kind": "bytes", "obs": case}, True,
                          "conntrack Observer differs from the bytes transferred: rx=%s (peer sent %s) tx=%s (peer got %s)" % (
                              case.get("rx"), case.get("peer_sent"), case.get("tx"), case.get("peer_got")))
        elif kind == "mcases":
            ctx.violation("accounting:" + k, {"kind": "mixed", "name": case.get("name")}, True,
                          "%d connections / %d requests of mixed kinds against one proxy: at quiescence in_flight=%s total=%s (requests %d) "
                          "listener_active=%s dialer_active=%s %s" % (case.get("conns"), case.get("requests"),
                                                                    {a: b for a, b in case.get("in_flight", {}).items() if b}, case.get("total"),
                                                                    case.get("requests"), case.get("listener_active"), case.get("dialer_active"), case.get("err")))
        else:
            ctx.violation("accounting:" + k, {"ct": case, "kind": "conntrack"}, True,
                          "concurrent Close calls: %s" % json.dumps(case))
    pkeys = set(seen)
    seen = set()
    for kind, case in sorted(model_bad, key=lambda kc: len(json.dumps(kc[1]))):
        k = key_of(kind, case)
        if k in seen or k in pkeys:
            continue
        seen.add(k)
        ctx.violation("correspondence:" + k,
                      {"name": case.get("name"), "kind": "exchange" if kind == "xcases" else "conntrack",
                       "unchecked": "correspondence G12.Exchange/Conntrack model vs implementation on leaf " + k},
                      False, "model and implementation differ although the accounting predicate holds: %s %s %s" % (
                          case.get("name"), trace_text(case) if kind == "xcases" else json.dumps(case), case.get("err", "")))
    # a broken obligation / theorem / translator is reported unless a NEW failing input was found (known findings do not count)
    if ob_failed and not any(found for _, _, found, _ in ctx.violations):
        ctx.violation("obligation-unchecked", dict(unchecked=ob_failed), False, "; ".join(o[:160] for o in ob_failed[:4]))
    elif ob_failed:
        ctx.notes.append({"unchecked_obligations": ob_failed})

    n_ob = len(info["theorems"]) + _count_obligations()
    n_dis = len(info["discharged"]) + (_count_obligations() if not any("table obligation" in o or "Obligations" in o for o in ob_failed) else
                                       _count_obligations() - sum(1 for o in ob_failed if "table obligation" in o))
    coverage = {
        "obligations": n_ob,
        "discharged": n_dis,
        "checker_cmd": "make -j16 (coq_makefile, full .vo) in coq/lib and coq/g12; coqc C13.v; coqc on %d observation shards (vm_compute)"
                       % len(meta.get("shards", [])),
        "trusted_base": common.standard_trusted_base([
            "Print Assumptions per theorem: %s" % json.dumps(info["assumptions"]),
            "modelled, not verified: net/http (request parsing, Transport, Response.Write), bufio, the Go scheduler, sync.Once "
            "(transcribed as a mutex-protected flag), the Prometheus client library (Inc/Dec/WithLabelValues), kernel TCP",
            "verif hook zz_verif_exchange.go (observes ProxyTrace events, add-only, build tag verif)",
        ]),
        "theorems": info["theorems"],
        "unchecked_obligations": ob_failed,
        "evaluations": int(meta.get("exchanges", 0)) + int(meta.get("conntrack_close_calls", 0)) + int(meta.get("mixed_requests", 0)),
        "distinct_nontrivial": int(meta.get("distinct_valuations", 0)),
        "rule": "exchange cases: one scripted scenario per leaf of the path tree x request kinds / statuses / framings, each against a "
                "fresh in-process proxy with its own Prometheus registry; distinct_nontrivial = distinct branch valuations of "
                "G12.Exchange.val driven through the real proxy; conntrack: Close called by 1/2/3/16 goroutines at once on "
                "conntrack.Builder conns (counting wrappers) and on conns of the real Listener / Dialer",
        "traces_validated_against_impl": int(meta.get("cases", 0)),
        "model_mismatches": len(model_bad),
        "property_failures_on_impl": len(prop_bad),
        "distribution": {"leaves": meta.get("leaves"), "conntrack_cases": meta.get("conntrack_cases"), "mixed_runs": meta.get("mixed_runs"),
                         "mixed_requests": meta.get("mixed_requests"), "mixed_connections": meta.get("mixed_connections"),
                         "path_tree_valuations_proved": 622080},
        "samples": [{"exchange_cases": meta.get("samples")}],
        "race_detector_run": race_note,
    }
    ctx.finish("proof", coverage, [
        "the theorems are about the Gallina path model of proxyConn.handle and its callees and the LTS of closeListener.Close; "
        "the model is tied to the code by gen/tables (control-flow skeletons and shape flags, Obligations.v) and by running the "
        "real proxy through the leaves of the tree and comparing trace, client view and registry with the model's prediction",
        "hypothesis of T13_exactly_once / T13_gauge_zero: the proxy is not shutting down during the exchange (p.closing() false)",
        "leaves not reachable with net/http's Transport (101 whose body is not a ReadWriteCloser, drainBuffer error) and the h2 MITM "
        "hand-off are in the model and the proofs but are not driven end-to-end",
        "byte counters: the conntrack Observer is compared with the bytes a loopback peer sent / received (Read, Write, ReadFrom with "
        "seeded sizes); the proxy does not export them as Prometheus series",
    ])


def race_run(ctx):
    """go build -race of harness/cmd/c13 against the tree, run its quick tier, look for DATA RACE reports."""
    import re
    import shutil
    hdir = os.path.join(common.VERIF, "harness")
    mod = open(os.path.join(hdir, "go.mod")).read()
    mod = re.sub(r"(replace github.com/saucelabs/forwarder => ).*", r"\g<1>" + ctx.repo, mod)
    modfile = os.path.join(ctx.work, "race.mod")
    open(modfile, "w").write(mod)
    shutil.copy(os.path.join(ctx.repo, "go.sum"), os.path.join(ctx.work, "race.sum"))
    out = os.path.join(ctx.work, "harness-c13-race")
    env = common.go_env()
    env["CGO_ENABLED"] = "1"
    rc, log = common.sh([common.go_cmd(), "build", "-race", "-modfile=" + modfile, "-tags", "verif", "-o", out, "./cmd/c13"],
                        cwd=hdir, env=env, timeout=900)
    if rc != 0:
        return {"error": "race build failed: " + log[-400:]}
    rdir = os.path.join(ctx.work, "race")
    os.makedirs(rdir, exist_ok=True)
    env2 = dict(os.environ)
    env2["GORACE"] = "halt_on_error=0 log_path=" + os.path.join(rdir, "race")
    rc, log = common.sh([out, "-seed", str(ctx.seed), "-tier", "quick", "-out", rdir], env=env2, timeout=900)
    reports = [f for f in os.listdir(rdir) if f.startswith("race.")]
    races, other = [], []
    for f in reports:
        txt = open(os.path.join(rdir, f), errors="replace").read()
        for m in re.finditer(r"WARNING: DATA RACE(.*?)(?:==================|$)", txt, re.S):
            body = " ".join(m.group(1).split())
            # races that involve forwarder's code are reported; races inside the harness' own bookkeeping are only noted
            (races if "saucelabs/forwarder" in body else other).append(body[:700])
    note = {"rc": rc, "races": races[:5], "race_reports": len(races), "harness_only_reports": other[:2]}
    if rc == 66 and not races and not other:
        note["note"] = "race detector exit status 66 without a report file: " + log[-600:]
    return note


def _count_obligations():
    p = os.path.join(common.VERIF, "coq", GROUP, "Obligations.v")
    src = common.strip_coq_comments(open(p).read())
    return src.count("Lemma ob_")
