"""Shared steps of the two checks of proof group g12 (C12, C13): regenerate tables, build the
group, re-check the property file, name the table obligations that no longer hold."""
import json
import os
import re

from . import common

GROUP = "g12"


def load_jsonl(p):
    return [json.loads(l) for l in open(p)] if os.path.exists(p) else []


def failing_obligations(ctx):
    """Evaluate every `Lemma ob_x : LHS = RHS.` of Obligations.v as a boolean in one vm_compute, so that ALL
    obligations that no longer hold are named (coqc would stop at the first).  Returns (names, error_text)."""
    g = os.path.join(common.VERIF, "coq", GROUP)
    src = common.strip_coq_comments(open(os.path.join(g, "Obligations.v")).read())
    lemmas = re.findall(r"Lemma\s+(ob_\w+)\s*:\s*(.+?)\s*=\s*(.+?)\.\s*\n\s*Proof\.\s*vm_compute", src, re.S)
    items = []
    for name, lhs, rhs in lemmas:
        lhs, rhs = " ".join(lhs.split()), " ".join(rhs.split())
        if rhs in ("true", "false"):
            t = "Bool.eqb (%s) %s" % (lhs, rhs)
        elif rhs.startswith("exp_") or lhs.startswith("handler_order") or lhs.startswith("skel_"):
            t = "list_str_eqb (%s) (%s)" % (lhs, rhs)
        elif re.fullmatch(r"\d+", rhs):
            t = "N.eqb (%s) %s" % (lhs, rhs)
        else:
            continue
        items.append((name, t))
    body = ["From FwdLib Require Import Bytes Hdr.", "From G12 Require Import Tables Expected Errors Exchange ErrorsProofs Indexing.",
            "Open Scope N_scope."]
    body.append("Definition obl : list bool := [%s]." % "; ".join(t for _, t in items))
    body.append("Definition R := Eval vm_compute in obl.\nPrint R.")
    p = os.path.join(ctx.work, "obcheck.v")
    open(p, "w").write("\n".join(body) + "\n")
    rc, log = ctx.coqc(GROUP, "obcheck.v", cwd=ctx.work, timeout=300)
    flat = " ".join(log.split())
    m = re.search(r"R = \[(.*?)\]", flat)
    if rc != 0 or not m:
        return [], "obligation evaluation failed: " + flat[-400:]
    vals = [v.strip() for v in m.group(1).split(";")]
    bad = [items[i][0] for i, v in enumerate(vals) if v != "true" and i < len(items)]
    return bad, ""


def prepare(ctx, prop_file):
    """Steps 1-3 of the contract.  Returns (info, ob_failed:list[str])."""
    ob_failed = []
    ok, msg = ctx.tables(GROUP)
    if not ok:
        ctx.log("tables:", msg)
        ob_failed.append("translator(gen/tables g12): " + msg[-600:])
    ok, log, failed = ctx.coq_make(GROUP)
    if not ok:
        ctx.log("coq build problems in:", failed)
    bad_words = common.forbidden_words([os.path.join(common.VERIF, "coq", "lib"),
                                        os.path.join(common.VERIF, "coq", GROUP)])
    if bad_words:
        ob_failed.append("forbidden vernacular: " + "; ".join(bad_words))
    core_ok = {"Obligations.v", "C12.v", "C13.v"}
    core_broken = [f for f in failed if f not in core_ok]
    if core_broken:
        ob_failed.append("model/proof files do not compile: %s\n%s" % (core_broken, log[-1500:]))
    if "Obligations.v" in failed or not ok:
        bad, err = failing_obligations(ctx)
        for b in bad:
            ob_failed.append("table obligation %s no longer holds (Obligations.v)" % b)
        if err:
            ob_failed.append(err)
    info = ctx.check_theorems(GROUP, prop_file)
    if info["rc"] != 0:
        why = " ".join(info["log"].split())[-300:]
        if "Obligations" in why and any("table obligation" in o for o in ob_failed):
            ob_failed.append("theorems of %s are not re-established: they depend on the obligations above" % prop_file)
        else:
            ob_failed.append("theorem %s in %s no longer checks: %s" % (info.get("failed_at"), prop_file, why))
    return info, ob_failed


def run_harness(ctx, name, extra_args=(), timeout=900):
    hb, hlog = ctx.build_harness(name)
    if hb is None:
        return None, "harness does not build against the source tree: " + hlog[-800:]
    args = [hb, "-seed", str(ctx.seed), "-tier", ctx.tier, "-out", ctx.work] + list(extra_args)
    if ctx.replay:
        rp = json.load(open(ctx.replay))
        # a replay names a generated case: regenerate with the seed and tier that produced it
        args[2], args[4] = str(rp.get("seed", ctx.seed)), str(rp.get("tier", ctx.tier))
        inner = os.path.join(ctx.work, "replay_in.json")
        json.dump(rp.get("replay", rp), open(inner, "w"))
        args += ["-replay", inner]
    rc, out = common.sh(args, timeout=timeout)
    if rc != 0:
        return None, "harness failed: " + out[-800:]
    return json.load(open(os.path.join(ctx.work, "meta.json"))), ""
