"""C15 — stalled clients are cut off at configured limits and cannot delay other clients."""
import json
import os

from . import common

GROUP = "g11"
PROP_FILE = "C15.v"


def load_jsonl(p):
    return [json.loads(l) for l in open(p)] if os.path.exists(p) else []


def run(ctx):
    ob_failed = []
    ok, msg = ctx.tables(GROUP)
    if not ok:
        ctx.log("tables:", msg)
        ob_failed.append("translator(gen/tables g11): " + msg)
    ok, log, failed = ctx.coq_make(GROUP)
    c15_files = ("Tables.v", "Timeouts.v", "TimeoutsCheck.v", "TimeoutsProofs.v", "TimeoutsGeneral.v", "Obligations.v", PROP_FILE)
    failed = [f for f in failed if f in c15_files]
    core_broken = [f for f in failed if f not in (PROP_FILE, "Obligations.v")]
    if "Obligations.v" in failed:
        import re
        m = re.search(r'File "\./Obligations\.v", line (\d+)', log)
        name = None
        if m:
            lines = open(os.path.join(common.VERIF, "coq", GROUP, "Obligations.v")).read().splitlines()
            for l in lines[:int(m.group(1))]:
                mm = re.match(r"\s*Lemma\s+([A-Za-z0-9_']+)", l)
                if mm:
                    name = mm.group(1)
        ob_failed.append("table obligation %s (coq/g11/Obligations.v) no longer holds of the source" % name)
    bad_words = common.forbidden_words([os.path.join(common.VERIF, "coq", "lib"),
                                        os.path.join(common.VERIF, "coq", GROUP)])
    if bad_words:
        ob_failed.append("forbidden vernacular: " + "; ".join(bad_words))
    info = ctx.check_theorems(GROUP, PROP_FILE)
    if info["rc"] != 0 and "Obligations.v" not in failed:
        ob_failed.append("theorem %s in %s no longer checks: %s" % (
            info.get("failed_at"), PROP_FILE, " ".join(info["log"].split())[-400:]))
    if core_broken:
        ob_failed.append("model/proof files do not compile: %s\n%s" % (core_broken, log[-1500:]))

    hb, hlog = ctx.build_harness("c15")
    meta, tj, aj = {}, [], []
    bad = {"M": [], "P": [], "MA": [], "PA": []}
    if hb is None:
        ob_failed.append("harness does not build against the source tree: " + hlog[-800:])
    else:
        args = [hb, "-seed", str(ctx.seed), "-tier", ctx.tier, "-out", ctx.work]
        if ctx.replay:
            rp = json.load(open(ctx.replay))
            inner = os.path.join(ctx.work, "replay_in.json")
            json.dump(rp.get("replay", rp), open(inner, "w"))
            args += ["-replay", inner]
        rc, out = common.sh(args, timeout=1200)
        if rc != 0:
            ob_failed.append("harness failed: " + out[-800:])
        else:
            meta = json.load(open(os.path.join(ctx.work, "meta.json")))
            res = ctx.coq_eval_shards(GROUP, ctx.work, meta["shards"], idents=("M", "P", "MA", "PA"))
            for shard, lg in res["_errors"]:
                ob_failed.append("correspondence shard %s did not evaluate: %s" % (shard, lg[-600:]))
            tj = load_jsonl(os.path.join(ctx.work, "tcases.jsonl"))
            aj = load_jsonl(os.path.join(ctx.work, "acases.jsonl"))
            for shard in meta["shards"]:
                r = res.get(shard) or {}
                for ident in bad:
                    src = tj if ident in ("M", "P") else aj
                    for i in (ctx.parse_nlist(r.get(ident)) or []):
                        bad[ident].append(src[i] if i < len(src) else {"index": i})
            for e in (meta.get("timing_errors") or []) + (meta.get("accept_errors") or []):
                ob_failed.append("harness scenario could not run: " + e)
            # Wall-clock measurements on a shared machine: a scenario that fails is run again, alone,
            # up to two more times; only a failure that reproduces every time is reported (a real
            # defect is deterministic, a descheduled client or proxy goroutine is not).
            retried = {}
            for attempt in (1, 2):
                names = sorted({x["scenario"]["name"] for k in bad for x in bad[k] if "scenario" in x})
                if not names or ctx.replay:
                    break
                rdir = os.path.join(ctx.work, "retry%d" % attempt)
                os.makedirs(rdir, exist_ok=True)
                rc2, out2 = common.sh([hb, "-seed", str(ctx.seed), "-tier", ctx.tier, "-out", rdir, "-only", ",".join(names)], timeout=900)
                if rc2 != 0:
                    break
                m2 = json.load(open(os.path.join(rdir, "meta.json")))
                res2 = ctx.coq_eval_shards(GROUP, rdir, m2["shards"], idents=("M", "P", "MA", "PA"))
                tj2 = load_jsonl(os.path.join(rdir, "tcases.jsonl"))
                aj2 = load_jsonl(os.path.join(rdir, "acases.jsonl"))
                still = {k: [] for k in bad}
                for shard in m2["shards"]:
                    r2 = res2.get(shard) or {}
                    for ident in bad:
                        src2 = tj2 if ident in ("M", "P") else aj2
                        for i in (ctx.parse_nlist(r2.get(ident)) or []):
                            if i < len(src2):
                                still[ident].append(src2[i])
                for ident in bad:
                    before = {x["scenario"]["name"] for x in bad[ident] if "scenario" in x}
                    keep = [x for x in still[ident] if x["scenario"]["name"] in before]
                    for n in before - {x["scenario"]["name"] for x in keep}:
                        retried[n] = retried.get(n, 0) + 1
                    bad[ident] = keep
            meta["not_reproduced_on_rerun"] = sorted(retried)

    def tkey(t):
        sc = t["scenario"]
        return "stall-%s-%s" % (sc["phase"], "closed-off-limit" if t["closed_ms"] >= 0 else "never-closed")

    def tdesc(t):
        sc = t["scenario"]
        if sc["phase"] == "upstream":
            return "%s: the request had been received in full (head at %d ms), but the client got %s (limits ms %s)" % (
                sc["name"], t["enter_ms"], "its response" if t.get("got_reply") else ("no complete response: " + str(t.get("err"))),
                json.dumps(sc["lim"]))
        d = (t["closed_ms"] - t["enter_ms"]) if t["closed_ms"] >= 0 else None
        return "%s: stalled in %s from %d ms, proxy closed the socket %s (limits ms %s)" % (
            sc["name"], sc["phase"], t["enter_ms"],
            ("%d ms later" % d) if d is not None else "never within %d ms" % (t["watched_ms"] - t["enter_ms"]),
            json.dumps(sc["lim"]))

    # 5. decide
    by_key = {}
    for t in bad["P"]:
        k = tkey(t)
        if t["scenario"]["phase"] == "upstream":
            k = "slow-head-exchange-cut" if "slow-head" in t["scenario"]["name"] else "slow-origin-exchange-cut"
        by_key.setdefault(k, []).append(t)
    for k, ts in sorted(by_key.items()):
        t = min(ts, key=lambda x: len(json.dumps(x["scenario"])))
        ctx.violation(k, {"kind": "timing", "scenario": t["scenario"], "observed": {x: t[x] for x in ("enter_ms", "closed_ms", "watched_ms", "got_reply", "events")}},
                      True, "%d scenario(s); smallest: %s" % (len(ts), tdesc(t)))
    if bad["PA"]:
        a = min(bad["PA"], key=lambda x: (x["scenario"]["n"], len(json.dumps(x["scenario"]))))
        sc = a["scenario"]
        ctx.violation("probe-delayed-by-stalled-peers-%s" % (("pp-listener" if "pp" in sc["stack"] else sc["stack"]) +
                                                               ("-rate-limited" if sc.get("rate_limit") else "")),
                      {"kind": "accept", "scenario": sc, "observed": {x: a.get(x) for x in ("probe_ms", "probe_ok", "base_ms", "lead_ms")}},
                      True,
                      "%d scenario(s); smallest: %s: %d stalled peer(s) (%s), probe latencies %s ms vs %s ms without peers"
                      % (len(bad["PA"]), sc["name"], sc["n"], sc["peer_op"], a.get("probe_ms"), a.get("base_ms")))
    if not bad["P"] and bad["M"]:
        t = min(bad["M"], key=lambda x: len(json.dumps(x["scenario"])))
        ctx.violation("timing-correspondence", {"kind": "timing", "scenario": t["scenario"],
                                                 "unchecked": "correspondence Timeouts.v model / implementation (close time)"},
                      False, "%d scenario(s) where the timed model mispredicts the close although the property predicate holds; smallest: %s"
                      % (len(bad["M"]), tdesc(t)))
    if not bad["PA"] and bad["MA"]:
        a = min(bad["MA"], key=lambda x: (x["scenario"]["n"], len(json.dumps(x["scenario"]))))
        ctx.violation("accept-correspondence", {"kind": "accept", "scenario": a["scenario"],
                                                 "unchecked": "correspondence Timeouts.v accept-loop model / implementation (probe latency)"},
                      False, "%d scenario(s) where the accept-loop model mispredicts the probe latency; smallest: %s probes %s base %s"
                      % (len(bad["MA"]), a["scenario"]["name"], a.get("probe_ms"), a.get("base_ms")))
    chk = None
    if ctx.tier == "thorough" and not core_broken and info["rc"] == 0 and not ctx.replay:
        chk = ctx.coqchk(GROUP, ["C15"])
        if not chk["ok"] or chk.get("axioms") not in ("<none>",):
            ob_failed.append("coqchk: %s" % chk)
    if ob_failed and not ctx.violations and not ctx.known_hits:
        ctx.violation("obligation-unchecked", dict(unchecked=ob_failed), False, ob_failed[0][:300])
    elif ob_failed:
        ctx.notes.append({"unchecked_obligations": ob_failed})

    n_ob = len(info["theorems"]) + 9   # + lemmas of Obligations.v
    try:
        src = common.strip_coq_comments(open(os.path.join(common.VERIF, "coq", GROUP, "Obligations.v")).read())
        import re
        obs = re.findall(r"\bLemma\s+([A-Za-z0-9_']+)", src)
        n_ob = len(info["theorems"]) + len(obs)
    except OSError:
        obs = []
    discharged = len(info["discharged"]) + (len(obs) if "Obligations.v" not in failed else 0)
    total = int(meta.get("timing_cases", 0)) + int(meta.get("accept_cases", 0))
    coverage = {
        "obligations": n_ob,
        "discharged": discharged,
        "checker_cmd": "make -j16 (coq_makefile, full .vo) in coq/lib and coq/g11; coqc C15.v; coqc on %d cases shard(s) (vm_compute)"
                       % len(meta.get("shards", [])),
        "trusted_base": common.standard_trusted_base([
            "Print Assumptions per theorem: %s" % json.dumps(info["assumptions"]),
            "modelled, not verified: Go timers / context deadlines / net.Conn read deadlines fire exactly at the deadline and "
            "computation takes no time (tested with the stated tolerance); crypto/tls and net address getters delegate to the "
            "wrapped connection; goroutine scheduling",
            "wall-clock behaviour is TESTED, not proved: limits scaled to %s ms, lateness tolerance %s ms, earliness tolerance 10 ms; "
            "a failing scenario is re-run alone twice and reported only if it fails every time"
            % (json.dumps(meta.get("lim")), meta.get("tol_ms")),
        ]),
        "theorems": info["theorems"],
        "coqchk": chk,
        "table_obligations": obs,
        "unchecked_obligations": ob_failed,
        "evaluations": total,
        "distinct_nontrivial": int(meta.get("distinct_signatures", 0)),
        "rule": "timing: every listener stacking (plain, TLS, PROXY, PROXY+TLS, MITM, PROXY+MITM) x every stall point "
                "(silent / k bytes / trickle of PROXY v1+v2 header, listener and MITM ClientHello, request head; first idle, "
                "between requests; slow origin) on the real proxy in-process over TCP; accept: 1..%s stalled peers in each phase, "
                "then a well-behaved probe; non-trivial/distinct = distinct (stacking, phase, sequence of client event kinds) among the scenarios in which the proxy closed the socket, plus distinct (stacking, peer behaviour, N) accept scenarios"
                % meta.get("max_stalled_peers"),
        "traces_validated_against_impl": total,
        "model_mismatches": len(bad["M"]) + len(bad["MA"]),
        "property_failures_on_impl": len(bad["P"]) + len(bad["PA"]),
        "distribution": {k: meta.get(k) for k in ("by_phase", "by_stack", "closed_observed", "not_closed_observed",
                                                   "max_stalled_peers", "lim", "tol_ms", "wall_ms", "not_reproduced_on_rerun")},
        "samples": meta.get("samples"),
    }
    ctx.finish("proof", coverage, [
        "PARTIAL: the theorems are about the timed Gallina model (deadline arithmetic, structure of the accept loop); "
        "that the running proxy behaves like the model in wall-clock time is tested with tolerances, not proved",
        "the model is tied to the code by gen/tables g11 (calls on the accepted connection before `go`, order of deadline "
        "calls in readRequest/handleMITM, which proxyproto.Conn methods wait for the header, defaults, wiring) and by the run above",
        "T15_closed_at_limit / T15_not_before (stated with eff_limit, any phase) assume Proxy.ReadTimeout = 0 (the default, obligation ob_defaults); the *_any_config theorems state the same exactness phase by phase (idle, head, body, listener handshake, MITM hello wait, MITM handshake, PROXY header) without that hypothesis",
    ])
