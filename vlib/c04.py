"""C04 — access control is complete: refused requests cause no upstream activity."""
import json
import os
import re

from . import common

GROUP = "g04"
PROP_FILE = "C04.v"
HARNESS = "c04"
# files of the group that are not needed by C04's property file (a failure there is noted, not fatal for C04)
OTHER_FILES = ("C06.v", "Creds.v", "CredsCheck.v", "CredsProofs.v", "CredsTable.v", "CredsOracle.v", "CredsObligations.v", "Gaps.v")


def load_jsonl(p):
    return [json.loads(l) for l in open(p)] if os.path.exists(p) else []


def classify(case):
    """Key identifying the input class of a failing end-to-end case."""
    o = case.get("obs", {})
    q = case.get("req", {})
    st = o.get("status")
    hdr = o.get("header") or {}
    ht = q.get("host_tag", "?")
    hclass = "alias" if ht.startswith("alias") else ht.split("-")[0]
    ct = q.get("cred_tag", "?")
    tags = "host-class=%s,cred=%s" % (hclass, "exact" if ct in ("exact", "colon-shift", "user-with-colon", "trailing-space",
                                                                  "name-lower", "name-upper", "nonstrict-bits") else
                                      ("absent-or-wrong" if q.get("method") else "?"))
    if st == 407 and not any(v.startswith("Basic") for v in hdr.get("Proxy-Authenticate", [])):
        return "407-without-challenge"
    if case.get("prev_spec") and q.get("cred_tag") == "other-proxys-credentials" and st != 407:
        return "credentials-accepted-by-another-proxy-of-the-process-open-this-one"
    if (case.get("spec") or {}).get("handler") and q.get("form") == "origin" and (st == 500 or o.get("from_peer")):
        return "handler-variant-origin-form-request-not-judged-by-its-host-field"
    if ct.startswith("long-") and st != 407:
        return "long-credentials-differing-in-the-tail-accepted"
    if (case.get("spec") or {}).get("empty_pass") and "no-colon" in ct and st != 407:
        return "colonless-credentials-accepted-for-a-user-with-empty-password"
    if ct.startswith(("value-", "token-")) and st != 407 and (case.get("spec") or {}).get("auth"):
        return "case-folded-header-value-accepted-after-an-accepted-request"
    tf = (case.get("spec") or {}).get("time_frame")
    clk = case.get("clock")
    if tf and clk:
        inside = any(e["Day"] == clk[0] and e["Start"] <= clk[1] < e["End"] for e in tf)
        if (st == 451 and inside) or (st != 451 and not inside):
            return "time-frame-verdict-wrong-for-the-clock"
    if o.get("from_peer") or (st == 200 and q.get("method") == "CONNECT") or (o.get("dials") and st not in (407, 403, 451)):
        if ht.endswith("-dot") or "-dot-" in ht:
            return "trailing-dot-spelling-forwarded-although-refusable"
        if "zone" in ht:
            return "zone-qualified-literal-forwarded-under-deny"
        if "idna" in ht:
            return "idna-mapped-host-name-forwarded-although-refusable"
    if o.get("from_peer"):
        if "unspec" in ht:
            return "unspecified-literal-forwarded-under-deny"
        return "forwarded-although-a-check-fails:" + tags
    if st in (407, 403, 451) and (o.get("dials") or o.get("msgs")):
        return "upstream-activity-for-refused-request:" + tags
    return "unexpected-answer-status-%s:%s" % (st, tags)


def count_table_obligations(ob_file, failed):
    """Number of `Lemma ob_*` in the group's obligations file, and how many of them were discharged by this run's make
    (all, when the file compiled; none otherwise)."""
    path = os.path.join(common.VERIF, "coq", GROUP, ob_file)
    if not os.path.exists(path):
        return 0, 0, []
    names = re.findall(r"\bLemma\s+(ob_[A-Za-z0-9_']+)", common.strip_coq_comments(open(path).read()))
    return len(names), (0 if ob_file in failed else len(names)), names


def run_group_checks(ctx, prop_file, other_files, ob_file=None):
    """tables + make + forbidden words + property file. Returns (info, ob_failed)."""
    ob_failed = []
    ok, msg = ctx.tables(GROUP)
    if not ok:
        ctx.log("tables:", msg)
        ob_failed.append("translator(gen/tables g04): " + msg)
    ok, log, failed = ctx.coq_make(GROUP)
    core_broken = [f for f in failed if f not in (prop_file,) and f not in other_files]
    if not ok:
        ctx.log("coq build problems in:", failed)
    bad_words = common.forbidden_words([os.path.join(common.VERIF, "coq", "lib"),
                                        os.path.join(common.VERIF, "coq", GROUP)])
    if bad_words:
        ob_failed.append("forbidden vernacular: " + "; ".join(bad_words))
    info = ctx.check_theorems(GROUP, prop_file)
    if info["rc"] != 0:
        ob_failed.append("theorem %s in %s no longer checks: %s" % (
            info.get("failed_at"), prop_file, " ".join(info["log"].split())[-500:]))
    if core_broken:
        ob_failed.append("model/proof files do not compile: %s\n%s" % (core_broken, log[-1500:]))
    noted = [f for f in failed if f in other_files]
    if noted:
        ctx.notes.append({"other_files_of_group_not_compiling": noted})
    n_ob, n_dis, names = count_table_obligations(ob_file, failed) if ob_file else (0, 0, [])
    info["table_obligations"], info["table_obligations_discharged"], info["table_obligation_names"] = n_ob, n_dis, names
    return info, ob_failed


def run_harness(ctx, name, ob_failed, extra_args=()):
    """build + run the harness + evaluate shards. Returns (meta, {kind: (model_bad, prop_bad)} as case lists)."""
    hb, hlog = ctx.build_harness(name)
    meta, bad = {}, {}
    if hb is None:
        ob_failed.append("harness does not build against the source tree: " + hlog[-800:])
        return meta, bad
    args = [hb, "-seed", str(ctx.seed), "-tier", ctx.tier, "-out", ctx.work] + list(extra_args)
    if ctx.replay:
        rp = json.load(open(ctx.replay))
        inner = os.path.join(ctx.work, "replay_in.json")
        json.dump(rp.get("replay", rp), open(inner, "w"))
        args += ["-replay", inner]
    rc, out = common.sh(args, timeout=1500)
    if rc != 0:
        ob_failed.append("harness failed (rc=%s): %s" % (rc, out[-800:]))
        return meta, bad
    meta = json.load(open(os.path.join(ctx.work, "meta.json")))
    for e in meta.get("errors") or []:
        ob_failed.append("harness: " + e)
    res = ctx.coq_eval_shards(GROUP, ctx.work, meta["shards"], timeout=1200)
    for shard, lg in res["_errors"]:
        ob_failed.append("correspondence shard %s did not evaluate: %s" % (shard, lg[-600:]))
    cache = {}
    for shard in meta["shards"]:
        r = res.get(shard) or {}
        kind, idx = shard.rsplit("_", 1)[0], int(shard.rsplit("_", 1)[1].split(".")[0])
        if kind not in cache:
            cache[kind] = load_jsonl(os.path.join(ctx.work, kind + ".jsonl"))
        src = cache[kind]
        base = idx * (meta.get("shard_sizes") or {}).get(kind, meta["shard_size"])
        mb, pb = bad.setdefault(kind, ([], []))
        for ident, acc in (("M", mb), ("P", pb)):
            for i in (ctx.parse_nlist(r.get(ident)) or []):
                acc.append(src[base + i] if base + i < len(src) else {"index": base + i})
    return meta, bad


def smallest(cases):
    return min(cases, key=lambda c: len(json.dumps(c)))


def run(ctx):
    info, ob_failed = run_group_checks(ctx, PROP_FILE, OTHER_FILES, "Obligations.v")
    meta, bad = run_harness(ctx, HARNESS, ob_failed)

    n_model_bad = n_prop_bad = 0
    # end-to-end cases: group the property failures by input class
    xm, xp = bad.get("xcases", ([], []))
    ym, yp = bad.get("ycases", ([], []))      # end-to-end cases with long literals (shards of their own)
    xm, xp = xm + ym, xp + yp
    n_model_bad += len(xm)
    n_prop_bad += len(xp)
    groups = {}
    for c in xp:
        groups.setdefault(classify(c), []).append(c)
    for key, cs in sorted(groups.items()):
        c = smallest(cs)
        o, q = c.get("obs", {}), c.get("req", {})
        ctx.violation(key, c, True,
                      "%d exchanges; e.g. %s %s cred=%s -> status %s, Proxy-Authenticate=%s, dials=%s, reached peers=%d, answer from peer=%r"
                      % (len(cs), q.get("method"), q.get("host"), q.get("cred_tag"), o.get("status"),
                         (o.get("header") or {}).get("Proxy-Authenticate"), o.get("dials"), len(o.get("msgs") or []),
                         o.get("from_peer")))
    only_model = [c for c in xm if c not in xp]
    if only_model and not xp:
        c = smallest(only_model)
        ctx.violation("e2e-correspondence", dict(c, unchecked="correspondence model(g04 Access.v)/implementation (end-to-end)"),
                      False, "%d exchanges where the model's prediction and the proxy's answer differ although the property predicate holds; "
                      "smallest: %s %s -> %s" % (len(only_model), c.get("req", {}).get("method"), c.get("req", {}).get("host"),
                                                 c.get("obs", {}).get("status")))
    # pure functions
    for kind, label in (("pfcases", "time-frame-syntax"), ("bcases", "basic-auth"), ("icases", "parse-ip"), ("hcases", "url-hostname"), ("tcases", "time-frame")):
        mb, pb = bad.get(kind, ([], []))
        n_model_bad += len(mb)
        n_prop_bad += len(pb)
        if pb:
            c = smallest(pb)
            ctx.violation("%s-output-violates-property" % label, c, True,
                          "%d inputs where the real function's output fails the property predicate; smallest: %s"
                          % (len(pb), json.dumps(c)[:300]))
        elif mb:
            c = smallest(mb)
            ctx.violation("%s-correspondence" % label, dict(c, unchecked="correspondence model(g04)/%s" % label), False,
                          "%d inputs where model and real function differ; smallest: %s" % (len(mb), json.dumps(c)[:300]))

    if ob_failed and not ctx.violations and not ctx.known_hits:
        ctx.violation("obligation-unchecked", dict(unchecked=ob_failed), False, ob_failed[0][:300])
    elif ob_failed:
        ctx.notes.append({"unchecked_obligations": ob_failed})

    counts = meta.get("shard_case_counts", {})
    evaluations = sum(counts.values()) if counts else 0
    coverage = {
        "obligations": len(info["theorems"]) + info["table_obligations"],
        "discharged": len(info["discharged"]) + info["table_obligations_discharged"],
        "table_obligations": info["table_obligation_names"],
        "checker_cmd": "make -j16 (coq_makefile, full .vo) in coq/lib and coq/g04; coqc C04.v; coqc on %d cases shards (vm_compute)"
                       % len(meta.get("shards", [])),
        "trusted_base": common.standard_trusted_base([
            "Print Assumptions per theorem: %s" % json.dumps(info["assumptions"]),
            "modelled, not verified: net/http request parsing (the harness parses its own request bytes with the same "
            "http.ReadRequest to obtain URL.Host and the header map given to the model), net/http.Header methods (FwdLib.Hdr), "
            "encoding/base64 StdEncoding.DecodeString (G04.Base64), net.ParseIP/IsLoopback/IsUnspecified (G04.Ip), url.URL.Hostname, "
            "strings.EqualFold/ToLower on ASCII; each is compared with the real function on every run",
            "the deny-domains matcher is an oracle in the model (a function host -> bool); its answers on the run's host names are "
            "recorded from the real ruleset.RegexpMatcher (C17 is about what a rule list denotes)",
            "the Go runtime, the http.Transport's connection handling and the kernel between the modifier chain and the sockets: "
            "covered by observation only (dial log of the transport's DialContext, what the scripted origin / upstream proxy received)",
            "verif hook middleware.VerifSetClock (add-only, build tag verif) injects the time for allow-time-frame",
        ]),
        "theorems": info["theorems"],
        "unchecked_obligations": ob_failed,
        "evaluations": evaluations,
        "distinct_nontrivial": int(meta.get("refused", 0)) + int(meta.get("basic_cases", 0)),
        "rule": "end-to-end: real proxy in-process, every combination of {basic auth, localhost denial, deny-domains, time frame} x "
                "{no upstream, upstream proxy} (+ one real-dial and one http.Handler configuration) x generated requests "
                "(7 methods incl. CONNECT, ~55 host spellings x 4 ports, ~46 credential variants, absolute/origin/authority form, "
                "HTTP/1.0 and 1.1) in sessions of 1-4 requests per connection; pure functions: BasicAuth/AuthenticatedRequest, net.ParseIP, "
                "URL.Hostname, TimeFrameEntry.Match on generated inputs; non-trivial = exchanges the proxy refused + basic-auth inputs",
        "traces_validated_against_impl": evaluations,
        "model_mismatches": n_model_bad,
        "property_failures_on_impl": n_prop_bad,
        "distribution": {k: meta.get(k) for k in (
            "configs", "sessions", "exchanges", "refused", "forwarded", "exchanges_by_status", "exchanges_by_method",
            "exchanges_by_credential_variant", "exchanges_by_host_variant", "exchanges_by_position_on_connection", "exchanges_inside_mitm_by_status_and_refusing_check",
            "deny_matcher_hostnames_checked", "deny_matcher_hostname_differences", "hosts_file_aliases", "shard_case_counts", "time_frame_syntax_cases", "time_frame_syntax_cases_accepted")},
        "samples": [{"end_to_end": [dict(spec=s.get("spec"), req=s.get("req"),
                                         obs={k: s.get("obs", {}).get(k) for k in ("status", "dials", "from_peer")})
                                    for s in (meta.get("samples") or [])]}],
    }
    ctx.finish("proof", coverage, [
        "the theorems are about the Gallina model (Access.v); the model is tied to the code by gen/tables g04 (order of the security "
        "modifiers, status map, seed list, hop-by-hop list, code shapes of isLocalhost / writeErrorResponse / handle) and by the "
        "differential run above",
        "requests on which net/http's own parser fails, Via loops and inconsistent framing (other refusals of the httpspec stack) are "
        "outside the modelled domain",
        "hosts are ASCII; spellings the resolver may map to the local machine but which are neither a name of the seed list / hosts file "
        "nor an IP literal accepted by net.ParseIP (e.g. 'localhost.', '127.1', zone-qualified literals) are outside the statement's list",
    ])
