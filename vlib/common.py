"""Shared machinery for every property check (see DESIGN.md section 2 and 8).

A property module vlib/cXX.py defines  run(ctx)  and uses:
  ctx.tables(group)                    regenerate coq/<group>/Tables.v from the source tree
  ctx.coq_make(group)                  (re)build coq/lib and coq/<group> (full .vo), returns (ok, log)
  ctx.check_theorems(group, vfile)     recompile the property file, returns obligations/discharged/assumptions
  ctx.build_harness(name)              go build -tags verif ./cmd/<name> against the source tree
  ctx.coq_eval_shards(group, dir, shards)   run coqc on cases files in parallel, returns {shard: {ident: text}}
  ctx.violation(key, replay, found=True, what="")
  ctx.finish(coverage, assumptions)    write evidence, print lines, exit
"""
import fcntl
import json
import os
import re
import shutil
import subprocess
import sys
import time
from concurrent.futures import ThreadPoolExecutor

VERIF = os.path.dirname(os.path.dirname(os.path.abspath(__file__)))
REPO = os.environ.get("VERIF_REPO", "/repo")
WORK = os.path.join(VERIF, "work")
CACHED_GO = "/root/go/pkg/mod/golang.org/toolchain@v0.0.1-go1.23.12.linux-amd64/bin/go"
FORBIDDEN = re.compile(
    r"\b(Admitted|admit|Axiom|Axioms|Parameter|Parameters|Conjecture|Conjectures|"
    r"Unset\s+Guard\s+Checking|bypass_check|Admit\s+Obligations|Unset\s+Positivity\s+Checking|"
    r"Unset\s+Universe\s+Checking|type-in-type|impredicative-set)\b")


def go_cmd():
    if os.path.exists(CACHED_GO):
        return CACHED_GO
    return "go"


def go_env():
    env = dict(os.environ)
    env["GOFLAGS"] = "-mod=mod"
    env["GOPROXY"] = "off"
    if os.path.exists(CACHED_GO):
        env["GOTOOLCHAIN"] = "local"
    else:
        env.pop("GOTOOLCHAIN", None)
        env.pop("GOSUMDB", None)
    env.setdefault("GOCACHE", os.path.join(os.path.expanduser("~"), ".cache", "go-build"))
    return env


def sh(cmd, cwd=None, timeout=1200, env=None, input=None):
    """Run a command, return (rc, combined output). rc=124 on timeout."""
    try:
        p = subprocess.run(cmd, cwd=cwd, env=env, input=input, stdout=subprocess.PIPE,
                           stderr=subprocess.STDOUT, timeout=timeout, text=True,
                           shell=isinstance(cmd, str), errors="replace")
        return p.returncode, p.stdout
    except subprocess.TimeoutExpired as e:
        out = e.stdout or ""
        if isinstance(out, bytes):
            out = out.decode(errors="replace")
        return 124, out + "\n[timeout after %ss]" % timeout


class Lock:
    def __init__(self, name):
        os.makedirs(os.path.join(WORK, "locks"), exist_ok=True)
        self.path = os.path.join(WORK, "locks", name + ".lock")
        self.f = None

    def __enter__(self):
        self.f = open(self.path, "w")
        fcntl.flock(self.f, fcntl.LOCK_EX)
        return self

    def __exit__(self, *a):
        fcntl.flock(self.f, fcntl.LOCK_UN)
        self.f.close()


def strip_coq_comments(text):
    out, depth, i = [], 0, 0
    while i < len(text):
        if text.startswith("(*", i):
            depth += 1
            i += 2
        elif text.startswith("*)", i) and depth > 0:
            depth -= 1
            i += 2
        else:
            if depth == 0:
                out.append(text[i])
            i += 1
    return "".join(out)


def forbidden_words(group_dirs):
    """grep for Admitted/Axiom/... in the .v sources (comments stripped)."""
    hits = []
    for d in group_dirs:
        for root, _, files in os.walk(d):
            for fn in files:
                if fn.endswith(".v"):
                    p = os.path.join(root, fn)
                    txt = strip_coq_comments(open(p, errors="replace").read())
                    for m in FORBIDDEN.finditer(txt):
                        hits.append("%s: %s" % (p, m.group(0)))
    return hits


def load_known():
    """known_findings.json plus the per-property fragments known_findings.d/*.json (committed, read-only)."""
    out = []
    p = os.path.join(VERIF, "known_findings.json")
    if os.path.exists(p):
        out.extend(json.load(open(p)).get("findings", []))
    d = os.path.join(VERIF, "known_findings.d")
    if os.path.isdir(d):
        for fn in sorted(os.listdir(d)):
            if fn.endswith(".json"):
                out.extend(json.load(open(os.path.join(d, fn))).get("findings", []))
    return out


class Ctx:
    def __init__(self, pid, tier, seed, replay=None):
        self.pid = pid
        self.tier = tier
        self.seed = seed
        self.replay = replay
        self.t0 = time.time()
        self.repo = REPO
        self.work = os.path.join(WORK, pid)
        self.violations = []      # (key, replay_path, found, what)
        self.known_hits = []
        self.notes = []
        self.theorem_info = {}
        self.group = None          # set by bin/check from the property module's GROUP
        self.known = [k for k in load_known() if k.get("property") == pid]
        if os.path.isdir(self.work):
            shutil.rmtree(self.work, ignore_errors=True)
        os.makedirs(self.work, exist_ok=True)
        os.makedirs(os.path.join(WORK, "replays"), exist_ok=True)
        os.makedirs(os.path.join(WORK, "bin"), exist_ok=True)

    # ---------------------------------------------------------------- logging
    def log(self, *a):
        print("[%s %6.1fs]" % (self.pid, time.time() - self.t0), *a, flush=True)

    # ---------------------------------------------------------------- tables
    def tables_tool(self, group=None):
        """Build the translator. With a group, only main.go, lib*.go and <group>*.go are compiled, so a
        half-written file of another group cannot break this group's check."""
        import glob as _glob
        tdir = os.path.join(VERIF, "gen", "tables")
        with Lock("tables-build-" + (group or "all")):
            out = os.path.join(WORK, "bin", "tables" + ("-" + group if group else ""))
            if group:
                files = [os.path.join(tdir, "main.go")] + sorted(_glob.glob(os.path.join(tdir, "lib*.go"))) + \
                    sorted(_glob.glob(os.path.join(tdir, group + "*.go")))
                files = [f for f in files if not f.endswith("_test.go")]
                cmd = [go_cmd(), "build", "-o", out] + files
            else:
                cmd = [go_cmd(), "build", "-o", out, "./tables"]
            rc, log = sh(cmd, cwd=os.path.join(VERIF, "gen"), env=go_env(), timeout=600)
            if rc != 0:
                raise RuntimeError("building gen/tables failed:\n" + log)
            return out

    def tables(self, group, name="Tables.v"):
        """Regenerate the group's Tables.v from self.repo. Returns (ok, message)."""
        tool = self.tables_tool(group)
        out = os.path.join(VERIF, "coq", group, name)
        rc, log = sh([tool, "-repo", self.repo, "-group", group, "-out", out], timeout=120)
        if rc != 0:
            # the source no longer has a shape the translator knows: fall back to the committed tables of
            # the last known tree (coq/<group>/Tables.default) so that the model keeps describing that tree
            # and the correspondence run can show where the code now differs; the caller reports the
            # translator failure as an unchecked obligation.
            dflt = os.path.join(VERIF, "coq", group, "Tables.default")
            if os.path.exists(dflt):
                data = open(dflt).read()
                if not os.path.exists(out) or open(out).read() != data:
                    open(out, "w").write(data)
        return rc == 0, log.strip()

    # ---------------------------------------------------------------- coq
    def _make(self, d, timeout):
        if not os.path.exists(os.path.join(d, "Makefile")) or \
                os.path.getmtime(os.path.join(d, "Makefile")) < os.path.getmtime(os.path.join(d, "_CoqProject")):
            rc, log = sh("coq_makefile -f _CoqProject -o Makefile 2>&1 | grep -v '^Warning' ; true", cwd=d)
        rc, log = sh(["make", "-j16", "-k"], cwd=d, timeout=timeout)
        log = "\n".join(l for l in log.splitlines() if not l.startswith("Warning"))
        return rc, log

    def coq_make(self, group, timeout=1500):
        """Full .vo build of coq/lib and coq/<group>. Returns (ok, log, failed_files)."""
        with Lock("coq-lib"):
            rc, log = self._make(os.path.join(VERIF, "coq", "lib"), timeout)
            if rc != 0:
                return False, log, ["lib"]
        rc, log = self._make(os.path.join(VERIF, "coq", group), timeout)
        failed = re.findall(r'File "\./([A-Za-z0-9_/]+\.v)", line \d+', log) if rc != 0 else []
        return rc == 0, log, sorted(set(failed))

    def coqc(self, group, vfile, cwd=None, timeout=600):
        g = os.path.join(VERIF, "coq", group)
        lib = os.path.join(VERIF, "coq", "lib")
        gname = self.group_logical(group)
        return sh(["coqc", "-Q", lib, "FwdLib", "-Q", g, gname, vfile], cwd=cwd or g, timeout=timeout)

    def group_logical(self, group):
        proj = open(os.path.join(VERIF, "coq", group, "_CoqProject")).read()
        m = re.search(r"-Q\s+\.\s+(\S+)", proj)
        return m.group(1)

    def check_theorems(self, group, vfile):
        """Recompile the property file (only Theorem/exact/Print Assumptions) and
        report obligations. Returns dict(theorems=[...], discharged=[...], assumptions={thm: text}, log)."""
        g = os.path.join(VERIF, "coq", group)
        src = strip_coq_comments(open(os.path.join(g, vfile)).read())
        thms = re.findall(r"\b(?:Theorem|Lemma|Corollary|Example)\s+([A-Za-z0-9_']+)", src)
        rc, log = self.coqc(group, vfile)
        info = {"file": vfile, "theorems": thms, "discharged": [], "assumptions": {}, "log": log, "rc": rc}
        if rc == 0:
            info["discharged"] = list(thms)
            # Print Assumptions output, in order of appearance
            pa = re.findall(r"Print\s+Assumptions\s+([A-Za-z0-9_']+)", src)
            blocks = re.split(r"(?m)^(?=Closed under the global context|Axioms:)", log)
            blocks = [b.strip() for b in blocks if b.strip().startswith(("Closed under", "Axioms:"))]
            for name, blk in zip(pa, blocks):
                info["assumptions"][name] = " ".join(blk.split())
        else:
            # which theorem failed: the last one that starts before the error line
            m = re.search(r'line (\d+)', log)
            if m:
                line = int(m.group(1))
                raw = open(os.path.join(g, vfile)).read().splitlines()
                cur = None
                for i, l in enumerate(raw[:line], 1):
                    mm = re.match(r"\s*(?:Theorem|Lemma|Corollary|Example)\s+([A-Za-z0-9_']+)", l)
                    if mm:
                        cur = mm.group(1)
                info["failed_at"] = cur
        self.theorem_info[vfile] = info
        return info

    def coqchk(self, group, modules, timeout=2400):
        """Independent re-check of the compiled property modules (and everything they depend on) with coqchk;
        returns dict(ok, axioms, summary). Used by thorough tiers only (30 s .. minutes)."""
        g = os.path.join(VERIF, "coq", group)
        lib = os.path.join(VERIF, "coq", "lib")
        gname = self.group_logical(group)
        extra = []
        proj = open(os.path.join(g, "_CoqProject")).read()
        for m in re.finditer(r"-Q\s+(\.\./\S+)\s+(\S+)", proj):
            if m.group(2) != "FwdLib":
                extra += ["-Q", os.path.join(g, m.group(1)), m.group(2)]
        cmd = ["coqchk", "-silent", "-o", "-Q", lib, "FwdLib", "-Q", g, gname] + extra + \
              ["%s.%s" % (gname, m) for m in modules]
        rc, log = sh(cmd, cwd=g, timeout=timeout)
        flat = " ".join(log.split())
        m = re.search(r"\* Axioms: (.*?) \* Constants/Inductives relying on type-in-type: (.*?) \* Constants/Inductives relying on unsafe \(co\)fixpoints: (.*?) \* Inductives whose positivity is assumed: (.*?)$", flat)
        res = {"ok": rc == 0, "cmd": " ".join(cmd), "axioms": None, "summary": flat[-600:]}
        if m:
            res.update(axioms=m.group(1).strip(), type_in_type=m.group(2).strip(),
                       unsafe_fixpoints=m.group(3).strip(), positivity_assumed=m.group(4).strip())
        return res

    def coq_eval_shards(self, group, d, shards, idents=("M", "P"), timeout=900, jobs=16):
        """coqc each shard (a cases .v file in directory d). Returns {shard: {ident: 'text' or None}, ...}
        plus key '_errors': list of (shard, log)."""
        res = {"_errors": []}

        def one(sh_name):
            rc, log = self.coqc(group, sh_name, cwd=d, timeout=timeout)
            flat = " ".join(log.split())
            r = {}
            for ident in idents:
                m = re.search(r"\b%s = (.*?) : " % re.escape(ident), flat)
                r[ident] = m.group(1).strip() if m else None
            return sh_name, rc, log, r

        with ThreadPoolExecutor(max_workers=jobs) as ex:
            for sh_name, rc, log, r in ex.map(one, shards):
                res[sh_name] = r
                if rc != 0 or any(v is None for v in r.values()):
                    res["_errors"].append((sh_name, log[-2000:]))
        return res

    @staticmethod
    def parse_nlist(text):
        """'[1; 2]' or '[]' or '[1; 2]%N' -> [1,2]"""
        if text is None:
            return None
        # elements may carry their own scope marker: [1%N; 2%N]
        return [int(x) for x in re.findall(r"\d+", re.sub(r"%[A-Za-z_]+", "", text))]

    # ---------------------------------------------------------------- harness
    def build_harness(self, name, tags="verif"):
        """go build ./cmd/<name> of /verif/harness against self.repo (replace directive
        rewritten into a per-check modfile). Returns (binary_path or None, log)."""
        hdir = os.path.join(VERIF, "harness")
        mod = open(os.path.join(hdir, "go.mod")).read()
        mod = re.sub(r"(replace github.com/saucelabs/forwarder => ).*", r"\g<1>" + self.repo, mod)
        modfile = os.path.join(self.work, "go.mod")
        open(modfile, "w").write(mod)
        shutil.copy(os.path.join(self.repo, "go.sum"), os.path.join(self.work, "go.sum"))
        out = os.path.join(self.work, "harness-" + name)
        rc, log = sh([go_cmd(), "build", "-modfile=" + modfile, "-tags", tags, "-o", out, "./cmd/" + name],
                     cwd=hdir, env=go_env(), timeout=900)
        if rc != 0:
            return None, log
        return out, log

    # ---------------------------------------------------------------- results
    def is_known(self, key):
        for k in self.known:
            if k.get("status") == "known" and k.get("key") == key:
                return k
        return None

    def write_replay(self, key, obj):
        safe = re.sub(r"[^A-Za-z0-9_.-]", "_", key)[:80]
        p = os.path.join(WORK, "replays", "%s-%s.json" % (self.pid, safe))
        json.dump(obj, open(p, "w"), indent=1, default=str)
        return p

    def violation(self, key, replay, found=True, what=""):
        """Report a violation identified by `key` (specific input / call site / history).
        replay: JSON-serialisable object describing how to reproduce."""
        k = self.is_known(key)
        if k is not None:
            if key not in [x[0] for x in self.known_hits]:
                self.known_hits.append((key, k.get("what", what)))
            return
        if key in [v[0] for v in self.violations]:
            return
        obj = dict(property=self.pid, key=key, what=what, seed=self.seed, tier=self.tier, replay=replay,
                   failing_input_found=bool(found))
        path = self.write_replay(key, obj)
        self.violations.append((key, path, found, what))

    def _auto_coqchk(self, coverage):
        """Thorough tier: every check gets an independent coqchk pass over its property modules (CNN*.v of the
        group) unless the property module already recorded one under coverage['coqchk']."""
        have = coverage.get("coqchk")
        if isinstance(have, dict) and have.get("axioms") is not None:
            return
        if self.tier != "thorough" or not self.group or self.replay is not None:
            return
        if os.path.realpath(self.repo) != "/repo":
            return
        gdir = os.path.join(VERIF, "coq", self.group)
        mods = sorted(f[:-2] for f in os.listdir(gdir) if re.match(re.escape(self.pid) + r"[A-Za-z0-9_]*\.v$", f)
                      and os.path.exists(os.path.join(gdir, f + "o")))
        if not mods:
            return
        self.log("coqchk on", mods)
        chk = self.coqchk(self.group, mods)
        coverage["coqchk"] = chk
        if isinstance(coverage.get("checker_cmd"), str):
            coverage["checker_cmd"] += " ; " + chk["cmd"]
        if not chk["ok"] or chk.get("axioms") != "<none>" or chk.get("type_in_type") != "<none>" \
                or chk.get("unsafe_fixpoints") != "<none>" or chk.get("positivity_assumed") != "<none>":
            if not self.violations:
                self.violation("coqchk", dict(unchecked="coqchk on %s" % mods, detail=chk), False,
                               "coqchk did not confirm an axiom-free, fully checked development: %s" % str(chk)[:300])

    def finish(self, level, coverage, assumptions):
        try:
            self._auto_coqchk(coverage)
        except Exception as e:  # noqa: BLE001
            self.notes.append({"coqchk_error": str(e)})
        wall = time.time() - self.t0
        ev = {
            "property_id": self.pid,
            "tier": self.tier,
            "seed": int(self.seed),
            "level": level,
            "coverage": coverage,
            "assumptions": assumptions,
            "wall_s": round(wall, 2),
            "violations": len(self.violations),
        }
        if self.notes:
            ev["coverage"]["notes"] = self.notes
        ev["coverage"]["known_findings_seen"] = [k for k, _ in self.known_hits]
        os.makedirs(os.path.join(VERIF, "evidence"), exist_ok=True)
        if self.replay is None and os.path.realpath(self.repo) == "/repo":
            json.dump(ev, open(os.path.join(VERIF, "evidence", self.pid + ".json"), "w"), indent=1, default=str)
        else:
            # replays and runs against another tree (VERIF_REPO, mutants) never touch the committed evidence
            json.dump(ev, open(os.path.join(self.work, "evidence.json"), "w"), indent=1, default=str)
        for key, what in self.known_hits:
            print("KNOWN-FINDING: property=%s %s (%s)" % (self.pid, key, what))
        for key, path, found, what in self.violations:
            tail = "" if found else " no-failing-input-found"
            print("VIOLATION property=%s replay=%s%s" % (self.pid, path, tail))
            self.log("  ^", key, "-", what)
        if self.violations:
            self.log("FAIL: %d violation(s) in %.1fs" % (len(self.violations), wall))
            sys.exit(1)
        self.log("OK in %.1fs" % wall)
        sys.exit(0)


def standard_trusted_base(extra=()):
    tb = [
        "Coq 8.16.1 kernel including the vm_compute bytecode VM (native_compute not used)",
        "coqc/coq_makefile full .vo build (no -vos/-vok)",
        "our translator /verif/gen/tables (Go AST -> Tables.v), re-run on every check",
        "our Go harness and the Python orchestrator (case generation, canonicalisation, diffing)",
        "Go toolchain 1.23.12, net/http, and the hand transcription of the Go functions into Gallina (checked by the correspondence run, which is testing)",
    ]
    tb.extend(extra)
    return tb
