"""C02 — responses reach the client intact and correctly framed on keep-alive connections."""
import json
import os
import re
import shutil

from . import common

GROUP = "g02"
PROP_FILE = "C02.v"
HARNESS = "c02"

# case kinds written by the harness: (jsonl file, what the M check ties, what the P check states)
KINDS = {
    "scases": ("isHeaderOnlySpec/shouldChunk/isTextEventStream", "header-only classification = RFC 7230 3.3.3"),
    "hcases": ("writeHeaderOnlyResponse (every Write call)", "a client consumes exactly the written head"),
    "fcases": ("patternFlushWriter.Write (flush per write)", "flush iff a pattern ends inside the write; every completed event flushed"),
    "wcases": ("http.Handler variant: every call of writeResponse on the ResponseWriter (header map, status, writes, flushes, trailers)",
               "the server is handed the origin's status, header fields, body and declared trailers; unknown-length bodies flushed per write"),
    "gcases": ("net/http Response.Write (modelled) behind the real flush writer", "-"),
    "dcases": ("the relay LTS (Relay.v: modelled bufio.Writer under the real pattern writer, fed by modelled Response.Write): number of connection writes at every body read, all connection writes",
               "whenever the body is asked for more data, the connection holds every earlier read as complete chunks (chunked coding) / everything up to the last complete event (event stream)"),
    "ecases": ("end to end through forwarder.NewHTTPProxy: bytes at the raw client", "client parser consumes exactly the k-th response; body/headers/trailers intact"),
    "tcases": ("end to end delivery times", "event/chunk visible before the origin sends the next byte"),
    "lcases": ("-", "with --log-http body, a slowly read large response and concurrent exchanges keep their own body bytes (logging must not alter messages)"),
    "xcases": ("- (http.Handler variant of the proxy, oracle only)", "client parser consumes exactly the k-th response; body/headers/trailers intact"),
    "ycases": ("-", "-"),
}


def load_jsonl(p):
    return [json.loads(l) for l in open(p)] if os.path.exists(p) else []


def table_pats(name):
    """read a pattern list from the regenerated Tables.v (passed to the harness for the direct flush-writer runs)"""
    txt = open(os.path.join(common.VERIF, "coq", GROUP, "Tables.v")).read()
    m = re.search(r"Definition %s : list \(N \* N\) := (.*?)\.\n" % name, txt)
    if not m:
        return ""
    return ";".join("%s,%s" % (a, b) for a, b in re.findall(r"\((\d+), (\d+)\)", m.group(1)))


def classify(kind, case):
    """key of the input class a failing case belongs to (known_findings.d suppresses by key)"""
    c = case.get("case", case)
    if kind == "hcases":
        r = c.get("R", {})
        if r.get("Trailer"):
            return "header-only-reply-with-declared-trailers"
        return "header-only-reply"
    if kind == "fcases":
        if c.get("Events"):
            w = "".join(c.get("Writes", []))
            if "\r\n\r\n" in w or "\r\r" in w:
                return "sse-event-terminated-by-cr-or-crlf-not-flushed"
            if "\n\r" in w:
                return "sse-event-with-mixed-line-ends-not-flushed"
            return "sse-event-not-flushed"
        return "flush-not-at-pattern-boundary"
    if kind == "scases":
        return "header-only-classification"
    if kind == "lcases":
        return ("handler-" if c.get("Handler") else "") + "body-logging-alters-message"
    if kind == "wcases":
        return "handler-hands-wrong-data-to-the-server"
    if kind == "dcases":
        return "sent-event-or-chunk-held-back-in-connection-buffer"
    pre = "handler-" if kind == "xcases" else ""
    if kind == "xcases" and case.get("only304ct"):
        return "handler-304-content-type-dropped"
    why = {2: "status-or-reason-phrase-changed", 3: "end-to-end-field-missing-or-changed", 4: "hop-by-hop-field-reaches-client",
           5: "body-differs", 6: "declared-trailers-differ",
           7: "connection-kept-after-aborted-response", 8: "connection-closed-without-cause",
           9: "response-header-rule-not-applied", 10: "request-the-client-never-sent-reached-an-origin",
           11: "connection-closed-unannounced"}.get(case.get("why"))
    if why:
        return pre + why
    if kind == "xcases" and case.get("only304ct"):
        return "handler-304-content-type-dropped"
    if kind in ("ecases", "tcases", "xcases"):
        cls = c.get("Class", kind)
        if cls != "generated":
            return ("handler:" if kind == "xcases" else "") + cls
        # the exchange that was not answered completely / correctly: the first one not done, else the last one
        ex = c.get("Exchs", [])
        done = case.get("done", len(ex))
        cand = ex[done:done + 1] or ex[-1:]
        x = cand[0]
        rq, rs = x["Req"], x["Resp"]
        if rs["Framing"] == "none" and rs.get("Declare") and rs.get("Trailers"):
            return "header-only-reply-with-declared-trailers"
        if rq["Proto"] == "HTTP/1.0" and rs["Framing"] == "chunked":
            return "http10-client-chunked-origin"
        if rs.get("Gzip") and "gzip" not in rq.get("AcceptE", ""):
            return "gzip-solicited-by-proxy"
        return "%sresponse-not-delimited:%s/%s/%s/%s" % (pre, rq["Method"], rq["Proto"], rs["Framing"], rs["Code"])
    return kind


G16V = os.path.join(common.VERIF, "coq", GROUP, "g16v")


def _sync_g16v():
    """Check.v uses C16's model of the header rules (G16.Model.apply_rules).  A private copy is compiled under
    coq/g02/g16v (logical name G16): C16's Model.v and, as Tables.v, C16's committed Tables.default (the tables of
    /repo HEAD).  Importing coq/g16 in place made this check depend on whatever tree another run had last generated
    coq/g16/Tables.v from (a mutant run of C16 broke and rebuilt g02).  The copy is refreshed whenever C16's files change."""
    changed = False
    g16 = os.path.join(common.VERIF, "coq", "g16")
    for src, dst in (("Model.v", "Model.v"), ("Tables.default", "Tables.v")):
        a, b2 = os.path.join(g16, src), os.path.join(G16V, dst)
        if os.path.exists(a) and (not os.path.exists(b2) or open(a).read() != open(b2).read()):
            os.makedirs(G16V, exist_ok=True)
            shutil.copy(a, b2)
            changed = True
    return changed


def _coqc_with_g16(ctx):
    lib = os.path.join(common.VERIF, "coq", "lib")
    g02 = os.path.join(common.VERIF, "coq", GROUP)

    def coqc(group, vfile, cwd=None, timeout=600):
        return common.sh(["coqc", "-Q", lib, "FwdLib", "-Q", g02, "G02", "-Q", G16V, "G16", vfile], cwd=cwd or g02, timeout=timeout)
    ctx.coqc = coqc


def run(ctx):
    _coqc_with_g16(ctx)
    if _sync_g16v():
        ctx.log("g16v: refreshed the private copy of C16's rule model")
    _run(ctx, None)


def _run(ctx, g16_problem):
    ob_failed = []
    if g16_problem:
        ob_failed.append(g16_problem)
    ok, msg = ctx.tables(GROUP)
    if not ok:
        ctx.log("tables:", msg)
        ob_failed.append("translator(gen/tables g02): " + msg)
    ok, log, failed = ctx.coq_make(GROUP)
    core_broken = [f for f in failed if f not in (PROP_FILE,)]
    if not ok:
        ctx.log("coq build problems in:", failed)
    bad_words = common.forbidden_words([os.path.join(common.VERIF, "coq", "lib"),
                                        os.path.join(common.VERIF, "coq", GROUP)])
    if bad_words:
        ob_failed.append("forbidden vernacular: " + "; ".join(bad_words))
    info = ctx.check_theorems(GROUP, PROP_FILE)
    if info["rc"] != 0:
        ob_failed.append("theorem %s in %s no longer checks: %s" % (
            info.get("failed_at"), PROP_FILE, " ".join(info["log"].split())[-500:]))
    if core_broken:
        ob_failed.append("model/proof files do not compile: %s\n%s" % (core_broken, log[-1500:]))
    ctx.log("theorems: %d/%d discharged" % (len(info["discharged"]), len(info["theorems"])))

    hb, hlog = ctx.build_harness(HARNESS)
    meta, model_bad, prop_bad = {}, [], []
    if hb is None:
        ob_failed.append("harness does not build against the source tree: " + hlog[-800:])
    else:
        args = [hb, "-seed", str(ctx.seed), "-tier", ctx.tier, "-out", ctx.work,
                "-sse-pats", table_pats("sse_flush_patterns"), "-chunk-pats", table_pats("chunk_flush_patterns")]
        if ctx.replay:
            rp = json.load(open(ctx.replay))
            inner = os.path.join(ctx.work, "replay_in.json")
            json.dump(rp.get("replay", rp), open(inner, "w"))
            args += ["-replay", inner]
        rc, out = common.sh(args, timeout=1500)
        if rc != 0:
            ob_failed.append("harness failed: " + out[-1200:])
        else:
            meta = json.load(open(os.path.join(ctx.work, "meta.json")))
            ctx.log("harness: %s" % json.dumps(meta.get("counts")))
            if meta.get("hook_problem"):
                ob_failed.append("verif hook does not fit this tree: " + meta["hook_problem"])
            # ycases (handler connections rendered without Content-Type on 304) are only needed to name a
            # failing xcase: evaluate just the shards whose xcases twin reported a failure
            first = [sh for sh in meta["shards"] if not sh.startswith("ycases_")]
            res = ctx.coq_eval_shards(GROUP, ctx.work, first, idents=("M", "P", "A"), timeout=1200)
            twins = [sh.replace("xcases_", "ycases_") for sh in first
                     if sh.startswith("xcases_") and (ctx.parse_nlist((res.get(sh) or {}).get("P")) or [])]
            twins = [sh for sh in twins if sh in meta["shards"]]
            if twins:
                res2 = ctx.coq_eval_shards(GROUP, ctx.work, twins, idents=("M", "P", "A"), timeout=1200)
                res["_errors"].extend(res2.pop("_errors"))
                res.update(res2)
            # a twin that was not evaluated had no failing xcase: treat all its cases as failing nothing
            for shard, lg in res["_errors"]:
                ob_failed.append("correspondence shard %s did not evaluate: %s" % (shard, lg[-600:]))
            cache = {}
            for shard in meta["shards"]:
                if shard not in res:
                    continue
                r = res.get(shard) or {}
                kind, idx = shard.split("_")[0], int(shard.split("_")[1].split(".")[0])
                if kind not in cache:
                    cache[kind] = load_jsonl(os.path.join(ctx.work, kind + ".jsonl"))
                size = meta.get("shard_sizes", {}).get(kind, meta["shard_size"])
                base = idx * size
                why = ctx.parse_nlist(r.get("A")) or []      # per case: which part of the oracle fails first (Check.ecase_why)
                for ident, acc in (("M", model_bad), ("P", prop_bad)):
                    for i in (ctx.parse_nlist(r.get(ident)) or []):
                        src = cache[kind]
                        case = src[base + i] if base + i < len(src) else {"index": base + i}
                        if ident == "P" and i < len(why):
                            case = dict(case, why=why[i])
                        acc.append((kind, case))

    # http.Handler variant: a failure that disappears when Content-Type on 304 replies is not expected
    # (ycases = the same connections, relaxed) is Go's http.Server dropping that field, a known finding
    def strip(c):
        return {k: v for k, v in c.items() if k not in ("why", "only304ct")}
    relaxed_bad = set(json.dumps(strip(c), sort_keys=True) for k, c in prop_bad if k == "ycases")
    prop_bad = [(k, c) for k, c in prop_bad if k != "ycases"]
    prop_bad = [(k, dict(c, only304ct=True)) if k == "xcases" and json.dumps(strip(c), sort_keys=True) not in relaxed_bad else (k, c)
                for k, c in prop_bad]

    def smallest(cases):
        return min(cases, key=lambda kc: len(json.dumps(kc[1])))

    # An end-to-end connection that fails alone in its class is run again on its own (a fresh proxy, origin and
    # client, nothing else in flight) before it is reported: up to 3 times, any failure counts.  A defect that a
    # scenario exhibits fails again; scheduling and socket accidents of a loaded machine do not.  What is not
    # reproduced is kept in the evidence notes together with its replay file, never silently dropped.
    def fails_alone(kind, case):
        if hb is None or ctx.replay:
            return True
        d = os.path.join(ctx.work, "solo")
        for attempt in range(3):
            shutil.rmtree(d, ignore_errors=True)
            os.makedirs(d)
            inner = os.path.join(d, "replay_in.json")
            json.dump(dict(kind=kind, case=case.get("case", case)), open(inner, "w"))
            rc, out = common.sh([hb, "-seed", str(ctx.seed), "-tier", ctx.tier, "-out", d, "-replay", inner,
                                 "-sse-pats", table_pats("sse_flush_patterns"), "-chunk-pats", table_pats("chunk_flush_patterns")], timeout=300)
            if rc != 0:
                return True
            m2 = json.load(open(os.path.join(d, "meta.json")))
            shards = [sh for sh in m2["shards"] if not sh.startswith("ycases_")]
            r2 = ctx.coq_eval_shards(GROUP, d, shards, idents=("M", "P", "A"), timeout=600)
            if r2["_errors"] or any(ctx.parse_nlist((r2.get(sh) or {}).get("P")) for sh in shards):
                return True
        return False

    # decide (DESIGN.md 2.2): group failures by input class
    by_key = {}
    for kind, case in prop_bad:
        by_key.setdefault((classify(kind, case), kind), []).append((kind, case))
    for (key, kind), lst in sorted(by_key.items()):
        kc = smallest(lst)
        if kind in ("ecases", "xcases", "tcases") and len(lst) == 1 and not ctx.is_known(key) and not fails_alone(kind, kc[1]):
            rp = ctx.write_replay("not-reproduced-" + key, dict(property=ctx.pid, key=key, replay=dict(kind=kind, case=kc[1].get("case", kc[1]))))
            ctx.notes.append({"intermittent_not_reproduced_in_3_solo_runs": key, "replay": rp,
                              "observed": "done=%s closed=%s timed_out=%s tail=%r" % (kc[1].get("done"), kc[1].get("closed"),
                                                                                       kc[1].get("timed_out"), kc[1].get("tail", "")[-80:])})
            ctx.log("not reproduced alone (3 runs), noted only:", key, rp)
            continue
        diag = ""
        if kind in ("ecases", "xcases"):
            diag = " [done=%s closed=%s timed_out=%s err=%r tail=%r]" % (
                kc[1].get("done"), kc[1].get("closed"), kc[1].get("timed_out"), kc[1].get("err", ""), kc[1].get("tail", "")[-80:])
        ctx.violation(key, dict(kind=kind, case=kc[1].get("case", kc[1])), True,
                      "%d %s where the implementation's own output fails the C02 predicate (%s)%s; smallest: %s"
                      % (len(lst), kind, KINDS.get(kind, ("", ""))[1], diag, json.dumps(kc[1].get("case", kc[1]))[:400]))
    pkeys = set((k, json.dumps(strip(c), sort_keys=True)) for k, c in prop_bad)
    only_model = [(k, c) for k, c in model_bad if (k, json.dumps(strip(c), sort_keys=True)) not in pkeys]
    by_kind = {}
    for kind, case in only_model:
        by_kind.setdefault(kind, []).append((kind, case))
    for kind, lst in sorted(by_kind.items()):
        kc = smallest(lst)
        ctx.violation("%s-correspondence" % kind,
                      dict(kind=kind, case=kc[1].get("case", kc[1]),
                           unchecked="correspondence model(g02)/implementation: %s" % KINDS.get(kind, ("",))[0]),
                      False,
                      "%d %s where model and implementation differ although the property predicate holds; smallest: %s"
                      % (len(lst), kind, json.dumps(kc[1])[:400]))
    # an obligation / the translator / a theorem that no longer checks is reported even when the only other
    # output is a known finding; when real violations with inputs exist it is added to their notes
    if ob_failed and not ctx.violations:
        ctx.violation("obligation-unchecked", dict(unchecked=ob_failed), False, ob_failed[0][:400])
    elif ob_failed:
        ctx.notes.append({"unchecked_obligations": ob_failed})

    # thorough: independent re-check of the compiled development with coqchk
    coqchk = None
    if ctx.tier == "thorough" and not ctx.replay:
        g = os.path.join(common.VERIF, "coq", GROUP)
        rc, out = common.sh(["coqchk", "-silent", "-o", "-Q", os.path.join(common.VERIF, "coq", "lib"), "FwdLib",
                             "-Q", g, "G02", "-Q", G16V, "G16", "G02.C02"], cwd=g, timeout=1500)
        flat = " ".join(out.split())
        m = re.search(r"\* Axioms: (.*?) \* Constants", flat)
        coqchk = {"rc": rc, "axioms": m.group(1).strip() if m else None}
        ctx.log("coqchk:", coqchk)
        if rc != 0 or not m or m.group(1).strip() != "<none>":
            ob_failed.append("coqchk did not confirm the development: rc=%s %s" % (rc, flat[-400:]))
            if not ctx.violations:
                ctx.violation("obligation-unchecked", dict(unchecked=ob_failed), False, ob_failed[-1][:400])

    counts = meta.get("counts", {})
    evaluations = sum(int(v) for v in counts.values())
    coverage = {
        "obligations": len(info["theorems"]),
        "discharged": len(info["discharged"]),
        "checker_cmd": "make -j16 (coq_makefile, full .vo) in coq/lib and coq/g02; coqc C02.v; coqc on %d cases shards (vm_compute)%s"
                       % (len(meta.get("shards", [])), "; coqchk -silent -o G02.C02" if coqchk else ""),
        "coqchk": coqchk,
        "trusted_base": common.standard_trusted_base([
            "Print Assumptions per theorem: %s" % json.dumps(info["assumptions"]),
            "modelled, not verified (Go standard library, transcribed by hand in RespFraming.v and validated by the gcases/ecases "
            "differential runs): net/http Response.Write and transferWriter, Header.Write, chunked writer write sequence, "
            "http.StatusText, hasToken, mime.ParseMediaType on the base type, http.Transport's reading of the origin response, bufio.Writer",
            "the reference client parser Client.v (RFC 7230 3.3.3) is part of the specification",
            "delivery timing (event/chunk visible before the origin sends the next byte) is tested with the stated tolerance, not proved",
        ]),
        "theorems": info["theorems"],
        "unchecked_obligations": ob_failed,
        "evaluations": evaluations,
        "distinct_nontrivial": int(meta.get("nontrivial", evaluations)),
        "rule": "distinct_nontrivial = distinct rendered cases that are non-trivial: scases classified header-only/chunk/event-stream; hcases with "
                "a header field or a declared trailer; fcases with at least one flush; gcases with a non-empty body; ecases with >= 2 completed "
                "exchanges on the connection; tcases with at least one measured delivery. See 'exhaustive_parts' and 'distribution'; direct runs through verif hooks (scases: all statuses 100-599 x methods; hcases: all "
                "statuses x header sets x declared trailers; fcases: exhaustive small write sequences + event/chunk streams; gcases: "
                "Response.Write behind the real flush writer) and end-to-end runs through forwarder.NewHTTPProxy",
        "traces_validated_against_impl": evaluations,
        "model_mismatches": len(model_bad),
        "property_failures_on_impl": len(prop_bad),
        "counts": counts,
        "exhaustive_parts": meta.get("exhaustive"),
        "distribution": meta.get("distribution"),
        "e2e": meta.get("e2e"),
        "samples": [meta.get("samples")],
    }
    ctx.finish("proof", coverage, [
        "the theorems are about the Gallina model; the model is tied to the code by gen/tables g02 (patterns, status sets, write "
        "sequence of writeHeaderOnlyResponse, close decision, writer switch order, hop-by-hop list) and by the differential runs",
        "Go's Response.Write / Header.Write / chunked writer / Transport are modelled (trusted transcription validated by testing)",
        "origin responses are well formed (no CR/LF in the reason phrase, canonical header keys, body length equals a declared Content-Length)",
        "timing is tested only (partial)",
    ])
