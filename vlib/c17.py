"""C17 — domain rule lists match exactly the union of includes minus the excludes."""
import json
import os

from . import common

GROUP = "g17"
PROP_FILE = "C17.v"
HARNESS = "c17"


def load_jsonl(p):
    return [json.loads(l) for l in open(p)] if os.path.exists(p) else []


def item_text(it):
    k = it["k"]
    if k == "lit":
        c = it.get("c", 0)
        ch = chr(c)
        return ch if (ch.isalnum() and c < 128) or ch == "-" else ("\\n" if c == 10 else "\\" + ch)
    if k == "any":
        return "."
    if k == "class":
        return "[" + ("^" if it.get("neg") else "") + "".join(
            chr(a) if a == b else chr(a) + "-" + chr(b) for a, b in it.get("ranges", [])) + "]"
    if k == "bol":
        return "^"
    if k == "eol":
        return "$"
    if k == "rep":
        if it["rep"] == "Count":
            return item_text(it["x"]) + "{%d,%s}" % (it.get("lo", 0), "" if it.get("hi", 0) < 0 else it.get("hi", 0))
        return item_text(it["x"]) + {"Star": "*", "Plus": "+", "Quest": "?"}[it["rep"]]
    e = it.get("e", [0, 0, 0])
    fl = "".join(c for c, v in zip("ims", e) if v == 1)
    off = "".join(c for c, v in zip("ims", e) if v == 2)
    if off:
        fl += "-" + off
    if k == "group":
        pre = {"Cap": "", "NonCap": "?:", "Flagged": "?" + fl + ":"}[it["g"]]
        return "(" + pre + rule_text(it.get("body") or []) + ")"
    if k == "setflags":
        return "(?" + fl + ")"
    if k == "bar":
        return "|"
    if k == "quote":
        return "\\Q" + it.get("s", "") + ("\\E" if it.get("closed") else "")
    return "?"


def rule_text(rule):
    return "".join(item_text(i) for i in (rule or []))


def has_kind(rule, pred):
    for it in rule or []:
        if pred(it):
            return True
        if it["k"] == "group" and has_kind(it.get("body"), pred):
            return True
        if it["k"] == "rep" and has_kind([it["x"]], pred):
            return True
    return False


def list_texts(case):
    return [("-" if e.get("exclude") else "") + rule_text(e.get("rule")) for e in case.get("entries", [])]


OPEN_QUOTE = lambda i: i["k"] == "quote" and not i.get("closed")   # noqa: E731
SETFLAGS = lambda i: i["k"] == "setflags"                           # noqa: E731


def features(case):
    rules = [e.get("rule") for e in case.get("entries", [])]
    return (any(has_kind(r, OPEN_QUOTE) for r in rules), any(has_kind(r, SETFLAGS) for r in rules))


def neutralise(rule, what):
    """copy of a rule with every unterminated quote closed (what='quote') or every bare (?flags) removed (what='flags')"""
    out = []
    for it in rule or []:
        it = dict(it)
        if what == "flags" and it["k"] == "setflags":
            out.append({"k": "group", "g": "NonCap", "body": []})    # (?:) — matches like (?i) on its own, sets nothing
            continue
        if what == "quote" and it["k"] == "quote":
            it["closed"] = True
        if it["k"] == "group":
            it["body"] = neutralise(it.get("body"), what)
        if it["k"] == "rep":
            it["x"] = neutralise([it["x"]], what)[0] if neutralise([it["x"]], what) else it["x"]
        out.append(it)
    return out


def classify(case, fails=None):
    """violation key of a failing list case (known_findings suppress by key).  With a re-run function
    [fails] the key names a feature only when removing that feature makes the failure disappear."""
    quote, flags = features(case)
    if quote:
        if fails is None or fails(dict(case, entries=[dict(e, rule=neutralise(e.get("rule"), "quote"))
                                                      for e in case["entries"]])) is False:
            return "unterminated-quote-changes-other-rules"
    if flags:
        if fails is None or fails(dict(case, entries=[dict(e, rule=neutralise(e.get("rule"), "flags"))
                                                      for e in case["entries"]])) is False:
            return "inline-flag-leaks-into-other-rules"
    return "list-verdict-differs-from-per-rule-evaluation"


FORWARDER = {}


def forwarder_binary(ctx):
    """the real binary built from the source tree (end-to-end cases); None when it does not build"""
    if "bin" not in FORWARDER:
        fwd = os.path.join(ctx.work, "forwarder")
        rc, blog = common.sh([common.go_cmd(), "build", "-o", fwd, "./cmd/forwarder"], cwd=ctx.repo,
                             env=common.go_env(), timeout=900)
        FORWARDER["bin"] = fwd if rc == 0 else None
        FORWARDER["log"] = blog
    return FORWARDER["bin"]


def run_harness(ctx, hb, workdir, replay_obj=None):
    """run the harness into workdir and evaluate its shards. returns (meta, res, error)"""
    os.makedirs(workdir, exist_ok=True)
    args = [hb, "-seed", str(ctx.seed), "-tier", ctx.tier, "-out", workdir]
    fwd = forwarder_binary(ctx)
    if fwd and (replay_obj is None or replay_obj.get("kind") in ("e2e", "route", "mitm")):
        args += ["-forwarder", fwd]
    if replay_obj is not None:
        inner = os.path.join(workdir, "replay_in.json")
        json.dump(replay_obj, open(inner, "w"))
        args += ["-replay", inner]
    rc, out = common.sh(args, timeout=900)
    if rc != 0:
        return {}, {}, "harness failed: " + out[-800:]
    meta = json.load(open(os.path.join(workdir, "meta.json")))
    res = ctx.coq_eval_shards(GROUP, workdir, meta["shards"], idents=("M", "P", "U"), timeout=1200)
    return meta, res, None


class Rerun:
    """re-runs one list case through harness + Coq; .fails(case) says whether the property oracle fails on it"""

    def __init__(self, ctx, hb, budget):
        self.ctx, self.hb, self.budget, self.n = ctx, hb, budget, 0

    def fails(self, c, extra=0):
        """True/False, or None when the budget is used up or the case cannot be run"""
        if self.n >= self.budget + extra:
            return None
        self.n += 1
        d = os.path.join(self.ctx.work, "shrink")
        meta, res, err = run_harness(self.ctx, self.hb, d, dict(c, kind="list"))
        if err or res.get("_errors") or not meta.get("shards"):
            return None
        r = res.get(meta["shards"][0]) or {}
        return bool(self.ctx.parse_nlist(r.get("P")))


def shrink(rr, case):
    """greedy delta-debugging of a failing list case: drop entries, hosts and top-level tokens of rules
    while the property oracle still fails on the implementation.  Returns the reduced case."""
    cur = json.loads(json.dumps(case))
    changed = True
    while changed and rr.n < rr.budget:
        changed = False
        for i in range(len(cur["entries"]) - 1, -1, -1):
            if len(cur["entries"]) <= 1:
                break
            cand = json.loads(json.dumps(cur))
            del cand["entries"][i]
            cand["perm"] = [p if p < i else p - 1 for p in cand["perm"] if p != i]
            if rr.fails(cand):
                cur, changed = cand, True
        for h in list(cur["hosts"]):
            if len(cur["hosts"]) <= 1:
                break
            cand = dict(cur, hosts=[x for x in cur["hosts"] if x != h])
            if rr.fails(cand):
                cur, changed = cand, True
        for ei in range(len(cur["entries"])):
            for ii in range(len(cur["entries"][ei].get("rule") or []) - 1, -1, -1):
                if len(cur["entries"][ei]["rule"]) <= 1:
                    break
                cand = json.loads(json.dumps(cur))
                del cand["entries"][ei]["rule"][ii]
                if rr.fails(cand):
                    cur, changed = cand, True
    return cur


def failing_obligations(make_log):
    """names of the lemmas of Obligations.v at which the build stopped (from the make -k log)"""
    import re
    path = os.path.join(common.VERIF, "coq", GROUP, "Obligations.v")
    lines = open(path).read().splitlines() if os.path.exists(path) else []
    names = []
    for m in re.finditer(r'File "\./Obligations\.v", line (\d+)', make_log):
        cur = None
        for l in lines[:int(m.group(1))]:
            mm = re.match(r"\s*(?:Lemma|Theorem)\s+([A-Za-z0-9_']+)", l)
            if mm:
                cur = mm.group(1)
        if cur and cur not in names:
            names.append(cur)
    return names


def run(ctx):
    ob_failed = []
    ok, msg = ctx.tables(GROUP)
    if not ok:
        ctx.log("tables:", msg)
        ob_failed.append("translator(gen/tables g17): " + msg)
    ok, log, failed = ctx.coq_make(GROUP)
    tolerated = (PROP_FILE, "Obligations.v", "FragmentObligations.v")
    core_broken = [f for f in failed if f not in tolerated]
    if not ok:
        ctx.log("coq build problems in:", failed)
    bad_words = common.forbidden_words([os.path.join(common.VERIF, "coq", "lib"),
                                        os.path.join(common.VERIF, "coq", GROUP)])
    if bad_words:
        ob_failed.append("forbidden vernacular: " + "; ".join(bad_words))
    info = ctx.check_theorems(GROUP, PROP_FILE)
    if info["rc"] != 0:
        ob_failed.append("theorem %s in %s no longer checks: %s" % (
            info.get("failed_at"), PROP_FILE, " ".join(info["log"].split())[-400:]))
        names = failing_obligations(log)
        if names:
            ob_failed.insert(0, "table obligation(s) no longer hold for the source tree: " + ", ".join(names))
    if core_broken:
        ob_failed.append("model/proof files do not compile: %s\n%s" % (core_broken, log[-1500:]))

    hb, hlog = ctx.build_harness(HARNESS)
    meta, res = {}, {}
    bad = {k: {"M": [], "P": [], "U": []} for k in ("rule", "list", "e2e", "route", "mitm")}
    if hb is None:
        ob_failed.append("harness does not build against the source tree: " + hlog[-800:])
    else:
        rp = None
        if ctx.replay:
            rp = json.load(open(ctx.replay))
            rp = rp.get("replay", rp)
            if "kind" not in rp:
                # a replay naming only an unchecked obligation: run the whole check
                rp = None
        meta, res, err = run_harness(ctx, hb, ctx.work, rp)
        if err:
            ob_failed.append(err)
        else:
            for shard, lg in res["_errors"]:
                ob_failed.append("correspondence shard %s did not evaluate: %s" % (shard, lg[-600:]))
            src = {"rule": load_jsonl(os.path.join(ctx.work, "rcases.jsonl")),
                   "list": load_jsonl(os.path.join(ctx.work, "lcases.jsonl")),
                   "e2e": load_jsonl(os.path.join(ctx.work, "ucases.jsonl")),
                   "route": load_jsonl(os.path.join(ctx.work, "vcases.jsonl")),
                   "mitm": load_jsonl(os.path.join(ctx.work, "mcases.jsonl"))}
            if forwarder_binary(ctx) is None:
                ob_failed.append("forwarder binary does not build: " + FORWARDER.get("log", "")[-600:])
            if meta.get("e2e_error"):
                ob_failed.append("end-to-end run failed: " + meta["e2e_error"])
            for shard in meta["shards"]:
                r = res.get(shard) or {}
                kind = {"rcases": "rule", "lcases": "list", "ucases": "e2e", "vcases": "route", "mcases": "mitm"}[shard.split("_")[0]]
                base = int(shard.split("_")[1].split(".")[0]) * meta["shard_size"]
                for ident in ("M", "P", "U"):
                    for i in (ctx.parse_nlist(r.get(ident)) or []):
                        s = src[kind]
                        bad[kind][ident].append(s[base + i] if base + i < len(s) else {"index": base + i})

    def smallest(cases):
        return min(cases, key=lambda c: len(json.dumps(c)))

    # ---- decide (DESIGN.md 2.2)
    # the modelled regexp fragment must agree with Go's regexp rule by rule
    if bad["rule"]["M"]:
        c = smallest(bad["rule"]["M"])
        ctx.violation("fragment-correspondence",
                      dict(c, kind="rule", text=rule_text(c.get("rule")),
                           unchecked="the model of Go regexp (G17.Model.elab/run/show) disagrees with regexp.Compile/MatchString on a single rule"),
                      False, "%d single rules on which the regexp model and Go's regexp differ; smallest: %s"
                      % (len(bad["rule"]["M"]), rule_text(c.get("rule"))))
    if bad["list"]["P"]:
        by_feat = {}
        for c in bad["list"]["P"]:
            by_feat.setdefault(features(c), []).append(c)
        rr = Rerun(ctx, hb, 90) if (hb is not None and not ctx.replay) else None
        reported = {}
        for feat, cs in sorted(by_feat.items()):
            c = smallest(cs)
            if rr is not None:
                c = shrink(rr, c)
            key = classify(c, (lambda x: rr.fails(x, extra=10)) if rr is not None else None)
            if key in reported and len(json.dumps(reported[key][0])) <= len(json.dumps(c)):
                reported[key] = (reported[key][0], reported[key][1] + len(cs))
            else:
                reported[key] = (c, len(cs) + (reported[key][1] if key in reported else 0))
        for key, (c, n) in sorted(reported.items()):
            ctx.violation(key, dict(c, kind="list", texts=list_texts(c)), True,
                          "%d rule lists on which the matcher's answer differs from per-rule evaluation by Go's regexp "
                          "(union of includes minus excludes, any order, Inverse = negation); smallest: %s hosts %s"
                          % (n, list_texts(c), json.dumps(c.get("hosts"))[:200]))
    elif bad["list"]["M"]:
        c = smallest(bad["list"]["M"])
        ctx.violation("list-correspondence",
                      dict(c, kind="list", texts=list_texts(c),
                           unchecked="correspondence model(g17 match_entries)/implementation (ruleset.RegexpMatcher)"),
                      False, "%d rule lists on which model and implementation differ although the property predicate holds; smallest: %s"
                      % (len(bad["list"]["M"]), list_texts(c)))
    # the real binary: denied / forwarded per target vs per-rule evaluation on the bare host name
    if bad["e2e"]["P"]:
        c = smallest(bad["e2e"]["P"])
        ctx.violation("e2e-deny-domains-verdict-differs-from-per-rule-evaluation",
                      dict(c, kind="e2e", texts=list_texts(c)), True,
                      "%d --deny-domains lists for which the real binary denies/forwards a target differently from per-rule "
                      "evaluation by Go's regexp on the bare host name; smallest: %s targets %s"
                      % (len(bad["e2e"]["P"]), list_texts(c), json.dumps([t.get("authority") for t in c.get("targets", [])])[:300]))
    elif bad["e2e"]["M"]:
        c = smallest(bad["e2e"]["M"])
        ctx.violation("e2e-correspondence", dict(c, kind="e2e", texts=list_texts(c),
                                                 unchecked="correspondence model(g17 match_entries on the bare host)/real binary"),
                      False, "%d --deny-domains lists; smallest: %s" % (len(bad["e2e"]["M"]), list_texts(c)))
    if bad["mitm"]["P"]:
        c = smallest(bad["mitm"]["P"])
        ctx.violation("e2e-mitm-domains-interception-differs-from-per-rule-evaluation",
                      dict(c, kind="mitm", texts=list_texts(c)), True,
                      "%d --mitm-domains lists for which the real binary intercepts / tunnels a CONNECT differently from per-rule "
                      "evaluation by Go's regexp on the bare host name; smallest: %s targets %s"
                      % (len(bad["mitm"]["P"]), list_texts(c), json.dumps([t.get("authority") for t in c.get("targets", [])])[:300]))
    elif bad["mitm"]["M"]:
        c = smallest(bad["mitm"]["M"])
        ctx.violation("e2e-mitm-correspondence", dict(c, kind="mitm", texts=list_texts(c),
                                                      unchecked="correspondence model(g17 match_entries on the bare host)/real binary with --mitm-domains"),
                      False, "%d --mitm-domains lists; smallest: %s" % (len(bad["mitm"]["M"]), list_texts(c)))

    conc = meta.get("concurrent") or {}
    if conc.get("mismatches"):
        ctx.violation("concurrent-deny-verdict-differs-from-per-rule-evaluation", dict(kind="concurrent", mismatches=conc["mismatches"]), True,
                      "with requests for hosts of opposite verdicts in flight at once the proxy handler answers a request differently from "
                      "the per-rule verdict: " + conc["mismatches"][0][:400])

    def two_lists(c):
        return {"deny-domains": list_texts({"entries": c.get("deny") or []}),
                "direct-domains": list_texts({"entries": c.get("direct") or []})}
    if bad["route"]["P"]:
        c = smallest(bad["route"]["P"])
        ctx.violation("e2e-deny-and-direct-domains-routing-differs-from-per-rule-evaluation",
                      dict(c, kind="route", texts=two_lists(c)), True,
                      "%d configurations with --deny-domains and --direct-domains together for which the real binary does not start, or "
                      "denies / dials directly / uses the upstream for a target differently from per-rule evaluation of each list by "
                      "Go's regexp on the bare host name; smallest: %s" % (len(bad["route"]["P"]), json.dumps(two_lists(c))))
    elif bad["route"]["M"]:
        c = smallest(bad["route"]["M"])
        ctx.violation("e2e-routing-correspondence", dict(c, kind="route", texts=two_lists(c),
                                                         unchecked="correspondence model(g17 match_entries per list)/real binary"),
                      False, "%d configurations; smallest: %s" % (len(bad["route"]["M"]), json.dumps(two_lists(c))))
    if ob_failed and not ctx.violations and not ctx.known_hits:
        ctx.violation("obligation-unchecked", dict(unchecked=ob_failed), False, ob_failed[0][:300])
    elif ob_failed:
        ctx.notes.append({"unchecked_obligations": ob_failed})

    evals = int(meta.get("rule_host_evaluations", 0)) + int(meta.get("list_host_evaluations", 0))
    coverage = {
        "obligations": len(info["theorems"]),
        "discharged": len(info["discharged"]),
        "checker_cmd": "make -j16 (coq_makefile, full .vo) in coq/lib and coq/g17; coqc C17.v; coqc on %d cases shards (vm_compute)"
                       % len(meta.get("shards", [])),
        "trusted_base": common.standard_trusted_base([
            "Print Assumptions per theorem: %s" % json.dumps(info["assumptions"]),
            "modelled, not verified: Go regexp (RE2) parsing and matching on the fragment {literals, '.', classes of alnum ranges, "
            "^ $, * + ?, groups (capturing, non-capturing, flagged), inline flags i m s, alternation, \\Q..\\E and unterminated \\Q}; "
            "hosts are ASCII byte strings; the fragment model is compared with regexp.Compile/MatchString rule by rule on every run (testing)",
        ]),
        "theorems": info["theorems"],
        "unchecked_obligations": ob_failed,
        "evaluations": evals,
        "distinct_nontrivial": int(meta.get("list_cases_with_both_verdicts", 0)) + int(meta.get("rule_cases_compiled", 0)),
        "rule": "stream 1: generated single rules (valid on their own) printed by the model's show, compiled by Go regexp, compared on "
                "hosts derived from the rule's own literals (case variants, embedded newlines); stream 2: corpus + generated lists of 1..6 "
                "rules (30% excludes; inline flags at start/middle/end, anchors, alternations, groups, classes, quotes) through "
                "ParseRegexpListItem/NewRegexpMatcherFromList/Match/Inverse, a random permutation of the same list, and Go's regexp on each rule alone; "
                "stream 3: the real binary started with --deny-domains lists (incl. the same pattern as include and exclude), requests and CONNECTs for names, "
                "case variants, trailing dot, IPv4/IPv6 literals with and without port: denied (403) or forwarded to a scripted upstream (200); "
                "non-trivial = lists with both a matching and a non-matching host + single rules Go compiled",
        "traces_validated_against_impl": int(meta.get("rule_cases", 0)) + int(meta.get("list_cases", 0)) + int(meta.get("e2e_cases", 0)),
        "concurrent_in_process": {k: conc.get(k) for k in ("lists", "workers", "requests")},
        "e2e_real_binary": {"lists": meta.get("e2e_cases"), "probes": meta.get("e2e_probes")},
        "model_mismatches": len(bad["rule"]["M"]) + len(bad["list"]["M"]),
        "property_failures_on_impl": len(bad["list"]["P"]),
        "cases_outside_the_model": {"rule": len(bad["rule"]["U"]), "list": len(bad["list"]["U"]),
                                    "meaning": "an unterminated \\Q followed later by \\E in the joined text: "
                                               "the model declines (Unmodelled); the property oracle still applies"},
        "distribution": {k: meta.get(k) for k in ("rule_cases", "rule_cases_compiled", "list_cases", "constructor_outcomes",
                                                   "rule_features", "list_lengths", "list_cases_with_both_verdicts",
                                                   "list_cases_where_an_exclude_rule_matched", "list_cases_skipped_unparsable")},
        "samples": [{"rule_texts": meta.get("samples_rule_texts")}, {"lists": meta.get("samples_lists")}],
    }
    ctx.finish("proof", coverage, [
        "the theorems are about the Gallina model; the model is tied to the code by gen/tables (how rules are combined, "
        "inversion, '-' prefix, partition) and by the differential run above",
        "the reference 'a rule taken on its own' is Go's regexp on that rule (oracle) and the model's own compile_top/matches (theorems); "
        "both are compared rule by rule on every run",
    ])
