"""Shared orchestration of C09 and C10 (proof group g09, harness/h2rig)."""
import json
import os
import re
import time

from . import common

GROUP = "g09"


def load_jsonl(p):
    return [json.loads(l) for l in open(p)] if os.path.exists(p) else []


def parse_why(text):
    """'[[4]; [4; 5]; []]' -> [[4],[4,5],[]]"""
    if text is None:
        return None
    text = text.split("%")[0]
    inner = text.strip()
    if inner.startswith("["):
        inner = inner[1:]
    if inner.endswith("]"):
        inner = inner[:-1]
    out = []
    for m in re.finditer(r"\[([^\[\]]*)\]", inner):
        out.append([int(x) for x in re.findall(r"\d+", m.group(1))])
    return out


def strip_case(cj):
    return {"name": cj.get("name"), "ops": cj.get("ops"), "flush": cj.get("flush")}


class Runner:
    """Runs the harness + the Coq evaluation of its shards; also used for shrinking."""

    def __init__(self, ctx, cmd, hb):
        self.ctx, self.cmd, self.hb = ctx, cmd, hb

    def run(self, sub, extra):
        """Returns (meta, cases, model_bad_idx, prop_bad {idx: [pred numbers]}, errors)."""
        out = os.path.join(self.ctx.work, sub)
        os.makedirs(out, exist_ok=True)
        rc, log = common.sh([self.hb, "-seed", str(self.ctx.seed), "-tier", self.ctx.tier, "-out", out,
                               "-tables", os.path.join(common.VERIF, "coq", GROUP, "Tables.v")] + extra,
                            timeout=420 if self.ctx.tier == "quick" else 1200)
        if rc != 0:
            return None, [], [], {}, ["harness failed: " + log[-1500:]]
        meta = json.load(open(os.path.join(out, "meta.json")))
        cases = load_jsonl(os.path.join(out, "cases.jsonl"))
        res = self.ctx.coq_eval_shards(GROUP, out, (meta.get("shards") or []), idents=("M", "W"))
        errors = ["correspondence shard %s did not evaluate: %s" % (s, lg[-600:]) for s, lg in res["_errors"]]
        mbad, pbad = [], {}
        for k, shard in enumerate((meta.get("shards") or [])):
            r = res.get(shard) or {}
            base = k * meta["shard_size"]
            for i in (self.ctx.parse_nlist(r.get("M")) or []):
                mbad.append(base + i)
            for i, w in enumerate(parse_why(r.get("W")) or []):
                if w:
                    pbad[base + i] = w
        self.preface_bad, self.preface_mbad, self.preface_cases = [], [], []
        if meta.get("preface_shard"):
            pres = self.ctx.coq_eval_shards(GROUP, out, [meta["preface_shard"]], idents=("M", "W"))
            errors += ["preface shard did not evaluate: %s" % lg[-600:] for s, lg in pres["_errors"]]
            r = pres.get(meta["preface_shard"]) or {}
            self.preface_cases = load_jsonl(os.path.join(out, "preface.jsonl"))
            self.preface_mbad = self.ctx.parse_nlist(r.get("M")) or []
            self.preface_bad = [i for i, w in enumerate(parse_why(r.get("W")) or []) if w]
        return meta, cases, mbad, pbad, errors

    def shrink(self, cj, still_fails, budget_s=20, rounds=8):
        """Greedy one-op removal, every candidate of a round evaluated in one batch."""
        t0 = time.time()
        cur = strip_case(cj)
        n = 0
        last = 0.0
        for _ in range(rounds):
            if time.time() - t0 + last > budget_s or len(cur["ops"]) <= 1:
                break
            t1 = time.time()
            cands = []
            for i in range(len(cur["ops"])):
                ops = cur["ops"][:i] + cur["ops"][i + 1:]
                cands.append({"name": "shrink", "ops": ops, "flush": cur["flush"]})
            # also: the same history without the flush epilogue
            if cur["flush"]:
                cands.append({"name": "shrink", "ops": cur["ops"], "flush": False})
            n += 1
            f = os.path.join(self.ctx.work, "shrink_in_%d.json" % n)
            json.dump({"cases": cands}, open(f, "w"))
            meta, cases, mbad, pbad, errors = self.run("shrink%d" % n, ["-replay", f])
            if meta is None or errors:
                break
            ok = [i for i in range(len(cands)) if still_fails(i, mbad, pbad)]
            if not ok:
                break
            # take the removal that fails and keep going from it
            cur = cands[ok[0]]
            last = time.time() - t1
        return cur


PRED = {
    "C09": {1: "window-exceeded", 2: "frame-larger-than-any-announced-max", 3: "frame-larger-than-acknowledged-max",
            4: "credit-not-returned", 5: "relay-does-not-terminate"},
    "C10": {1: "stream-content-differs", 2: "connection-frame-not-relayed", 3: "conforming-frame-refused",
            4: "frame-stranded", 6: "frame-larger-than-receiver-accepts", 7: "data-beyond-the-receivers-window"},
}


def classify(pid, pred, cj):
    """A key that names the predicate and the class of input that makes it fail."""
    ops = cj.get("ops") or []
    kinds = [o.get("kind") for o in ops]
    name = PRED[pid].get(pred, "predicate-%d" % pred)
    detail = "other"
    steps = cj.get("observed") or []
    if pid == "C09" and pred == 4:
        detail = "padded-data" if any(o.get("padded") for o in ops) else "unpadded-data"
    elif pred == 5 or (pid == "C10" and pred == 3):
        bad = [s for o in ops if o.get("kind") == "settings" for s in (o.get("settings") or [])
               if s[0] == 5 and not (16384 <= s[1] <= 16777215)]
        if bad:
            detail = "invalid-max-frame-size"
        elif steps and "ReadFrame" in (steps[-1].get("err") or "") and \
                any(o.get("kind") == "push" and o.get("splits") for o in ops):
            detail = "push-promise-with-continuation"
        elif steps and "ReadFrame" in (steps[-1].get("err") or ""):
            detail = "framer-" + re.sub(r"[^a-z]+", "-", (steps[-1].get("err") or "").lower())[:60].strip("-")
        elif steps and "decoding" in (steps[-1].get("err") or ""):
            tab = any(s[0] == 1 for o in ops if o.get("kind") == "settings" for s in (o.get("settings") or []))
            detail = "hpack-decode-error-after-header-table-size-setting" if tab else "hpack-decode-error"
        elif steps and steps[-1].get("err"):
            detail = re.sub(r"[^a-z]+", "-", steps[-1]["err"].lower())[:60].strip("-")
    elif ((pid == "C09" and pred == 1) or (pid == "C10" and pred == 7)) and any(
            sum(1 for s in (o.get("settings") or []) if s[0] == 4) > 1 for o in ops if o.get("kind") == "settings"):
        detail = "two-initial-window-sizes-in-one-settings-frame"
    elif pid == "C09" and pred == 3:
        detail = "max-frame-size-lowered-while-queued"
    elif pid == "C10" and pred == 1:
        if any(st.get("hpack_order_inversion") for st in steps):
            detail = "header-blocks-sent-out-of-encoding-order"
        elif "push" in kinds:
            detail = "push-promise"
        elif any(o.get("kind") == "headers" and o.get("splits") for o in ops):
            detail = "headers-with-continuation"
    return "%s/%s" % (name, detail)


def run_property(ctx, pid, cmd, prop_file, level_extra, e2e=0, stress=0):
    ob_failed = []
    ok, msg = ctx.tables(GROUP)
    if not ok:
        ctx.log("tables:", msg)
        ob_failed.append("translator(gen/tables g09): " + msg)
    ok, log, failed = ctx.coq_make(GROUP)
    other_prop = "C10.v" if prop_file == "C09.v" else "C09.v"
    core_broken = [f for f in failed if f not in (prop_file, other_prop)]
    if not ok:
        ctx.log("coq build problems in:", failed)
    bad_words = common.forbidden_words([os.path.join(common.VERIF, "coq", "lib"), os.path.join(common.VERIF, "coq", GROUP)])
    if bad_words:
        ob_failed.append("forbidden vernacular: " + "; ".join(bad_words))
    info = ctx.check_theorems(GROUP, prop_file)
    if info["rc"] != 0:
        ob_failed.append("theorem %s in %s no longer checks: %s" % (
            info.get("failed_at"), prop_file, " ".join(info["log"].split())[-500:]))
    if core_broken:
        ob_failed.append("model/proof files do not compile: %s\n%s" % (core_broken, log[-1500:]))

    hb, hlog = ctx.build_harness(cmd)
    meta, cases, mbad, pbad = {}, [], [], {}
    runner = None
    if hb is None:
        ob_failed.append("harness does not build against the source tree: " + hlog[-800:])
    else:
        runner = Runner(ctx, cmd, hb)
        extra = []
        if ctx.replay:
            rp = json.load(open(ctx.replay))
            inner = os.path.join(ctx.work, "replay_in.json")
            json.dump(rp.get("replay", rp), open(inner, "w"))
            extra = ["-replay", inner]
            if isinstance(rp.get("replay", rp), dict) and rp.get("replay", rp).get("mitm_h2_handoff"):
                extra = ["-mitm"]
            if isinstance(rp.get("replay", rp), dict) and rp.get("replay", rp).get("initial_window_race"):
                extra = ["-stress-only", "-stress", "40000"]
            if isinstance(rp.get("replay", rp), dict) and rp.get("replay", rp).get("e2e"):
                extra += ["-e2e", "1"]   # the failure was seen in the end-to-end replay: play it there again
        if stress and not ctx.replay:
            extra = extra + ["-stress", str(stress if ctx.tier == "quick" else 10 * stress)]
        if e2e and not ctx.replay:
            extra = extra + ["-e2e", str(e2e if ctx.tier == "quick" else 10 * e2e)]
        m, cases, mbad, pbad, errors = runner.run("main", extra)
        meta = m or {}
        ob_failed.extend(errors)

    # decide (DESIGN.md 2.2)
    by_key = {}
    for idx, preds in sorted(pbad.items()):
        for p in preds or [0]:
            key = classify(pid, p, cases[idx])
            by_key.setdefault(key, []).append((idx, p))
    for key, lst in sorted(by_key.items()):
        if ctx.is_known(key) is not None:
            ctx.violation(key, {}, True, "")
            continue
        idx, p = min(lst, key=lambda ip: len(cases[ip[0]].get("ops") or []))
        small = strip_case(cases[idx])
        if runner is not None and not ctx.replay:
            small = runner.shrink(cases[idx], lambda i, mb, pb, p=p: p in (pb.get(i) or []))
        ctx.violation(key, small, True,
                      "%d histories on which the implementation's own trace fails predicate %d (%s); smallest: %s"
                      % (len(lst), p, PRED[pid].get(p), json.dumps(small)[:400]))
    if runner is not None and runner.preface_bad:
        pcs = runner.preface_cases
        i = min(runner.preface_bad, key=lambda k: len(json.dumps(pcs[k])))
        ctx.violation("preface-not-forwarded/split-across-reads", {"preface_reads": pcs[i]["preface_reads"]}, True,
                      "%d segmentations of a client's first bytes on which forwardPreface fails although the bytes start with "
                      "the connection preface (or the reverse); smallest: %s" % (len(runner.preface_bad), json.dumps(pcs[i])[:300]))
    elif runner is not None and runner.preface_mbad:
        pcs = runner.preface_cases
        i = runner.preface_mbad[0]
        ctx.violation("preface-correspondence", {"preface_reads": pcs[i]["preface_reads"],
                      "unchecked": "correspondence forward_preface(model)/forwardPreface"}, False,
                      "model and implementation of forwardPreface differ: %s" % json.dumps(pcs[i])[:300])
    sr = meta.get("initial_window_race")
    if sr is not None and not sr.get("ok"):
        ctx.violation("window-exceeded/initial-window-change-races-with-stream-creation", {"initial_window_race": sr}, True,
                      "the two reading sides of the real relays running concurrently (rig.Race): %s" % sr.get("problem"))
    mh = meta.get("mitm_h2_handoff")
    if mh is not None and not mh.get("ok"):
        ctx.violation("mitm-h2-handoff/request-after-idle-not-relayed", {"mitm_h2_handoff": mh}, True,
                      "through the real forwarder proxy (MITM, h2 relay enabled by the verif hook): %s" % mh.get("problem"))
    for r in (meta.get("e2e") or []):
        if not r.get("ok"):
            cj = next((c for c in cases if c.get("name") == r.get("name")), {})
            ctx.violation("e2e-differs-from-rig", dict(strip_case(cj), e2e=r), True,
                          "played through h2.Config.Proxy (TLS, ALPN h2, the two relay goroutines) the history %s gives: %s"
                          % (r.get("name"), r.get("problem")))
            break
    if mbad and not pbad:
        idx = min(mbad, key=lambda i: len(cases[i].get("ops") or []))
        small = strip_case(cases[idx])
        if runner is not None and not ctx.replay:
            small = runner.shrink(cases[idx], lambda i, mb, pb: i in mb)
        ctx.violation("model-correspondence", dict(small, unchecked="correspondence model(g09 H2Relay)/implementation"), False,
                      "%d histories where model and implementation differ although the property predicates hold; smallest: %s"
                      % (len(mbad), json.dumps(small)[:400]))
    if ob_failed and not ctx.violations:
        ctx.violation("obligation-unchecked", dict(unchecked=ob_failed), False, ob_failed[0][:300])
    elif ob_failed:
        ctx.notes.append({"unchecked_obligations": ob_failed})

    nontriv = int(meta.get("distinct_nontrivial_frames", 0))
    coverage = {
        "obligations": len(info["theorems"]),
        "discharged": len(info["discharged"]),
        "checker_cmd": "make -j16 (coq_makefile, full .vo) in coq/lib and coq/g09; coqc %s; coqc on %d cases shards (vm_compute)"
                       % (prop_file, len(meta.get("shards") or [])),
        "trusted_base": common.standard_trusted_base([
            "Print Assumptions per theorem: %s" % json.dumps(info["assumptions"]),
            "modelled, not verified: golang.org/x/net/http2.Framer (frame parsing/writing, its own ordering checks), "
            "HPACK (hpack.Encoder/Decoder are oracles of the model; a mirror encoder/decoder in the harness supplies their answers), "
            "the channel hand-off relay.output -> writer goroutine (modelled as a FIFO written before the next frame is read), "
            "sync/atomic and the mutexes of relay.go",
        ] + level_extra),
        "theorems": info["theorems"],
        "unchecked_obligations": ob_failed,
        "evaluations": int(meta.get("frames", 0)) + int(meta.get("preface_cases", 0)),
        "preface_segmentations": int(meta.get("preface_cases", 0)),
        "end_to_end_histories_through_Config_Proxy": int(meta.get("e2e_played", 0)),
        "end_to_end_failures": int(meta.get("e2e_failed", 0)),
        "mitm_h2_handoff_scenario": meta.get("mitm_h2_handoff"),
        "initial_window_race_scenario": meta.get("initial_window_race"),
        "end_to_end_stopped_at_map_order_difference": int(meta.get("e2e_stopped_at_map_order_difference", 0)),
        "histories": int(meta.get("cases", 0)),
        "distinct_nontrivial": nontriv,
        "rule": "histories of raw frames (<=4 streams, both directions, windows 0..70000 favouring small values, SETTINGS up/down, "
                "MAX_FRAME_SIZE changes, padding, empty END_STREAM DATA, header blocks split at arbitrary points, trailers, RST_STREAM, "
                "PRIORITY, PUSH_PROMISE, PING, GOAWAY) fed to the two real relay objects; evaluations = input frames, each compared "
                "with the model (frames written to both endpoints, status, windows and queues of both relays); "
                "non-trivial = input frames that leave something queued or a negative window, release queued frames on WINDOW_UPDATE/SETTINGS, "
                "are split, are padded, complete a continued header block, or are refused; distinct = different frame summary and "
                "different flow-control state of both relays afterwards (counted by the harness)",
        "traces_validated_against_impl": int(meta.get("cases", 0)),
        "model_mismatches": len(mbad),
        "property_failures_on_impl": len(pbad),
        "distribution": {k: meta.get(k) for k in (
            "op_kinds", "final_status", "streams_per_case", "cases_with_queued_frames",
            "cases_with_release_on_window_update_or_settings", "cases_with_negative_window",
            "cases_with_data_or_header_splitting", "cases_with_continuation_input", "cases_with_padding")},
        "samples": meta.get("samples"),
    }
    ctx.finish("proof", coverage, [
        "the theorems are about the Gallina model coq/g09/H2Relay.v; the model is tied to the code by gen/tables/g09.go "
        "(constants, comparison operators, credited length, END_STREAM source, settings validation) and by the differential run above",
        "Go map iteration order is modelled as an arbitrary visiting order (theorems quantify over it; the run reconstructs it from the output)",
        "the two relay goroutines are run one frame at a time: interleavings of processFrame calls of the two directions are "
        "covered as interleavings of whole frames (each call holds flowMu for its flow-control section)",
    ])
