"""C11 — graceful shutdown finishes in-flight work, admits nothing new, leaks nothing."""
import json
import os
import re

from . import common

GROUP = "g11"
PROP_FILE = "C11.v"

CODES = {
    1: "a request whose first byte arrived after closing was observed has been forwarded (T11_no_new_work)",
    2: "a connection accepted after closing was observed has been served (T11_late_accepts_closed_unserved)",
    3: "a response whose round trip ended after closing was observed lacks Connection: close (T11_inflight_completes)",
    4: "a response write failed although neither the client vanished nor Close was called (T11_inflight_completes)",
    5: "another request was read on a connection after a closing response (T11_inflight_completes)",
    6: "Shutdown returned nil while a registered connection had not been closed (T11_success_means_drained)",
    7: "Shutdown returned an error although the context had not expired (T11_else_ctx_error)",
    8: "Close returned while a registered connection had not been closed (T11_close_closes_all)",
    9: "at the end of a settled run some accepted connection is not closed (T11_close_closes_all)",
    10: "the counter was read negative (T11_counter_balanced)",
    11: "a forwarded exchange never had its response written (T11_inflight_completes)",
    12: "what a client received differs from what the proxy wrote (T11_inflight_completes)",
    13: "a closing response was written but the client did not see the socket closed (T11_inflight_completes)",
    14: "a tunnel (CONNECT 2xx / 101) was opened although closing had been observed before its dial / round trip returned (T11_no_new_work)",
    15: "a client was told (complete 2xx without Connection: close) that a tunnel was opened although closing had been observed before its dial / round trip returned (T11_no_new_work)",
}


def load_jsonl(p):
    return [json.loads(l) for l in open(p)] if os.path.exists(p) else []


def label_text(e):
    k = e["k"]
    if k == "ReqRead":
        return "ReqRead %d %s" % (e["conn"], e.get("s"))
    if k in ("Wrote", "CliResp"):
        return "%s %d %s %s" % (k, e["conn"], e.get("a", False), e.get("b", False))
    if k == "SdRet":
        return "SdRet %s" % e.get("a", False)
    if k == "CntIs":
        return "CntIs %d" % e.get("n", 0)
    return "%s %d" % (k, e["conn"]) if e["conn"] >= 0 else k


def details(ctx, case_text):
    """first rejected label index and predicate codes for one case (second pass, failing cases only)"""
    name = "c11detail.v"
    src = ("From G11 Require Import ShutdownCheck.\nOpen Scope nat_scope.\nDefinition c : scase := %s.\nOpen Scope N_scope.\n"
           "Definition R := Eval vm_compute in (match first_reject_f [g0] (sc_trace c) 0 with Some i => [i] | None => [] end).\nPrint R.\n"
           "Definition C := Eval vm_compute in (p_check (sc_settled c) (sc_trace c)).\nPrint C.\n" % case_text)
    open(os.path.join(ctx.work, name), "w").write(src)
    res = ctx.coq_eval_shards(GROUP, ctx.work, [name], idents=("R", "C"))
    r = res.get(name) or {}
    return ctx.parse_nlist(r.get("R")) or [], ctx.parse_nlist(r.get("C")) or []


def run(ctx):
    ob_failed = []
    ok, msg = ctx.tables(GROUP)
    if not ok:
        ctx.log("tables:", msg)
        ob_failed.append("translator(gen/tables g11): " + msg)
    ok, log, failed = ctx.coq_make(GROUP)
    c11_files = ("Tables.v", "Shutdown.v", "ShutdownCheck.v", "ShutdownProofs.v", "ShutdownAccepts.v", "ShutdownProgress.v", "ShutdownObligations.v", PROP_FILE)
    failed = [f for f in failed if f in c11_files]
    core_broken = [f for f in failed if f not in (PROP_FILE, "ShutdownObligations.v")]
    if "ShutdownObligations.v" in failed:
        m = re.search(r'File "\./ShutdownObligations\.v", line (\d+)', log)
        name = None
        if m:
            lines = open(os.path.join(common.VERIF, "coq", GROUP, "ShutdownObligations.v")).read().splitlines()
            for l in lines[:int(m.group(1))]:
                mm = re.match(r"\s*Lemma\s+([A-Za-z0-9_']+)", l)
                if mm:
                    name = mm.group(1)
        ob_failed.append("table obligation %s (coq/g11/ShutdownObligations.v) no longer holds of the source" % name)
    bad_words = common.forbidden_words([os.path.join(common.VERIF, "coq", "lib"),
                                        os.path.join(common.VERIF, "coq", GROUP)])
    if bad_words:
        ob_failed.append("forbidden vernacular: " + "; ".join(bad_words))
    info = ctx.check_theorems(GROUP, PROP_FILE)
    if info["rc"] != 0 and "ShutdownObligations.v" not in failed:
        ob_failed.append("theorem %s in %s no longer checks: %s" % (
            info.get("failed_at"), PROP_FILE, " ".join(info["log"].split())[-400:]))
    if core_broken:
        ob_failed.append("model/proof files do not compile: %s\n%s" % (core_broken, log[-1500:]))

    hb, hlog = ctx.build_harness("c11")
    meta, sj = {}, []
    model_bad, prop_bad, run_bad, mitm_bad, gauge_bad = [], [], [], [], []
    if hb is None:
        ob_failed.append("harness does not build against the source tree: " + hlog[-800:])
    else:
        args = [hb, "-seed", str(ctx.seed), "-tier", ctx.tier, "-out", ctx.work]
        if ctx.replay:
            rp = json.load(open(ctx.replay))
            inner = os.path.join(ctx.work, "replay_in.json")
            json.dump(rp.get("replay", rp), open(inner, "w"))
            args += ["-replay", inner]
        rc, out = common.sh(args, timeout=1500)
        if rc != 0:
            ob_failed.append("harness failed: " + out[-800:])
        else:
            meta = json.load(open(os.path.join(ctx.work, "meta.json")))
            meta["shards"] = meta.get("shards") or []
            res = ctx.coq_eval_shards(GROUP, ctx.work, meta["shards"])
            for shard, lg in res["_errors"]:
                ob_failed.append("trace shard %s did not evaluate: %s" % (shard, lg[-600:]))
            sj = load_jsonl(os.path.join(ctx.work, "scases.jsonl"))
            for shard in meta["shards"]:
                r = res.get(shard) or {}
                base = int(shard.split("_")[1].split(".")[0]) * meta["shard_size"]
                for ident, acc in (("M", model_bad), ("P", prop_bad)):
                    for i in (ctx.parse_nlist(r.get(ident)) or []):
                        acc.append(base + i)
            # forwarder's run(): observed from outside
            rj = load_jsonl(os.path.join(ctx.work, "rcases.jsonl"))
            if meta.get("run_shards"):
                rres = ctx.coq_eval_shards(GROUP, ctx.work, meta["run_shards"])
                for shard, lg in rres["_errors"]:
                    ob_failed.append("run shard %s did not evaluate: %s" % (shard, lg[-600:]))
                for shard in meta["run_shards"]:
                    for i in (ctx.parse_nlist((rres.get(shard) or {}).get("P")) or []):
                        run_bad.append(rj[i] if i < len(rj) else {"index": i})
            gj = load_jsonl(os.path.join(ctx.work, "gcases.jsonl"))
            if meta.get("gauge_shards"):
                gres = ctx.coq_eval_shards(GROUP, ctx.work, meta["gauge_shards"])
                for shard, lg in gres["_errors"]:
                    ob_failed.append("gauge shard %s did not evaluate: %s" % (shard, lg[-600:]))
                for shard in meta["gauge_shards"]:
                    for i in (ctx.parse_nlist((gres.get(shard) or {}).get("P")) or []):
                        gauge_bad.append(gj[i] if i < len(gj) else {"index": i})
            mj = load_jsonl(os.path.join(ctx.work, "mcases.jsonl"))
            if meta.get("mitm_shards"):
                mres = ctx.coq_eval_shards(GROUP, ctx.work, meta["mitm_shards"])
                for shard, lg in mres["_errors"]:
                    ob_failed.append("mitm shard %s did not evaluate: %s" % (shard, lg[-600:]))
                for shard in meta["mitm_shards"]:
                    for i in (ctx.parse_nlist((mres.get(shard) or {}).get("P")) or []):
                        mitm_bad.append(mj[i] if i < len(mj) else {"index": i})
            for e in (meta.get("errors") or []):
                ob_failed.append("harness scenario could not run: " + e)
            for e in (meta.get("stuck") or []):
                ob_failed.append("harness scenario did not proceed as scripted: " + e)

    # thorough tier: the same scenarios once more under the race detector (DESIGN.md section 11:
    # proof cannot exhibit a data race; seeded schedule points + -race probe the implementation)
    race_info = {}
    if ctx.tier == "thorough" and hb is not None and not ctx.replay:
        hdir = os.path.join(common.VERIF, "harness")
        rbin = os.path.join(ctx.work, "harness-c11-race")
        rc, out = common.sh([common.go_cmd(), "build", "-race", "-modfile=" + os.path.join(ctx.work, "go.mod"), "-tags", "verif",
                             "-o", rbin, "./cmd/c11"], cwd=hdir, env=common.go_env(), timeout=900)
        if rc != 0:
            ctx.notes.append({"race_build_failed": out[-400:]})
        else:
            rdir = os.path.join(ctx.work, "race")
            os.makedirs(rdir, exist_ok=True)
            rc, out = common.sh([rbin, "-seed", str(ctx.seed), "-tier", "quick", "-out", rdir], timeout=900)
            races = out.count("WARNING: DATA RACE")
            race_info = {"scenarios_under_race_detector": json.load(open(os.path.join(rdir, "meta.json"))).get("cases", 0) if rc == 0 else 0,
                         "data_races_reported": races}
            if races:
                i0 = out.find("WARNING: DATA RACE")
                ctx.violation("data-race", {"kind": "race", "report": out[i0:i0 + 3000]}, True,
                              "%d data race(s) reported by the race detector while Shutdown/Close ran against live connections" % races)

    # case text for the second pass
    case_texts = {}
    if model_bad or prop_bad:
        for shard in meta.get("shards", []):
            base = int(shard.split("_")[1].split(".")[0]) * meta["shard_size"]
            txt = open(os.path.join(ctx.work, shard)).read()
            body = txt.split("Definition cases : list scase :=\n [", 1)[1].split("].\nOpen Scope N_scope.", 1)[0]
            for j, c in enumerate(body.split(";\n  ")):
                case_texts[base + j] = c

    def size(i):
        return len(sj[i]["events"]) if i < len(sj) else 10 ** 6

    def describe(i, rej, codes):
        r = sj[i]
        labs = [label_text(e) for e in r["events"] if e["k"] != "CliData"]
        if rej:
            j = rej[0]
            labs = labs[:j] + [">>" + (labs[j] if j < len(labs) else "?") + "<<"] + labs[j + 1:j + 4]
        return "%s %s mode=%s late=%d: %s" % (r["scenario"]["name"], json.dumps(r["scenario"]["conns"]),
                                               r["scenario"]["mode"], r["scenario"]["late"], " | ".join(labs)[-900:])

    if prop_bad:
        by_code = {}
        for i in sorted(prop_bad, key=size)[:12]:
            rej, codes = details(ctx, case_texts[i])
            for c in set(codes):
                by_code.setdefault(c, []).append((i, rej))
        for c, lst in sorted(by_code.items()):
            i, rej = lst[0]
            ctx.violation("trace-predicate-%d" % c,
                          {"kind": "trace", "scenario": sj[i]["scenario"], "predicate": CODES.get(c, str(c)),
                           "events": [label_text(e) for e in sj[i]["events"]]},
                          True, "%s; %d scenario(s) with failing predicates in all; smallest: %s"
                          % (CODES.get(c, c), len(prop_bad), describe(i, [], [c])))
    elif model_bad:
        i = min(model_bad, key=size)
        rej, codes = details(ctx, case_texts[i])
        ctx.violation("trace-not-accepted-by-lts",
                      {"kind": "trace", "scenario": sj[i]["scenario"],
                       "unchecked": "trace inclusion of the recorded run in the LTS of Shutdown.v",
                       "rejected_label_index": rej, "events": [label_text(e) for e in sj[i]["events"]]},
                      False, "%d recorded run(s) are not traces of the LTS although the trace predicates hold; smallest: %s"
                      % (len(model_bad), describe(i, rej, [])))
    for gr in gauge_bad[:3]:
        sc = gr.get("scenario", {})
        direct = str(sc.get("stack", "")).startswith("direct-")
        ctx.violation(("shutdown-result-%s" if direct else "open-connection-gauge-%s") % sc.get("stack", "?"),
                      {"kind": "gauge", "scenario": sc, "observed": {k: v for k, v in gr.items() if k != "scenario"}},
                      True, ("Shutdown called directly: result code %s, wanted %s (1 nil, 2 exactly ctx.Err(), 3 anything else), counter afterwards %s (%%s): observed %%s (T11_success_means_drained / T11_else_ctx_error / T11_counter_balanced)"
                             % (gr.get("shutdown_result"), gr.get("shutdown_want"), gr.get("gauge_after")) if direct else
                             "listener_cx_active does not return to the number of open connections / to zero (%s): observed %s (T11_counter_balanced)")
                      % (sc.get("name"), json.dumps({k: v for k, v in gr.items() if k != "scenario"})))
    for mr in mitm_bad[:3]:
        sc = mr.get("scenario", {})
        ctx.violation("late-request-%s" % sc.get("kind", "?"),
                      {"kind": "mitm", "scenario": sc, "observed": {k: v for k, v in mr.items() if k != "scenario"}},
                      True, "intercepting proxy, request first sent after shutdown began (%s): observed %s (T11_no_new_work)"
                      % (sc.get("name"), json.dumps({k: v for k, v in mr.items() if k != "scenario"})))
    for rr in run_bad[:3]:
        sc = rr.get("scenario", {})
        ctx.violation("run-sequence-%s" % "-".join(sc.get("name", "?").split("/")[1:]),
                      {"kind": "run", "scenario": sc, "observed": {k: v for k, v in rr.items() if k != "scenario"}},
                      True, "forwarder.Run with a cancelled context: %s observed %s"
                      % (sc.get("name"), json.dumps({k: v for k, v in rr.items() if k != "scenario"})))
    chk = None
    if ctx.tier == "thorough" and not core_broken and info["rc"] == 0 and not ctx.replay:
        chk = ctx.coqchk(GROUP, ["C11"])
        if not chk["ok"] or chk.get("axioms") not in ("<none>",):
            ob_failed.append("coqchk: %s" % chk)
    if ob_failed and not ctx.violations and not ctx.known_hits:
        ctx.violation("obligation-unchecked", dict(unchecked=ob_failed), False, ob_failed[0][:300])
    elif ob_failed:
        ctx.notes.append({"unchecked_obligations": ob_failed})

    obs = []
    try:
        src = common.strip_coq_comments(open(os.path.join(common.VERIF, "coq", GROUP, "ShutdownObligations.v")).read())
        obs = re.findall(r"\bLemma\s+([A-Za-z0-9_']+)", src)
    except OSError:
        pass
    n_ob = len(info["theorems"]) + len(obs)
    discharged = len(info["discharged"]) + (len(obs) if "ShutdownObligations.v" not in failed else 0)
    coverage = {
        "obligations": n_ob,
        "discharged": discharged,
        "checker_cmd": "make -j16 (coq_makefile, full .vo) in coq/lib and coq/g11; coqc C11.v; coqc on %d trace shard(s) (vm_compute: accepts_f, p_check)"
                       % len(meta.get("shards", [])),
        "trusted_base": common.standard_trusted_base([
            "Print Assumptions per theorem: %s" % json.dumps(info["assumptions"]),
            "modelled, not verified: goroutine scheduling, sync.Mutex, atomic counter, channel close, defer order, "
            "net.Conn.Close unblocking pending I/O; handler critical sections are atomic steps of the LTS",
            "the recording wrappers (harness/gaterig): events are appended to one mutex-protected log at the moment the "
            "wrapped call is made; connection attribution of ProxyTrace callbacks uses the handler goroutine id",
        ]),
        "theorems": info["theorems"],
        "coqchk": chk,
        "table_obligations": obs,
        "unchecked_obligations": ob_failed,
        "evaluations": int(meta.get("cases", 0)) + int(meta.get("run_cases", 0)) + int(meta.get("mitm_cases", 0)) + int(meta.get("gauge_cases", 0)),
        "open_connection_gauge_cases": int(meta.get("gauge_cases", 0)),
        "late_request_mitm_cases": int(meta.get("mitm_cases", 0)),
        "run_sequence_cases": int(meta.get("run_cases", 0)),
        "distinct_nontrivial": int(meta.get("distinct_traces", 0)),
        "rule": "scenarios: every single-connection phase (fresh, partial head, upstream round trip held, response write held, "
                "keep-alive idle, tunnel copying, CONNECT dial held, PROXY header awaited) x what the client does after closing "
                "(sends, lets the held step go, vanishes, stays) x how the call ends (Shutdown drained, context cancelled then Close, "
                "Close only) x client vanished beforehand; late connections while Shutdown waits; seeded mixes of 2-5 connections "
                "in different phases; non-trivial/distinct = distinct recorded label sequences",
        "traces_validated_against_impl": int(meta.get("cases", 0)) - len(model_bad),
        "model_mismatches": len(model_bad),
        "property_failures_on_impl": len(prop_bad) + len(run_bad) + len(mitm_bad) + len(gauge_bad),
        "events_recorded": int(meta.get("events", 0)),
        "distribution": {k: meta.get(k) for k in ("by_mode", "by_phase", "by_after", "conns_per_scenario", "vanished_clients",
                                                   "late_dials", "shutdown_returned_nil", "shutdown_returned_ctx_error",
                                                   "shutdown_error_texts", "final_registered_hist", "unsettled", "wall_ms")},
        "samples": meta.get("samples"),
    }
    coverage.update(race_info)
    ctx.finish("proof", coverage, [
        "PARTIAL: the theorems hold for every interleaving of the LTS (induction over steps); that the running proxy is "
        "inside the LTS is checked per recorded run (trace inclusion), which is testing; the scheduler is the runtime's",
        "the LTS is tied to the code by gen/tables g11 (order of registration / defers / closing checks / lock scope) and by the runs above",
        "trace predicates 1-8, 10, 14 are theorems of the LTS (T11_every_run_satisfies_the_trace_predicates) and are evaluated on the recorded "
        "traces as a cross-check; predicates 9, 11, 12, 13, 15 (quiescence, what clients received) and forwarder's run() sequence seen from "
        "outside are evaluated only; liveness is proved as 'no deadlock' plus 'boundedly many handler steps once closing is set', fairness of "
        "the scheduler is not modelled; the exported gauge is modelled separately (Gauge.v) and tied by tables, not by trace inclusion",
    ])
