"""C10 — HTTP/2 relay preserves every stream's headers, data, END_STREAM, order, delivery."""
from . import g09util

GROUP = g09util.GROUP


def run(ctx):
    g09util.run_property(ctx, "C10", "c10", "C10.v", [], e2e=60)
