"""C06 — credentials are confined to the hop they belong to."""
import json

from . import common
from . import c04 as g

GROUP = "g04"
PROP_FILE = "C06.v"
HARNESS = "c06"
OTHER_FILES = ("C04.v", "Gaps.v", "Obligations.v", "AcceptProofs.v", "OracleProofs.v")


def classify(case):
    q = case.get("req", {})
    s = case.get("spec", {})
    return "method=%s,upstream=%s" % ("CONNECT" if q.get("method") == "CONNECT" else "plain", s.get("upstream"))


def failure_key(case):
    """Stable key naming the input class: which client header shape was mishandled."""
    q, o = case.get("req", {}), case.get("obs", {})
    hdrs = q.get("headers") or []
    client_auth = [v for k, v in hdrs if k.lower() == "authorization"]
    nominated = any(k.lower() == "connection" and "authorization" in [t.strip().lower() for t in v.split(",")] for k, v in hdrs)
    client_pa = [v for k, v in hdrs if k.lower() == "proxy-authorization"]
    msgs = o.get("msgs") or []
    for m in msgs:
        h = m.get("header") or {}
        for v in client_pa:
            tok = v.split(" ", 1)[-1]
            if tok and any(tok in x for vs in h.values() for x in vs):
                return "client-proxy-authorization-forwarded:" + str(q.get("pa_tag"))
    if client_auth and not nominated:
        for m in msgs:
            if m.get("kind") in ("request", "request-tls", "proxy-plain", "tunnel-inner") and q.get("method") != "CONNECT":
                if ((m.get("header") or {}).get("Authorization") or []) != client_auth:
                    return "client-authorization-replaced:" + str(q.get("auth_tag"))
    if q.get("inner"):
        return "site-credential-chosen-by-the-claimed-scheme-inside-mitm"
    if (case.get("spec") or {}).get("upstream") == "pac2":
        return "upstream-credential-of-another-pac-proxy-on-the-same-host"
    return "credential-misplaced:" + classify(case)


def explain(case):
    q, o = case.get("req", {}), case.get("obs", {})
    seen = [(m.get("peer"), m.get("kind"), (m.get("header") or {}).get("Authorization"),
             (m.get("header") or {}).get("Proxy-Authorization")) for m in (o.get("msgs") or [])]
    return "%s%s %s headers=%s table=%s -> received (peer, kind, Authorization, Proxy-Authorization): %s" % (
        "[inside MITM, target %s] " % ((q.get("abs_scheme") + "://") if q.get("abs_scheme") else "origin-form") if q.get("inner") else "",
        q.get("method"), q.get("host"), q.get("headers"), [("%s:%s" % (e["Host"], e["Port"])) for e in (case.get("spec", {}).get("table") or [])], seen)


def run(ctx):
    info, ob_failed = g.run_group_checks(ctx, PROP_FILE, OTHER_FILES, "CredsObligations.v")
    meta, bad = g.run_harness(ctx, HARNESS, ob_failed)

    n_model_bad = n_prop_bad = 0
    fm, fp = bad.get("fcases", ([], []))
    n_model_bad += len(fm)
    n_prop_bad += len(fp)
    groups = {}
    for c in fp:
        groups.setdefault(failure_key(c), []).append(c)
    for key, cs in sorted(groups.items()):
        c = g.smallest(cs)
        ctx.violation(key, c, True, "%d exchanges; e.g. %s" % (len(cs), explain(c)[:700]))
    only_model = [c for c in fm if c not in fp]
    if only_model and not fp:
        c = g.smallest(only_model)
        ctx.violation("e2e-correspondence", dict(c, unchecked="correspondence model(g04 Creds.v forward)/implementation (end-to-end)"),
                      False, "%d exchanges where the model's messages and the received ones differ although the property predicate holds; "
                      "smallest: %s" % (len(only_model), explain(c)[:600]))
    km, kp = bad.get("kcases", ([], []))
    n_model_bad += len(km)
    n_prop_bad += len(kp)
    if kp:
        c = g.smallest(kp)
        ctx.violation("hop-by-hop-removal-leaves-a-field", c, True,
                      "%d header maps after which Proxy-Authorization / Connection / a nominated field is still present (or Authorization was "
                      "dropped unasked); smallest: %s" % (len(kp), json.dumps(c)[:300]))
    elif km:
        c = g.smallest(km)
        ctx.violation("hop-by-hop-correspondence", dict(c, unchecked="correspondence model(g04 remove_hop_by_hop)/hopByHopModifier"), False,
                      "%d header maps where model and modifier differ; smallest: %s" % (len(km), json.dumps(c)[:300]))
    mm, mp = bad.get("mcases", ([], []))
    n_model_bad += len(mm)
    n_prop_bad += len(mp)
    if mp:
        c = g.smallest(mp)
        ctx.violation("matcher-output-violates-precedence", c, True,
                      "%d queries where Match/MatchURL does not return what the documented precedence prescribes; smallest: %s"
                      % (len(mp), json.dumps(c)[:300]))
    elif mm:
        c = g.smallest(mm)
        ctx.violation("matcher-correspondence", dict(c, unchecked="correspondence model(g04 Creds.v)/CredentialsMatcher"), False,
                      "%d queries where model and CredentialsMatcher differ; smallest: %s" % (len(mm), json.dumps(c)[:300]))

    if ob_failed and not ctx.violations and not ctx.known_hits:
        ctx.violation("obligation-unchecked", dict(unchecked=ob_failed), False, ob_failed[0][:300])
    elif ob_failed:
        ctx.notes.append({"unchecked_obligations": ob_failed})

    counts = meta.get("shard_case_counts", {})
    evaluations = sum(counts.values()) if counts else 0
    coverage = {
        "obligations": len(info["theorems"]) + info["table_obligations"],
        "discharged": len(info["discharged"]) + info["table_obligations_discharged"],
        "table_obligations": info["table_obligation_names"],
        "checker_cmd": "make -j16 (coq_makefile, full .vo) in coq/lib and coq/g04; coqc C06.v; coqc on %d cases shards (vm_compute)"
                       % len(meta.get("shards", [])),
        "trusted_base": common.standard_trusted_base([
            "Print Assumptions per theorem: %s" % json.dumps(info["assumptions"]),
            "modelled, not verified: net/http Transport's handling of a proxy hop (absolute-form request with Proxy-Authorization from the "
            "proxy URL's userinfo via Header.Set; nothing added to the origin-bound message), net.SplitHostPort / JoinHostPort, url.URL.Port, "
            "http.Header methods, Request.SetBasicAuth, base64 encoding; each is exercised through the real code on every run",
            "tunnelled bytes are the client's own: the model emits no message for them; the harness checks that what arrives through "
            "the tunnel carries exactly the client's Authorization lines and no Proxy-Authorization",
        ]),
        "theorems": info["theorems"],
        "unchecked_obligations": ob_failed,
        "evaluations": evaluations,
        "distinct_nontrivial": int(meta.get("messages_carrying_authorization", 0)) + int(meta.get("messages_carrying_proxy_authorization", 0))
                               + int(meta.get("matcher_cases_with_a_match", 0)),
        "rule": "end-to-end: real proxy in-process; 6 credential tables (none, exact, all four precedence levels overlapping, entries naming the "
                "upstream proxy by host:port / host:* / *:port, global only) x upstream {none, static, static with userinfo, PAC} x this proxy's "
                "basic auth on/off x {GET, POST to 8 targets with explicit/implicit ports, CONNECT to 4 targets with an inner request} x 9 client "
                "Authorization shapes x 8-10 client Proxy-Authorization shapes (repeated, any case, nominated by Connection); every scripted hop "
                "records all fields; matcher: Match/MatchURL through the public API on corpus + random tables (duplicates included) and queries; "
                "non-trivial = received messages carrying Authorization or Proxy-Authorization + matcher queries with a match",
        "traces_validated_against_impl": evaluations,
        "model_mismatches": n_model_bad,
        "property_failures_on_impl": n_prop_bad,
        "distribution": {k: meta.get(k) for k in (
            "configs", "exchanges", "messages_received_by_hop_and_kind", "messages_carrying_authorization",
            "messages_carrying_proxy_authorization", "exchanges_by_upstream_selection", "exchanges_by_client_authorization_shape",
            "exchanges_by_client_proxy_authorization_shape", "exchanges_by_method", "exchanges_by_scheme", "hop_by_hop_cases", "matcher_cases", "matcher_cases_table_accepted",
            "matcher_cases_with_a_match", "shard_case_counts")},
        "samples": [{"end_to_end": [explain(s)[:500] for s in (meta.get("samples") or [])]}],
    }
    ctx.finish("proof", coverage, [
        "the theorems are about the Gallina model (Creds.v); the model is tied to the code by gen/tables g04 (lookup order, default ports, "
        "shape of setBasicAuth / upstreamProxyURL / pacProxy, hop-by-hop list, dialvia header operations) and by the differential run",
        "https targets in absolute form are exercised end to end (TLS to the scripted origin; through an upstream proxy the Transport's own "
        "CONNECT head and the request inside the tunnel are both recorded); what the Transport puts on its CONNECT is modelled",
        "site credentials are also attached to a CONNECT whose authority matches an entry, and that CONNECT head goes in clear to an "
        "upstream proxy: observed, outside the statement's letter, not claimed as a violation (see design.d/C06.md)",
    ])
