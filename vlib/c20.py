"""C20 — listener bandwidth limits bound throughput per direction without altering data."""
import json
import os
import re

from . import common

GROUP = "g20"
PROP_FILE = "C20.v"
KINDS = {  # shard prefix -> (jsonl file, label used in violation keys)
    "lcases": ("lcases.jsonl", "limiter"),
    "mcases": ("mcases.jsonl", "mapping"),
    "wcases": ("wcases.jsonl", "wrap"),
    "ccases": ("ccases.jsonl", "conn"),
    "ecases": ("ecases.jsonl", "e2e"),
}


def load_jsonl(p):
    return [json.loads(l) for l in open(p)] if os.path.exists(p) else []


def nlist(text):
    """'[1; 2]' / '[1%N; 2%N]' / '[]' -> [1, 2]"""
    return [int(x) for x in re.findall(r"\d+", text or "")]


def run(ctx):
    ob_failed = []
    ok, msg = ctx.tables(GROUP)
    if not ok:
        ctx.log("tables:", msg)
        ob_failed.append("translator(gen/tables g20): " + msg)
    ok, log, failed = ctx.coq_make(GROUP)
    core_broken = [f for f in failed if f not in (PROP_FILE, "Obligations.v")]
    if not ok:
        ctx.log("coq build problems in:", failed)
    bad_words = common.forbidden_words([os.path.join(common.VERIF, "coq", GROUP)])
    if bad_words:
        ob_failed.append("forbidden vernacular: " + "; ".join(bad_words))
    info = ctx.check_theorems(GROUP, PROP_FILE)
    if info["rc"] != 0:
        # name the obligation of Obligations.v that stopped checking, if that is the cause
        oblog = ""
        if "Obligations.v" in failed:
            rc2, oblog = ctx.coqc(GROUP, "Obligations.v")
            oblog = " ".join(oblog.split())[-400:]
            src = open(os.path.join(common.VERIF, "coq", GROUP, "Obligations.v")).read().splitlines()
            m = re.search(r"line (\d+)", oblog)
            name = None
            if m:
                for l in src[:int(m.group(1))]:
                    mm = re.match(r"\s*Lemma\s+([A-Za-z0-9_']+)", l)
                    if mm:
                        name = mm.group(1)
            ob_failed.append("table obligation %s in Obligations.v no longer holds for this source tree: %s" % (name, oblog))
        else:
            ob_failed.append("theorem %s in %s no longer checks: %s" % (
                info.get("failed_at"), PROP_FILE, " ".join(info["log"].split())[-400:]))
    if core_broken:
        ob_failed.append("model/proof files do not compile: %s\n%s" % (core_broken, log[-1500:]))

    hb, hlog = ctx.build_harness("c20")
    meta, model_bad, prop_bad = {}, [], []
    if hb is None:
        ob_failed.append("harness does not build against the source tree: " + hlog[-800:])
    else:
        args = [hb, "-seed", str(ctx.seed), "-tier", ctx.tier, "-out", ctx.work]
        if ctx.replay:
            rp = json.load(open(ctx.replay))
            inner = os.path.join(ctx.work, "replay_in.json")
            json.dump(rp.get("replay", rp), open(inner, "w"))
            args += ["-replay", inner]
        rc, out = common.sh(args, timeout=1500)
        if rc != 0:
            ob_failed.append("harness failed: " + out[-800:])
        else:
            meta = json.load(open(os.path.join(ctx.work, "meta.json")))
            res = ctx.coq_eval_shards(GROUP, ctx.work, meta["shards"])
            for shard, lg in res["_errors"]:
                ob_failed.append("correspondence shard %s did not evaluate: %s" % (shard, lg[-600:]))
            srcs = {k: load_jsonl(os.path.join(ctx.work, v[0])) for k, v in KINDS.items()}
            for shard in meta["shards"]:
                r = res.get(shard) or {}
                kind, idx = shard.split("_")[0], int(shard.split("_")[1].split(".")[0])
                basei = idx * meta["shard_size"]
                src = srcs[kind]
                for ident, acc in (("M", model_bad), ("P", prop_bad)):
                    for i in nlist(r.get(ident)):
                        case = src[basei + i] if basei + i < len(src) else {"index": basei + i}
                        acc.append((kind, case))
            for e in meta.get("e2e") or []:
                if e.get("err") and not e["err"].startswith("timeout"):
                    ob_failed.append("end-to-end transfer could not be completed (%s): %s" % (json.dumps(e["spec"]), e["err"]))

    def smallest(cases):
        return min(cases, key=lambda kc: len(json.dumps(kc[1])))

    for kind, (_, label) in KINDS.items():
        pb = [kc for kc in prop_bad if kc[0] == kind]
        mb = [kc for kc in model_bad if kc[0] == kind]
        if pb:
            kc = smallest(pb)
            ctx.violation("%s-output-violates-property" % label, kc[1], True,
                          "%d %s cases where the implementation's own behaviour fails the C20 predicate; smallest: %s"
                          % (len(pb), label, json.dumps(kc[1])[:300]))
        elif mb:
            kc = smallest(mb)
            ctx.violation("%s-correspondence" % label,
                          dict(kc[1], unchecked="correspondence model(g20)/implementation (%s)" % label), False,
                          "%d %s cases where model and implementation differ although the property predicate holds; smallest: %s"
                          % (len(mb), label, json.dumps(kc[1])[:300]))
    if ob_failed and not ctx.violations:
        ctx.violation("obligation-unchecked", dict(unchecked=ob_failed), False, ob_failed[0][:300])
    elif ob_failed:
        ctx.notes.append({"unchecked_obligations": ob_failed})

    n_ob = len(info["theorems"])
    ob_src = common.strip_coq_comments(open(os.path.join(common.VERIF, "coq", GROUP, "Obligations.v")).read())
    table_obs = re.findall(r"\bLemma\s+(ob_[A-Za-z0-9_']+)", ob_src)
    tables_ok = "Obligations.v" not in failed
    evals = sum(int(meta.get(k, 0)) for k in ("limiter_cases", "mapping_cases", "wrap_cases", "conn_cases", "e2e_cases"))
    nontriv = int(meta.get("distribution", {}).get("limiter_cases_with_wait", 0)) + int(meta.get("conn_cases", 0)) + \
        int(meta.get("mapping_cases", 0)) + int(meta.get("wrap_cases", 0)) + int(meta.get("e2e_cases", 0))
    coverage = {
        "obligations": n_ob + len(table_obs),
        "discharged": len(info["discharged"]) + (len(table_obs) if tables_ok else 0),
        "checker_cmd": "make -j16 (coq_makefile, full .vo) in coq/lib and coq/g20; coqc C20.v; coqc on %d cases shards (vm_compute)"
                       % len(meta.get("shards", [])),
        "trusted_base": common.standard_trusted_base([
            "Print Assumptions per theorem: %s" % json.dumps(info["assumptions"]),
            "modelled, not verified: golang.org/x/time/rate v0.12.0 (NewLimiter/wait/reserveN/advance transcribed with exact "
            "integer arithmetic instead of float64; compared with the real Limiter through ReserveN at explicit times, tolerance %s ns), "
            "connfu.CombineWithConfig, net/http and the kernel's socket buffers, the wall clock" % meta.get("tol_ns"),
            "T20_bound's side conditions are facts about the callers, not proved: one call moves at most max_call <= burst bytes "
            "(assumed %s for the end-to-end check), a connection's calls of one direction are sequential, time stamps handed to the "
            "limiter run backwards by at most `skew` in total (allowed %s ns end to end)" % (meta.get("max_call_assumed"), meta.get("skew_allow_ns")),
        ]),
        "theorems": info["theorems"],
        "table_obligations": table_obs,
        "unchecked_obligations": ob_failed,
        "evaluations": evals,
        "distinct_nontrivial": nontriv,
        "rule": "limiter: random ReserveN sequences (1..40 ops, 12 fixed + random bandwidths, sizes around the burst, time steps "
                "around the refill time incl. backwards steps) on the limiter built by newRateLimiter; mapping: all pairs of 10 limits "
                "(exhaustive over that set); wrap: all pairs of 11 CLI spellings (off, OFF, 0, 1, 1B, 1k, 1.5Ki, 1M, 4Mi, 300M, 1G) through "
                "SizeSuffix.Set and forwarder.Listener.Listen (net.go); conn: Read/Write x 8 sizes x 3 errors x 4 limiter configurations through NewListener+Accept "
                "on a scripted conn; e2e: uploads/downloads of burst + 2..3 R bytes through the real proxy listener, plain and CONNECT "
                "tunnels, 1 and 3 connections, timing lower bounds only; time-boxed transfers (6.5 s window) with 24 connections sharing 64 KiB/s "
                "and 8 sharing 2 KiB/s, and transfers in flight across a close of the proxy's listeners (bytes inside the window against "
                "burst + R*t + slack). non-trivial = limiter cases in which at least one reservation "
                "had to wait + every mapping/conn/e2e case",
        "traces_validated_against_impl": evals,
        "model_mismatches": len(model_bad),
        "property_failures_on_impl": len(prop_bad),
        "distribution": dict(meta.get("distribution", {}), limiter_ops=meta.get("limiter_ops"),
                             limiter_ops_granted=meta.get("limiter_ops_granted"),
                             limiter_ops_with_wait=meta.get("limiter_ops_with_wait")),
        "e2e": [{"spec": e["spec"], "moved": e["moved"], "elapsed_s": round(e["elapsed_ns"] / 1e9, 3),
                 "hash_ok": e["hash_ok"]} for e in (meta.get("e2e") or [])],
        "samples": meta.get("samples") or [{"none": "harness did not run"}],
    }
    ctx.finish("proof", coverage, [
        "the theorems are about the Gallina model; the model is tied to the code by gen/tables (constants, guard operators, "
        "which limiter each flag/field/method uses, statement order) and by the differential run above",
        "the token bucket is modelled with exact integers; x/time/rate computes in float64 (tolerance stated)",
        "end-to-end timing gives lower bounds on duration only; a limited transfer that is too fast is a violation, "
        "an unlimited one that does not beat the other direction's bound is a violation",
    ])
