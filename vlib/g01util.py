"""Helpers shared by the two checks of proof group g01 (C18, C01)."""
import json
import os

from . import common

GROUP = "g01"


def load_jsonl(p):
    return [json.loads(l) for l in open(p)] if os.path.exists(p) else []


def _coqc_with_g16(ctx):
    """G01's request pipeline imports G16.Model (C16's rule model): every coqc call needs -Q ../g16 G16."""
    lib = os.path.join(common.VERIF, "coq", "lib")
    g16 = os.path.join(common.VERIF, "coq", "g16")
    g01 = os.path.join(common.VERIF, "coq", GROUP)

    def coqc(group, vfile, cwd=None, timeout=600):
        return common.sh(["coqc", "-Q", lib, "FwdLib", "-Q", g16, "G16", "-Q", g01, "G01", vfile], cwd=cwd or g01, timeout=timeout)
    ctx.coqc = coqc


def prepare(ctx, prop_file, own_files):
    """translator -> full build -> forbidden words -> property file.
    own_files: the .v files this property depends on (failures elsewhere in the group are not its business).
    Returns (info, ob_failed)."""
    ob_failed = []
    _coqc_with_g16(ctx)
    # G16.Model's compiled form depends on g16's Tables.v (shape flags of header/header.go): regenerate and build it for
    # the tree under test, holding g16's lock so that a C16 check cannot interleave
    # (the caller holds g16's lock)
    ok16, msg16 = ctx.tables("g16")
    if not ok16:
        ob_failed.append("translator(gen/tables g16, imported rule model): " + msg16)
    ok16, log16, failed16 = ctx.coq_make("g16")
    if "Model.v" in failed16 or "Tables.v" in failed16:
        ob_failed.append("coq/g16 (imported rule model) does not build: %s" % log16[-600:])
    # g01's compiled files that depend on G16 must not be older than g16's: make sees the time stamps, but a g16
    # rebuilt with identical time stamp granularity or by another tree needs a clean rebuild of the dependants
    g16m = os.path.join(common.VERIF, "coq", "g16", "Model.vo")
    g01p = os.path.join(common.VERIF, "coq", GROUP, "ReqPipeline.vo")
    if os.path.exists(g16m) and os.path.exists(g01p) and os.path.getmtime(g16m) >= os.path.getmtime(g01p):
        for f in ("ReqPipeline", "ReqCheck", "ReqE2E", "ReqProofs", "RouteProofs", "TransportTac", "TransportProofs", "TransportProofs2", "E2EProofs", "Ob01", "C01", "C18"):
            for ext in (".vo", ".vos", ".vok", ".glob"):
                try:
                    os.remove(os.path.join(common.VERIF, "coq", GROUP, f + ext))
                except OSError:
                    pass
    ok, msg = ctx.tables(GROUP)
    if not ok:
        ctx.log("tables:", msg)
        ob_failed.append("translator(gen/tables g01): " + msg)
    ok, log, failed = ctx.coq_make(GROUP)
    core_broken = [f for f in failed if f in own_files and f != prop_file]
    if not ok:
        ctx.log("coq build problems in:", failed)
    bad_words = common.forbidden_words([os.path.join(common.VERIF, "coq", "lib"),
                                        os.path.join(common.VERIF, "coq", GROUP)])
    if bad_words:
        ob_failed.append("forbidden vernacular: " + "; ".join(bad_words))
    info = ctx.check_theorems(GROUP, prop_file)
    if info["rc"] != 0:
        ob_failed.append("theorem %s in %s no longer checks: %s" % (
            info.get("failed_at"), prop_file, " ".join(info["log"].split())[-500:]))
    if core_broken:
        ob_failed.append("model/proof files do not compile: %s\n%s" % (core_broken, log[-1500:]))
    info["failed_files"] = failed
    return info, ob_failed


def table_obligations(obfile, info):
    """names of the `Lemma ob_*` table obligations in coq/g01/<obfile> and whether that file compiled in this run."""
    import re
    src = common.strip_coq_comments(open(os.path.join(common.VERIF, "coq", GROUP, obfile)).read())
    names = re.findall(r"\bLemma\s+(ob_[A-Za-z0-9_']+)", src)
    ok = obfile not in info.get("failed_files", []) and os.path.exists(
        os.path.join(common.VERIF, "coq", GROUP, obfile[:-2] + ".vo"))
    return names, (names if ok else [])


def run_harness(ctx, name, ob_failed, timeout=900, extra_args=()):
    """build + run harness/cmd/<name>; returns meta dict ({} on failure)."""
    hb, hlog = ctx.build_harness(name)
    if hb is None:
        ob_failed.append("harness does not build against the source tree: " + hlog[-1200:])
        return {}
    args = [hb, "-seed", str(ctx.seed), "-tier", ctx.tier, "-out", ctx.work] + list(extra_args)
    if ctx.replay:
        rp = json.load(open(ctx.replay))
        inner = os.path.join(ctx.work, "replay_in.json")
        json.dump(rp.get("replay", rp), open(inner, "w"))
        args += ["-replay", inner]
    rc, out = common.sh(args, timeout=timeout)
    if ctx.replay:
        for l in out.splitlines():
            if l.startswith("replay"):
                ctx.log(l)
    if rc != 0:
        ob_failed.append("harness failed (rc=%d): %s" % (rc, out[-1200:]))
        return {}
    return json.load(open(os.path.join(ctx.work, "meta.json")))


def eval_shards(ctx, meta, ob_failed, sources, idents=("M", "P"), sizes=None):
    """sources: {kind: jsonl file}; shard names are <kind>_<idx>.v; sizes: {kind: shard size} (default meta.shard_size).
    Returns (model_bad, prop_bad, res) with lists of (kind, case_json) -- case_json gets '_i' = its global index --
    and res = {shard: {ident: text}}."""
    model_bad, prop_bad = [], []
    res = ctx.coq_eval_shards(GROUP, ctx.work, meta.get("shards", []), idents=idents)
    for shard, lg in res["_errors"]:
        ob_failed.append("correspondence shard %s did not evaluate: %s" % (shard, lg[-600:]))
    data = {k: load_jsonl(os.path.join(ctx.work, f)) for k, f in sources.items()}
    for shard in meta.get("shards", []):
        r = res.get(shard) or {}
        kind, idx = shard.rsplit("_", 1)[0], int(shard.rsplit("_", 1)[1].split(".")[0])
        size = (sizes or {}).get(kind, meta.get("shard_size", 1))
        base = idx * size
        src = data.get(kind, [])
        for ident, acc in (("M", model_bad), ("P", prop_bad)):
            for i in (ctx.parse_nlist(r.get(ident)) or []):
                case = dict(src[base + i]) if base + i < len(src) else {"index": base + i}
                case["_i"] = base + i
                acc.append((kind, case))
    return model_bad, prop_bad, res


def smallest(cases):
    return min(cases, key=lambda kc: len(json.dumps(kc[1])))
