"""C18 — a request that already passed through this proxy instance is refused (no loops)."""
import json

from . import common
from . import g01util as u

GROUP = "g01"
PROP_FILE = "C18.v"
OWN_FILES = ("Tables.v", "Via.v", "ViaCheck.v", "ViaProofs.v", "Ob18.v", "C18.v",
             "ReqPipeline.v", "ReqCheck.v", "ReqE2E.v", "ReqProofs.v", "RouteProofs.v", "RouteOracle.v", "TransportTac.v",
             "TransportProofs.v", "TransportProofs2.v", "E2EProofs.v", "Ob01.v")


def _tag_of(case):
    return case.get("name", "") + "-" + case.get("boundary", "")


def classify_modifier(case):
    """Name the input class of a modifier case on which the implementation's output fails the C18 predicate."""
    if case.get("concurrent"):
        return "modifier-output-wrong-under-concurrent-use"
    obs = case.get("_obs", {})
    lines = case.get("header", {}).get("Via") or []
    tag = _tag_of(case)
    where = [i for i, l in enumerate(lines) if tag in l]
    if obs.get("refused"):
        if not where:
            return "modifier-refused-a-chain-without-its-own-tag"
        if obs.get("status") != 400:
            return "modifier-loop-refused-with-status-other-than-400"
        return "modifier-loop-refused-without-closing"
    if where and where[0] > 0:
        return "modifier-own-element-on-a-later-via-field-line-not-detected"
    if where:
        return "modifier-own-element-not-detected"
    if len(lines) > 1:
        return "modifier-via-chain-not-preserved-over-several-field-lines"
    return "modifier-via-chain-not-preserved"


def classify_e2e(case):
    obs = case.get("_obs", {})
    route = case.get("route", "?")
    own = case.get("own_of") or ""
    tags = [obs.get(k) for k in ("tag_a", "tag_b", "tag_m", "tag_t") if obs.get(k)]
    if len(set(tags)) != len(tags):
        return "e2e-two-instances-emit-the-same-via-element"
    looped = route in ("AA", "ABA", "MM", "ATA") or own != ""
    if looped and obs.get("status") != 400:
        kind = "loop-not-refused"
    elif looped and obs.get("contacts", 0) != 0:
        kind = "origin-contacted-although-refused"
    elif not looped and obs.get("status") != 200:
        kind = "foreign-chain-not-forwarded"
    else:
        kind = "via-chain-seen-by-origin-wrong"
    if case.get("nominate") and kind == "loop-not-refused" and own == "A":
        # the first hop's own element sits in a Via field that the client nominated in Connection
        return "e2e-loop-not-refused-connection-nominates-via"
    multi = "-multiline" if len(case.get("client_via") or []) > 1 else ""
    nom = "-connection-nominates-via" if case.get("nominate") else ""
    conn = "-connect" if case.get("method") == "CONNECT" else ""
    return "e2e-route-%s-%s%s%s%s" % (route, kind, multi, conn, nom)


def run(ctx):
    # g01 imports G16.Model: hold g16's lock for the whole run so that a C16 check (which regenerates and rebuilds
    # g16) cannot interleave with the g01 build or the shard evaluation
    with common.Lock("group-g16"):
        _run(ctx)


def _run(ctx):
    info, ob_failed = u.prepare(ctx, PROP_FILE, OWN_FILES)
    meta = u.run_harness(ctx, "c18", ob_failed)
    model_bad, prop_bad, res = ([], [], {})
    if meta:
        model_bad, prop_bad, res = u.eval_shards(ctx, meta, ob_failed, {"vcases": "vcases.jsonl", "ecases": "ecases.jsonl", "ucases": "ucases.jsonl", "fcases": "fcases.jsonl"},
                                                   idents=("M", "P", "B"))

    def replay_of(kc):
        kind, case = kc
        d = {k: v for k, v in case.items() if k not in ("_obs", "_i")}
        d["kind"] = {"vcases": "modifier", "ecases": "e2e", "ucases": "stacks", "fcases": "fresh-instance"}[kind]
        d["observed"] = case.get("_obs")
        return d

    for kind, label, classify in (("vcases", "modifier", classify_modifier), ("ecases", "e2e", classify_e2e),
                                  ("ucases", "stacks", lambda c: "stacks-instance-tags-not-unique"),
                                  ("fcases", "fresh-instance", lambda c: "fresh-instance-concurrent-first-requests-get-different-tags")):
        pb = [kc for kc in prop_bad if kc[0] == kind]
        mb = [kc for kc in model_bad if kc[0] == kind]
        groups = {}
        for kc in pb:
            groups.setdefault(classify(kc[1]), []).append(kc)
        for key, kcs in sorted(groups.items()):
            kc = u.smallest(kcs)
            ctx.violation(key, replay_of(kc), True,
                          "%d %s cases where the implementation's own behaviour fails the C18 predicate; smallest: %s"
                          % (len(kcs), label, json.dumps(replay_of(kc))[:400]))
        if not pb and mb:
            kc = u.smallest(mb)
            ctx.violation("%s-correspondence" % label,
                          dict(replay_of(kc), unchecked="correspondence model(g01/Via.v)/implementation (%s)" % label),
                          False,
                          "%d %s cases where model and implementation differ although the property predicate holds; smallest: %s"
                          % (len(mb), label, json.dumps(replay_of(kc))[:400]))
    if meta.get("e2e_errors"):
        ob_failed.append("end-to-end exchanges failed at transport level: %s" % meta["e2e_errors"][:3])
    if meta.get("origin_parse_errors"):
        ob_failed.append("scripted origin could not parse what it received: %s" % meta["origin_parse_errors"][:3])
    if ob_failed and not ctx.violations:
        ctx.violation("obligation-unchecked", dict(unchecked=ob_failed), False, ob_failed[0][:300])
    elif ob_failed:
        ctx.notes.append({"unchecked_obligations": ob_failed})

    # coverage of model branches, measured by the model itself on the cases (B = [no chain; chain forwarded; refused])
    branches = [0, 0, 0]
    for shard, r in res.items():
        if shard.startswith("vcases") and isinstance(r, dict) and r.get("B"):
            for i, v in enumerate(ctx.parse_nlist(r["B"])[:3]):
                branches[i] += v
    evals = int(meta.get("modifier_cases", 0)) + int(meta.get("e2e_cases", 0)) + int(meta.get("stack_tags_observed", 0)) + 8 * int(meta.get("fresh_instances_raced", 0))
    nontriv = branches[1] + branches[2] + int(meta.get("e2e_cases", 0))
    ob_names, ob_done = u.table_obligations("Ob18.v", info)
    coverage = {
        "obligations": len(info["theorems"]) + len(ob_names),
        "discharged": len(info["discharged"]) + len(ob_done),
        "table_obligations": ob_names,
        "checker_cmd": "make -j16 (coq_makefile, full .vo) in coq/lib and coq/g01; coqc C18.v; coqc on %d cases shards (vm_compute)"
                       % len(meta.get("shards", [])),
        "trusted_base": common.standard_trusted_base([
            "Print Assumptions per theorem: %s" % json.dumps(info["assumptions"]),
            "modelled, not verified: net/http.Header Get/Values/Set and CanonicalHeaderKey (FwdLib.Hdr), strings.Contains/Join, "
            "fmt %d rendering of the protocol version; net/http request parsing and Transport (next hop always HTTP/1.1, one Via "
            "field line per value) are exercised end to end only",
            "verif hook /repo/verifhook/mheader (re-export, build tag verif)",
        ]),
        "theorems": info["theorems"],
        "unchecked_obligations": ob_failed,
        "evaluations": evals,
        "distinct_nontrivial": nontriv,
        "rule": "modifier alone: corpus + every protocol version 0.0..9.9 (exhaustive over what ParseHTTPVersion yields) with and without a chain "
                "+ generated chains (0-4 field lines x 0-5 elements, comments incl. commas, same-name other-instance tags, tags differing in the "
                "last character, own element at any position, tag text embedded in comments / longer names); instance tags of repeatedly constructed stacks; end to end: routes A, A->A, A->B, "
                "A->B->A, A->scripted upstream proxy, plain and CONNECT, through real forwarder instances (distinct and identical names; A wired "
                "with Transport.GetProxyConnectHeader like the binary), HTTP/1.0 and 1.1 clients, client supplied chains, Connection-nominated Via; "
                "non-trivial = modifier cases with a received chain (forwarded or refused) + all end-to-end cases",
        "traces_validated_against_impl": evals,
        "model_mismatches": len(model_bad),
        "property_failures_on_impl": len(prop_bad),
        "distribution": {
            "model_branches[no_chain,chain_forwarded,refused]": branches,
            **{k: meta.get(k) for k in ("modifier_refused", "modifier_forwarded", "modifier_own_element_placed",
                                        "modifier_tag_text_embedded", "via_field_lines_hist", "proto_versions_exhaustive",
                                        "e2e_routes", "e2e_status", "e2e_origin_contacts_total", "stack_tags_observed")}},
        "samples": meta.get("samples"),
    }
    ctx.finish("proof", coverage, [
        "the theorems are about the Gallina model of ViaModifier.ModifyRequest; the model is tied to the code by gen/tables "
        "(how the chain is read, separator, status, protocol arms, handler list, modifyRequest-before-roundTrip) and by the differential run",
        "a foreign element containing this instance's tag text (80 random bits) is assumed not to occur by accident; such inputs are accepted either way",
        "Via elements are RFC 7230 list elements split at commas (a comma inside a comment splits the comment on both sides of the comparison alike)",
        "end to end the Via chain is not nominated by a Connection header (see design.d/C18.md)",
    ])
