"""C05 — every request is routed through exactly the upstream the configuration selects."""
import json
import os

from . import common

GROUP = "g05"
PROP_FILE = "C05.v"
OB_FILE = "Obligations.v"

MAX_CLASSES = 5   # violation lines per kind of case (the rest is listed in the evidence notes)
KNOWN_KW = {"DIRECT", "PROXY", "HTTP", "HTTPS", "SOCKS", "SOCKS4", "SOCKS5", "EMPTY"}

KINDS = {
    # shard prefix: (label, is the property predicate meaningful for this kind)
    "scases": ("library-model(SplitHostPort/JoinHostPort/URL.Hostname,Port)", False),
    "pcases": ("pac-first-entry", True),
    "rcases": ("connect-to", True),
    "kcases": ("connect-to-flag-syntax", True),
    "dcases": ("dialer-retry-loop", True),
    "lcases": ("localhost-classifier(pool)", True),
    "hcases": ("pac-resolver-history-independence", True),
    "fcases": ("proxy-function", True),
    "ecases": ("e2e-route", True),
}


def load_jsonl(p):
    return [json.loads(l) for l in open(p)] if os.path.exists(p) else []


def first_keyword(s):
    """keyword of the first PAC entry, for naming the input class of a failing case"""
    e = s.split(";", 1)[0].strip(" \t\n\v\f\r")
    if e == "":
        return "EMPTY", ""
    kw, _, hp = e.partition(" ")
    return kw, hp


def pac_value(cfg, host):
    p = cfg.get("pac")
    if not p:
        return None
    host = host.strip("[]")
    if host in (p.get("by_url") or {}):
        return "<by-url>"
    if host in (p.get("err_hosts") or []):
        return "<script-error>"
    if host in (p.get("num_hosts") or []):
        return "<non-string>"
    return (p.get("table") or {}).get(host, p.get("default", ""))


def port_class(hp):
    port = hp.rsplit(":", 1)[-1] if ":" in hp else None
    if port is None:
        return "noport"
    if port == "":
        return "emptyport"
    if not port.isdigit():
        return "nonnumericport"
    return "port"


def e2e_class(case):
    """class of a failing session: upstream kind (+ PAC keyword when every request's host has the same one)"""
    cfg = case.get("cfg", {})
    tags = []
    if case.get("same_conn"):
        tags.append("one-connection")
    if cfg.get("mitm"):
        tags.append("mitm")
    if cfg.get("pac"):
        kws = set()
        for q in case.get("requests", []):
            h = q.get("urlhost", "")
            h = h[1:h.index("]")] if h.startswith("[") else h.rsplit(":", 1)[0] if ":" in h else h
            v = pac_value(cfg, h)
            kws.add(v if v.startswith("<") else "kw=%s,%s" % ((lambda k, hp: (k if k in KNOWN_KW else "other", port_class(hp)))(*first_keyword(v))))
        tags.insert(0, "pac," + (sorted(kws)[0] if len(kws) == 1 else "mixed"))
    elif cfg.get("upstream"):
        tags.insert(0, "static-" + cfg["upstream"].split("://")[0])
    else:
        tags.insert(0, "no-upstream")
    return ",".join(tags)


def classify(kind, case):
    """input class of a failing case: part of the violation key (known-findings are suppressed by key)"""
    try:
        if kind == "pcases":
            kw, hp = first_keyword(case.get("in", ""))
            return "kw=%s,%s" % (kw if kw in KNOWN_KW else "other", port_class(hp))
        if kind in ("fcases", "ecases"):
            cfg = case.get("cfg", {})
            host = case.get("urlhost", "")
            if kind == "ecases":
                return e2e_class(case)
            if kind == "fcases":
                host = host.rsplit(":", 1)[0] if (":" in host and not host.endswith("]")) else host
            if cfg.get("pac"):
                v = pac_value(cfg, host)
                if v in ("<script-error>", "<non-string>", "<by-url>"):
                    return "pac" + v
                kw, hp = first_keyword(v or "")
                return "pac,kw=%s,%s" % (kw if kw in KNOWN_KW else "other", port_class(hp))
            if cfg.get("upstream"):
                return "static-" + cfg["upstream"].split("://")[0]
            if cfg.get("upfunc"):
                return "upstream-func"
            return "no-upstream"
        if kind == "rcases":
            return "rules=%d" % len(case.get("rules", []))
        if kind == "kcases":
            return "colons=%d" % case.get("in", "").count(":")
        if kind == "dcases":
            return "rules=%d,attempts=%s" % (len(case.get("rules") or []), case.get("attempts"))
        if kind == "hcases":
            return "pooled" if case.get("pooled") else "bare-resolver"
        if kind == "lcases":
            return "host=%s" % case.get("host", "")[:40]
    except Exception as ex:  # classification must never hide a failure
        return "unclassified(%s)" % type(ex).__name__
    return "any"


def run(ctx):
    ob_failed = []
    ok, msg = ctx.tables(GROUP)
    if not ok:
        ctx.log("tables:", msg)
        ob_failed.append("translator(gen/tables g05): " + msg)
    ok, log, failed = ctx.coq_make(GROUP)
    if not ok:
        ctx.log("coq build problems in:", failed)
    core_broken = [f for f in failed if f not in (PROP_FILE, OB_FILE, "Proofs.v")]
    bad_words = common.forbidden_words([os.path.join(common.VERIF, "coq", "lib"),
                                        os.path.join(common.VERIF, "coq", GROUP)])
    if bad_words:
        ob_failed.append("forbidden vernacular: " + "; ".join(bad_words))
    obinfo = ctx.check_theorems(GROUP, OB_FILE)
    if obinfo["rc"] != 0:
        ob_failed.append("table obligation %s in %s no longer checks: %s" % (
            obinfo.get("failed_at"), OB_FILE, " ".join(obinfo["log"].split())[-300:]))
    info = ctx.check_theorems(GROUP, PROP_FILE)
    if info["rc"] != 0:
        ob_failed.append("theorem %s in %s no longer checks: %s" % (
            info.get("failed_at"), PROP_FILE, " ".join(info["log"].split())[-300:]))
    if core_broken:
        ob_failed.append("model/checker files do not compile: %s\n%s" % (core_broken, log[-1500:]))

    # coq/g05/Ip.v is a copy of C04's net.ParseIP transcription
    try:
        a = open(os.path.join(common.VERIF, "coq", "g04", "Ip.v")).read()
        b5 = open(os.path.join(common.VERIF, "coq", "g05", "Ip.v")).read().split("\n", 1)[1]
        if a != b5:
            ctx.notes.append("coq/g05/Ip.v differs from coq/g04/Ip.v (C04 changed its IP parser model; refresh the copy)")
    except OSError:
        pass

    hb, hlog = ctx.build_harness("c05")
    meta, model_bad, prop_bad = {}, [], []
    if hb is None:
        ob_failed.append("harness does not build against the source tree: " + hlog[-800:])
    else:
        args = [hb, "-seed", str(ctx.seed), "-tier", ctx.tier, "-out", ctx.work]
        if ctx.replay:
            rp = json.load(open(ctx.replay))
            inner = os.path.join(ctx.work, "replay_in.json")
            json.dump(rp.get("replay", rp), open(inner, "w"))
            args += ["-replay", inner]
        rc, out = common.sh(args, timeout=900)
        if rc != 0:
            ob_failed.append("harness failed: " + out[-800:])
        else:
            meta = json.load(open(os.path.join(ctx.work, "meta.json")))
            res = ctx.coq_eval_shards(GROUP, ctx.work, meta["shards"])
            for shard, lg in res["_errors"]:
                ob_failed.append("correspondence shard %s did not evaluate: %s" % (shard, lg[-600:]))
            src = {k: load_jsonl(os.path.join(ctx.work, k + ".jsonl")) for k in KINDS}
            for shard in meta["shards"]:
                r = res.get(shard) or {}
                kind, idx = shard.split("_")[0], int(shard.split("_")[1].split(".")[0])
                base = idx * meta["shard_size"]
                for ident, acc in (("M", model_bad), ("P", prop_bad)):
                    for i in (ctx.parse_nlist(r.get(ident)) or []):
                        cases = src.get(kind, [])
                        case = cases[base + i] if base + i < len(cases) else {"index": base + i}
                        acc.append((kind, case))

    def smallest(cases):
        return min(cases, key=lambda kc: len(json.dumps(kc[1])))

    # decide (DESIGN.md 2.2)
    for kind, (label, has_prop) in KINDS.items():
        pb = [kc for kc in prop_bad if kc[0] == kind]
        mb = [kc for kc in model_bad if kc[0] == kind]
        if pb:
            classes = {}
            for kc in pb:
                classes.setdefault(classify(kind, kc[1]), []).append(kc)
            ranked = sorted(classes.items(), key=lambda it: (-len(it[1]), it[0]))
            if len(ranked) > MAX_CLASSES:
                ctx.notes.append({"more_failing_classes_" + kind: [c for c, _ in ranked[MAX_CLASSES:]][:40]})
            for cls, kcs in ranked[:MAX_CLASSES]:
                kc = smallest(kcs)
                ctx.violation("%s-violates-property:%s" % (label, cls), kc[1], True,
                              "%d cases (class %s) where the real code's own behaviour fails the C05 predicate; smallest: %s"
                              % (len(kcs), cls, json.dumps(kc[1])[:400]))
        only_m = [kc for kc in mb if kc not in pb]
        if only_m:
            kc = smallest(only_m)
            ctx.violation("%s-correspondence" % label,
                          dict(kc[1], unchecked="correspondence model(g05)/implementation (%s)" % label),
                          False,
                          "%d cases where model and implementation differ although the property predicate holds; smallest: %s"
                          % (len(only_m), json.dumps(kc[1])[:400]))
    if ob_failed and not ctx.violations and not ctx.known_hits:
        ctx.violation("obligation-unchecked", dict(unchecked=ob_failed), False, ob_failed[0][:300])
    elif ob_failed:
        ctx.notes.append({"unchecked_obligations": ob_failed})

    chk = None
    if ctx.tier == "thorough" and not core_broken and info["rc"] == 0 and obinfo["rc"] == 0:
        chk = ctx.coqchk(GROUP, ["C05"])
        if not chk["ok"] or chk.get("axioms") not in ("<none>",):
            ob_failed.append("coqchk: %s" % chk)
            if not ctx.violations:
                ctx.violation("coqchk-failed", dict(unchecked="coqchk on G05.C05", detail=chk), False, str(chk)[:300])

    counts = meta.get("counts", {})
    dist = meta.get("distribution", {})
    total = sum(int(v) for v in counts.values())
    e2e_requests = sum(v for k, v in dist.items() if k.startswith("e2e_request_kind_"))
    nontriv = (int(dist.get("pac_first_ok", 0)) + int(dist.get("func_url", 0)) + int(dist.get("func_fail", 0)) +
               sum(v for k, v in dist.items() if k.startswith("e2e_wire_") and not k.startswith("e2e_wire_0")) +
               int(counts.get("rcases", 0)))
    all_thms = obinfo["theorems"] + info["theorems"]
    all_done = obinfo["discharged"] + info["discharged"]
    coverage = {
        "obligations": len(all_thms),
        "discharged": len(all_done),
        "checker_cmd": "make -j16 (coq_makefile, full .vo) in coq/lib and coq/g05; coqc Obligations.v; coqc C05.v; "
                       "coqc on %d cases shards (vm_compute)%s" % (len(meta.get("shards", [])),
                                                                  "; " + chk["cmd"] if chk else ""),
        "trusted_base": common.standard_trusted_base([
            "Print Assumptions per theorem: %s" % json.dumps(info["assumptions"]),
            "modelled, not verified: net.SplitHostPort, net.JoinHostPort, url.URL.Hostname/Port (Gallina transcriptions, "
            "differentially tested on every string of length <= %s over {a,1,:,[,],%%,.}); net/http.Transport's choice of "
            "first hop (canonicalAddr, portMap, socks5/https/other-scheme dispatch) -- observed end-to-end only; "
            "goja (the PAC script's answer is recorded as an oracle); Go regexp (the direct-domains matcher's answer "
            "is recorded as an oracle); hp.isLocalhost (answer recorded through the verif hook; modelled in C04)"
            % meta.get("split_exhaustive_len"),
            "verif hooks (add-only, tag verif): /repo/zz_verif_c05.go (accessors: proxy function handed to martian, "
            "isLocalhost, the Dialer's socket function so that final dial addresses are observed without DNS)",
        ]),
        "theorems": info["theorems"],
        "table_obligations": obinfo["theorems"],
        "coqchk": chk,
        "unchecked_obligations": ob_failed,
        "evaluations": total,
        "distinct_nontrivial": nontriv,
        "rule": "scases: every string of length <= %s over a 7-symbol alphabet (exhaustive) + random longer strings + pools; lcases: "
                "isLocalhost on a fixed pool of ~40 host spellings against a small reference; kcases: ParseHostPortPair on every string of length <= 4 (quick) / 5 (thorough) over {a,f,1,:,[,],.,-} + field pools + mutations; dcases: the real Dialer with rule lists x Retry.Attempts (-1..4) x arbitrary outcome patterns; hcases: look-up sequences on one "
                "PAC resolver / pool against fresh resolvers; pcases: every sequence of "
                "<= %s tokens from a 21-token PAC vocabulary (exhaustive) + sampled longer token sequences + keyword x host:port pools + grammar-generated and "
                "mutated return strings; rcases: every single connect-to rule over small pools x 12 addresses (exhaustive) + "
                "random rule lists (0..4); fcases: random configurations {none, static http/https/socks5, external function, "
                "PAC script run by the real goja resolver} x direct-domains lists x localhost mode x targets, proxy function "
                "called directly (several calls per instance, oracle answers from fresh resolver/matcher instances); ecases: "
                "client sessions (3..8 requests: plain http, https absolute-form, CONNECT + inner request, requests inside a "
                "MITM'd tunnel; mixed hosts; each on its own or all on one client connection) against the real proxy in-process "
                "per configuration x connect-to list x dial-retry setting x scripted dial failures, scripted network behind "
                "the real Dialer, full socket-event trace compared.  non-trivial = PAC strings the "
                "parser accepts + proxy-function results that are a URL or an error + e2e requests that reached a proxy hop "
                "+ connect-to cases" % (meta.get("split_exhaustive_len"), meta.get("pac_token_exhaustive_len")),
        "traces_validated_against_impl": total,
        "e2e_requests_through_real_proxy": e2e_requests,
        "model_mismatches": len(model_bad),
        "property_failures_on_impl": len(prop_bad),
        "counts": counts,
        "distribution": dist,
        "samples": (meta.get("samples") or [])[:4],
    }
    ctx.finish("proof", coverage, [
        "the theorems are about the Gallina model; the model is tied to the code by gen/tables g05 (keyword arms, URL "
        "scheme mapping, connect's switch, selection and wrapper order, redirect rule shape) and by the differential run",
        "the PAC script, the direct-domains matcher and isLocalhost are oracles: theorems hold for every oracle, "
        "cases replay the recorded answers",
        "net/http.Transport's dispatch on the proxy URL is modelled by hand and only tested end-to-end",
        "host names are ASCII (IDNA conversion in the Transport is outside the model)",
    ])
