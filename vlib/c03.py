"""C03 — CONNECT/Upgrade tunnels are byte-transparent incl. early data and half-close."""
import json
import os
import re

from . import common

GROUP = "g03"
PROP_FILE = "C03.v"
PROP_FILES = ["C03.v", "C03R.v"]
OB_FILES = ["Obligations.v", "ObligationsReply.v"]

KEY_GRACE = "half-closed-tunnel-cut-after-grace-period"
KEY_2XX_BODY = "upstream-connect-2xx-declares-body"
KEY_READ_TIMEOUT = "tunnel-cut-at-request-read-timeout"
KEY_WRITE_TIMEOUT = "tunnel-cut-at-response-write-timeout"


def load_jsonl(p):
    return [json.loads(l) for l in open(p)] if os.path.exists(p) else []


def table_value(name):
    p = os.path.join(common.VERIF, "coq", GROUP, "Tables.v")
    if not os.path.exists(p):
        return None
    m = re.search(r"Definition %s : \w+ := \(?(-?\d+)\)?" % re.escape(name), open(p).read())
    return int(m.group(1)) if m else None


def grace_key():
    """The known finding names the period of the source tree it was recorded for (Tables.v grace_ns):
    a tree with another period is not suppressed."""
    g = table_value("grace_ns")
    return "%s-%ss" % (KEY_GRACE, "?" if g is None else ("%g" % (g / 1e9)))


def classify(rec):
    """Key of a property failure: names the input class, because known findings suppress by key."""
    if "lookup" in rec:
        return "closewrite-not-found-on-a-connection-a-tunnel-writes-to"
    p = rec["params"]
    if rec.get("forced"):
        # the known finding covers exactly the scenarios built to outlast the grace period
        period_ms = p.get("grace_ms") or (table_value("grace_ns") or 60 * 10 ** 9) // 10 ** 6
        if p.get("hold_ms", 0) > period_ms:
            return grace_key()
        return "tunnel-%s-closed-by-force-although-no-grace-period-elapsed" % p["mode"]
    if p["mode"] in ("uphttp", "uphttps") and p.get("reply_variant", 0) in (5, 6, 12, 13, 14, 16) and \
            (rec.get("overread_by_reply_reader") or rec.get("timeout") or not rec.get("reply")):
        return KEY_2XX_BODY
    if p.get("read_timeout_ms") and rec["dirs"][0]["eof_early"] and rec["dirs"][0]["first_diff"] == -1:
        return KEY_READ_TIMEOUT  # the target saw end-of-stream before the client shut down, on an intact prefix
    if p.get("read_timeout_ms") and rec["dirs"][1]["eof_early"] and rec["dirs"][1]["first_diff"] == -1:
        return KEY_WRITE_TIMEOUT  # the client saw end-of-stream before the target shut down
    why = []
    for d, name in ((0, "client-to-target"), (1, "target-to-client")):
        o = rec["dirs"][d]
        if o["first_diff"] != -1:
            why.append(name + "-bytes-differ")
        elif o["shut"] and o["recv_len"] != o["sent_len"]:
            why.append(name + "-bytes-missing")
        elif o["shut"] and not o["eof"]:
            why.append(name + "-no-end-of-stream")
        elif o["eof_early"] or (o["eof"] and not o["shut"]):
            why.append(name + "-early-end-of-stream")
    if rec.get("overread_by_reply_reader"):
        why.append("reply-reader-overread")
    if rec.get("timeout"):
        why.append("timeout")
    if p["gated"] and not (rec["closed_up"] and rec["closed_down"]):
        why.append("socket-not-closed")
    return "tunnel-%s-%s" % (p["mode"], "+".join(why) or "oracle")


def refusal(ctx, shard, kind, i):
    """Index of the first label of case i of the shard that the LTS refuses (None: the trace is accepted and
    only the final state disagrees with the endpoints)."""
    fn = "crefusal" if kind == "ccases" else "arefusal"
    src = open(os.path.join(ctx.work, shard)).read()
    src = src[:src.index("Definition M :=")]
    name = "diag_%s" % shard
    open(os.path.join(ctx.work, name), "w").write(
        src + "Definition R := Eval vm_compute in (match nth_error cases %d with Some c => %s c | None => None end). Print R.\n"
        % (i, fn))
    rc, log = ctx.coqc(GROUP, name, cwd=ctx.work, timeout=300)
    m = re.search(r"R = (Some (\d+)|None)", " ".join(log.split()))
    if not m:
        return "diagnostic failed"
    return int(m.group(2)) if m.group(2) else None


def size_of(rec):
    if "lookup" in rec:
        return len(rec.get("tree", ""))
    return sum(rec["params"]["len"]) + rec.get("events", 0)


def run(ctx):
    # coqc elaborates the case files on the system stack: lift the soft limit for the children
    try:
        import resource
        _soft, hard = resource.getrlimit(resource.RLIMIT_STACK)
        resource.setrlimit(resource.RLIMIT_STACK, (hard, hard))
    except Exception:
        pass
    ob_failed = []
    ok, msg = ctx.tables(GROUP)
    if not ok:
        ctx.log("tables:", msg)
        ob_failed.append("translator(gen/tables g03): " + msg)
    else:
        # the fallback tables must define what the model reads, or a SHAPE-NOT-FOUND run cannot even compile Check.v
        gdir = os.path.join(common.VERIF, "coq", GROUP)
        names = lambda f: set(re.findall(r"Definition (\w+)", open(os.path.join(gdir, f)).read())) if os.path.exists(os.path.join(gdir, f)) else set()
        if names("Tables.default") != names("Tables.v"):
            ctx.notes.append({"tables_default_stale": sorted(names("Tables.v") ^ names("Tables.default"))})
    ok, log, failed = ctx.coq_make(GROUP)
    core_broken = [f for f in failed if f not in PROP_FILES + OB_FILES]
    if not ok:
        ctx.log("coq build problems in:", failed)
    bad_words = common.forbidden_words([os.path.join(common.VERIF, "coq", "lib"),
                                        os.path.join(common.VERIF, "coq", GROUP)])
    if bad_words:
        ob_failed.append("forbidden vernacular: " + "; ".join(bad_words))
    ob_names, ob_ok = [], []
    for obf in OB_FILES:
        src = open(os.path.join(common.VERIF, "coq", GROUP, obf)).read()
        names = re.findall(r"\bLemma\s+(ob_\w+)", common.strip_coq_comments(src))
        ob_names += names
        if obf not in failed:
            ob_ok += names
            continue
        m = re.search(r'File "\./%s", line (\d+)' % re.escape(obf), log)
        name = None
        if m:
            for l in src.splitlines()[:int(m.group(1))]:
                mm = re.match(r"\s*Lemma\s+(\w+)", l)
                if mm:
                    name = mm.group(1)
        ob_failed.append("table obligation %s in %s no longer checks (the source does not have the shape the theorem needs)"
                         % (name, obf))
    info = {"theorems": [], "discharged": [], "assumptions": {}}
    for pf in PROP_FILES:
        i = ctx.check_theorems(GROUP, pf)
        info["theorems"] += i["theorems"]
        info["discharged"] += i["discharged"]
        info["assumptions"].update(i["assumptions"])
        if i["rc"] != 0:
            ob_failed.append("theorem %s in %s does not check: %s" % (
                i.get("failed_at") or i["theorems"], pf, " ".join(i["log"].split())[-300:]))
    if core_broken:
        ob_failed.append("model/proof files do not compile: %s\n%s" % (core_broken, log[-1500:]))

    hb, hlog = ctx.build_harness("c03")
    if hb is None:
        # the Go build cache is shared with other checks compiling at the same time: one retry
        import time as _t
        _t.sleep(3)
        hb, hlog = ctx.build_harness("c03")
    meta, recs = {}, {}
    model_bad, prop_bad = [], []
    if hb is None:
        ob_failed.append("harness does not build against the source tree: " + hlog[-800:])
    else:
        grace = table_value("grace_ns") or 60 * 10 ** 9
        args = [hb, "-seed", str(ctx.seed), "-tier", ctx.tier, "-out", ctx.work, "-grace-ns", str(grace)]
        skip_harness = False
        if ctx.replay:
            rp = json.load(open(ctx.replay))
            inner_obj = rp.get("replay", rp)
            if "params" in inner_obj:
                inner = os.path.join(ctx.work, "replay_in.json")
                json.dump(inner_obj, open(inner, "w"))
                args += ["-replay", inner]
            elif "unchecked" in inner_obj:
                # a replay that names obligations / theorems / the translator: re-check exactly those (done above)
                skip_harness = True
            # any other replay without parameters (e.g. descriptors left open) re-runs the whole sweep
        if skip_harness:
            rc, out = 0, ""
        else:
            rc, out = common.sh(args, timeout=1500)
        if skip_harness:
            pass
        elif rc != 0:
            ob_failed.append("harness failed: " + out[-800:])
        else:
            meta = json.load(open(os.path.join(ctx.work, "meta.json")))
            for k in ("ccases", "acases", "ncases", "lcases"):
                recs[k] = load_jsonl(os.path.join(ctx.work, k + ".jsonl"))
            res = ctx.coq_eval_shards(GROUP, ctx.work, meta["shards"], timeout=600)
            for shard, lg in res["_errors"]:
                ob_failed.append("correspondence shard %s did not evaluate: %s" % (shard, lg[-600:]))
            for shard in meta["shards"]:
                r = res.get(shard) or {}
                kind, base, _n = meta["shard_index"][shard]
                for ident, acc in (("M", model_bad), ("P", prop_bad)):
                    for i in (ctx.parse_nlist(r.get(ident)) or []):
                        rec = recs[kind][base + i]
                        rec["_loc"] = (shard, kind, i)
                        acc.append(rec)

    # ---- the CloseWrite-lookup differential (Lookup.v) has its own records
    lk_prop = [r for r in prop_bad if "lookup" in r]
    lk_model = [r for r in model_bad if "lookup" in r]
    prop_bad = [r for r in prop_bad if "lookup" not in r]
    model_bad = [r for r in model_bad if "lookup" not in r]
    if lk_prop:
        rec = min(lk_prop, key=size_of)
        ctx.violation(classify(rec), {"lookup": {k: rec[k] for k in rec if k != "_loc"}}, True,
                      "reflectx.LookupImpl[closeWriter] does not find CloseWrite on %d connection shape(s) a tunnel writes to: %s"
                      % (len(lk_prop), rec["lookup"]))
    elif lk_model:
        rec = min(lk_model, key=size_of)
        ctx.violation("closewrite-lookup-model-differs", {"lookup": {k: rec[k] for k in rec if k != "_loc"},
                      "unchecked": "correspondence model(g03 Lookup.v)/implementation (utils/reflectx.LookupImpl)"}, False,
                      "%d value(s) on which the real lookup and its model disagree; smallest: %s found=%s tree=%s"
                      % (len(lk_model), rec["lookup"], rec["found"], rec["tree"][:200]))

    # ---- a failure that involves very few scenarios is re-run alone before it is reported: the scenarios
    # run 16 at a time on loopback and depend on timing; one that cannot be reproduced in three solo runs is
    # listed in the evidence (unreproduced_failures) instead of failing the check.  Anything broader is
    # reported as it is.
    failing = {id(r): r for r in prop_bad + model_bad}
    if hb is not None and 0 < len(failing) <= int(os.environ.get("C03_RERUN_MAX", "2")) and not ctx.replay:
        kept_ids = set()
        for rid, rec in failing.items():
            if rec.get("forced"):
                kept_ids.add(rid)   # the grace scenarios are deterministic by construction
                continue
            again = 0
            for attempt in range(3):
                sub = os.path.join(ctx.work, "rerun_%d_%d" % (rec["params"]["idx"], attempt))
                os.makedirs(sub, exist_ok=True)
                json.dump({"params": rec["params"]}, open(os.path.join(sub, "in.json"), "w"))
                rc2, _o = common.sh([hb, "-out", sub, "-grace-ns", str(grace), "-replay", os.path.join(sub, "in.json")], timeout=300)
                if rc2 != 0:
                    again += 1
                    break
                m2 = json.load(open(os.path.join(sub, "meta.json")))
                r2 = ctx.coq_eval_shards(GROUP, sub, m2["shards"], timeout=300)
                if r2["_errors"] or any(ctx.parse_nlist((r2.get(sh) or {}).get(k)) for sh in m2["shards"] for k in ("M", "P")):
                    again += 1
                    break
            if again:
                kept_ids.add(rid)
            else:
                ctx.notes.append({"unreproduced_failure": {"params": rec["params"],
                                                           "observed": {k: rec[k] for k in rec if k not in ("params", "_loc")}}})
        prop_bad = [r for r in prop_bad if id(r) in kept_ids]
        model_bad = [r for r in model_bad if id(r) in kept_ids]

    # ---- decide (DESIGN.md 2.2)
    by_key = {}
    for rec in prop_bad:
        by_key.setdefault(classify(rec), []).append(rec)
    for key, lst in sorted(by_key.items()):
        rec = min(lst, key=size_of)
        ctx.violation(key, {"params": rec["params"], "observed": {k: rec[k] for k in rec if k not in ("params", "_loc")}}, True,
                      "%d scenario(s) where what the endpoints observed fails the C03 predicate; smallest: mode=%s len=%s dirs=%s"
                      % (len(lst), rec["params"]["mode"], rec["params"]["len"],
                         json.dumps([{k: d[k] for k in ("sent_len", "recv_len", "first_diff", "shut", "eof", "eof_early")}
                                     for d in rec["dirs"]])))
    pb_ids = {id(r) for r in prop_bad}
    only_model = [r for r in model_bad if id(r) not in pb_ids]
    if only_model:
        rec = min(only_model, key=size_of)
        shard, kind, i = rec["_loc"]
        if kind != "ncases":
            rec["lts_refused_label_index"] = refusal(ctx, shard, kind, i)
        ctx.violation("trace-not-accepted-by-lts-%s" % rec["params"]["mode"],
                      {"params": rec["params"], "unchecked": "correspondence: event trace of the real proxy is not a run of the LTS (coq/g03/Tunnel.v) or its final state disagrees with the endpoints",
                       "observed": {k: rec[k] for k in rec if k not in ("params", "_loc")}}, False,
                      "%d gated scenario(s) whose recorded trace the model does not accept although the endpoint-level predicate holds; smallest: %s"
                      % (len(only_model), json.dumps(rec["params"])[:300]))
    if meta:
        if meta.get("fd_after", 0) > meta.get("fd_before", 0):
            ctx.violation("file-descriptors-left-open", {"fd_before": meta["fd_before"], "fd_after": meta["fd_after"]}, True,
                          "after all tunnels ended the process holds %d more file descriptors than before"
                          % (meta["fd_after"] - meta["fd_before"]))
        tb = table_value("copy_buf_size")
        if tb is not None and (meta.get("copy_buf_len_observed") != tb or meta.get("max_read_observed", 0) > tb):
            ob_failed.append("translator self-check: copy_buf_size=%s in Tables.v, running code hands out %s, largest copier read %s"
                             % (tb, meta.get("copy_buf_len_observed"), meta.get("max_read_observed")))
        if meta.get("trace_problems"):
            ctx.notes.append({"trace_construction_problems": meta.get("trace_problem_list")})
    # a broken obligation / theorem / translator is reported whenever no failing input explains it
    # (a known finding that is seen anyway does not explain it)
    if ob_failed and not ctx.violations:
        ctx.violation("obligation-unchecked", dict(unchecked=ob_failed), False, ob_failed[0][:300])
    elif ob_failed:
        ctx.notes.append({"unchecked_obligations": ob_failed})
    if meta.get("skipped_after_many_timeouts"):
        ctx.notes.append({"scenarios_not_run_after_many_timeouts": meta["skipped_after_many_timeouts"]})

    n_gated = int(meta.get("gated_concrete", 0)) + int(meta.get("gated_abstract", 0))
    coverage = {
        "obligations": len(info["theorems"]) + len(ob_names),
        "discharged": len(info["discharged"]) + len(ob_ok),
        "checker_cmd": "make -j16 (coq_makefile, full .vo) in coq/lib and coq/g03; coqc C03.v, C03R.v; coqc on %d case shards (vm_compute)"
                       % len(meta.get("shards", [])),
        "trusted_base": common.standard_trusted_base([
            "Print Assumptions per theorem: %s" % json.dumps(info["assumptions"]),
            "modelled, not verified: kernel TCP (reliable, ordered delivery; FIN after data), goroutine scheduling, "
            "io.CopyBuffer's loop, bufio.Reader, net/http's request/response head parsing and the Transport's hand-over "
            "of a 101 body, crypto/tls, golang.org/x/net/proxy (SOCKS5)",
            "the harness builds the LTS trace from recorded wrapper events (ordering and byte ranges); in Upgrade mode the "
            "copier's first read of bytes buffered by net/http's transport is not observable and is inferred (%s inferred reads)"
            % meta.get("inferred_reads"),
            "payloads > ~2 KiB: trace inclusion is checked in the length abstraction (Abstract.v, proved to be the length "
            "image of the byte-level LTS); byte identity of these streams is compared in Go (first difference + length)",
        ]),
        "theorems": info["theorems"],
        "table_obligations": ob_names,
        "unchecked_obligations": ob_failed,
        "evaluations": int(meta.get("scenarios", 0)),
        "distinct_nontrivial": n_gated,
        "rule": "one evaluation = one tunnel through the real proxy over loopback TCP with scripted endpoints; "
                "non-trivial = gated scenarios (recording/gating connection wrappers on the listener and the DialContext side), "
                "whose full event trace is checked for inclusion in the LTS; native scenarios use the production listener/dialer "
                "and are checked by the endpoint-level oracle only",
        "traces_validated_against_impl": n_gated,
        "model_mismatches": len(model_bad),
        "property_failures_on_impl": len(prop_bad),
        "distribution": meta.get("distribution"),
        "events_recorded": meta.get("events"),
        "payload_bytes": meta.get("payload_bytes"),
        "closewrite_lookup_values_compared": meta.get("closewrite_lookup_cases"),
        "max_copier_read_observed": meta.get("max_read_observed"),
        "copy_buf_len_observed": meta.get("copy_buf_len_observed"),
        "fd_before_after": [meta.get("fd_before"), meta.get("fd_after")],
        "grace_batch": {"scenarios": meta.get("grace_batch"), "grace_ns": meta.get("short_grace_ns")},
        "slowest_scenario_ms": meta.get("slowest_scenario_ms"),
        "samples": (meta.get("samples") or []) + [{"lts_trace_of_a_gated_scenario": meta.get("sample_trace")}],
    }
    ctx.finish("proof", coverage, [
        "the theorems are about the LTS of coq/g03/Tunnel.v; it is tied to the code by gen/tables g03 (buffer size, grace "
        "period, order of reply/drain/copiers, CloseWrite after copy, who closes the sockets, byte-wise reply reader) and by "
        "trace inclusion of the real proxy's recorded events",
        "kernel TCP, goroutine scheduling and the half-close system calls are runtime: exercised, not proved (partial)",
        "a forced close ends a half-closed tunnel one grace period (1 min) after the first direction finished; the "
        "theorems about completeness hold for runs without that forced close",
    ])
