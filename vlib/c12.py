"""C12 — upstream faults and hostile input yield a clean error or close, never a crash."""
import json
import os
import re

from . import common
from . import g12util as g

GROUP = "g12"
PROP_FILE = "C12.v"


def status_literals():
    p = os.path.join(common.VERIF, "coq", GROUP, "Tables.v")
    m = re.search(r"Definition error_status_literals : list N := \[(.*?)\]", open(p).read()) if os.path.exists(p) else None
    return ",".join(x.strip() for x in m.group(1).split(";")) if m else "400"


def cut_key(c):
    """Class of a cut case whose outcome violates the property: how the origin framed its reply, how the
    body reached the client, how the origin's connection ended."""
    client = c.get("go", {}).get("framing", "?")
    v = c.get("go", {}).get("verdict", "?")
    if v == "complete" and c["framing"] == "close" and c.get("end") == "tlscut":
        return "truncated-complete:close-delimited-reply-tls-cut-without-close-notify%s" % ("-mitm-client" if c.get("route") == "mitm" else "")
    if v == "complete" and client == "close":
        if c["framing"] == "close":
            how = {"rst": "reset", "tlscut": "tls-cut-without-close-notify"}.get(c["end"], c["end"])
            via = "-mitm-client" if c.get("route") == "mitm" else ""
            return "truncated-complete:close-delimited-reply-%s%s" % (how, via)
        return "truncated-complete:%s-reply-delivered-close-delimited-to-%s-client" % (c["framing"], c["proto"].replace("/", "").lower())
    if v == "complete":
        return "truncated-complete:%s-reply-%s-framing-at-client%s" % (c["framing"], client, "-handler-mode" if c.get("route") == "handler" else "")
    if v == "malformed":
        return "mixed-or-malformed:%s-reply-%s%s" % (c["framing"], c["end"], "-pipelined" if c.get("pipelined") else "")
    if c.get("client_end") not in ("eof", "reset"):
        return "left-open-after-failure:%s-reply-%s" % (c["framing"], c["end"])
    return "cut:%s-reply-%s-at-client-%s" % (c["framing"], v, c["end"])


def run(ctx):
    info, ob_failed = g.prepare(ctx, PROP_FILE)
    meta, herr = g.run_harness(ctx, "c12", ["-status-literals", status_literals()], timeout=1500)
    e_bad_m, e_bad_p, c_bad_m, c_bad_p, s_bad_m, s_bad_p, g_bad_m, g_bad_p = [], [], [], [], [], [], [], []
    hostile = []
    if meta is None:
        ob_failed.append(herr)
        meta = {}
    else:
        res = ctx.coq_eval_shards(GROUP, ctx.work, meta["shards"], timeout=1200)
        for shard, lg in res["_errors"]:
            ob_failed.append("correspondence shard %s did not evaluate: %s" % (shard, lg[-600:]))
        ej = g.load_jsonl(os.path.join(ctx.work, "ecases.jsonl"))
        cj = g.load_jsonl(os.path.join(ctx.work, "ccases.jsonl"))
        hostile = g.load_jsonl(os.path.join(ctx.work, "hostile.jsonl"))
        for shard in meta["shards"]:
            r = res.get(shard) or {}
            kind, idx = shard.split("_")[0], int(shard.split("_")[1].split(".")[0])
            base = idx * meta["shard_size"]
            sj = g.load_jsonl(os.path.join(ctx.work, "scases.jsonl"))
            gj = g.load_jsonl(os.path.join(ctx.work, "pgcases.jsonl"))
            src = {"ecases": ej, "ccases": cj, "scases": sj, "pgcases": gj}[kind]
            for ident, acc in (("M", {"ecases": e_bad_m, "ccases": c_bad_m, "scases": s_bad_m, "pgcases": g_bad_m}[kind]),
                               ("P", {"ecases": e_bad_p, "ccases": c_bad_p, "scases": s_bad_p, "pgcases": g_bad_p}[kind])):
                for i in (ctx.parse_nlist(r.get(ident)) or []):
                    acc.append(src[base + i] if base + i < len(src) else {"index": base + i, "name": "?"})

    # ---- decide
    # classifier
    seen = set()
    for c in sorted(e_bad_p, key=lambda c: len(c.get("name", ""))):
        k = "classifier:status-%s" % c.get("code")
        if k in seen:
            continue
        seen.add(k)
        ctx.violation(k, {"kind": "classifier", "name": c["name"]}, True,
                      "error response of the real classifier is not a complete well-formed 4xx/5xx response with X-Forwarder-Error: "
                      "%s -> code %s, parsed %s" % (c["name"], c.get("code"), json.dumps(c.get("go"))[:200]))
    if e_bad_m and not e_bad_p:
        c = min(e_bad_m, key=lambda c: len(c.get("name", "")))
        ctx.violation("correspondence:classifier", {"kind": "classifier", "name": c["name"],
                                                     "unchecked": "correspondence G12.Errors.classify vs HTTPProxy.errorResponse"}, False,
                      "%d synthetic errors where model and implementation choose different statuses (or the two parsers disagree); e.g. %s: "
                      "implementation %s, features %s" % (len(e_bad_m), c["name"], c.get("code"), json.dumps(c.get("feat"))))
    # error pages under concurrency
    if g_bad_p:
        c = g_bad_p[0]
        ctx.violation("error-page-of-another-request", {"kind": "pages", "name": ""}, True,
                      "%d of the concurrently failing requests got an error response whose page does not belong to the error in its own "
                      "X-Forwarder-Error / its own target; e.g. target %s: status %s, X-Forwarder-Error %r, body %r" % (
                          len(g_bad_p), c.get("target"), c.get("status"), c.get("err_hdr"), c.get("body", "")[:200]))
    # fault classes end to end
    want = {"connfail": "502", "tlsfail": "502", "timeout": "504", "rejected": "the upstream proxy's status", "other": "5xx", "refusal": "4xx/5xx"}
    skeys = set()
    for c in sorted(s_bad_p, key=lambda c: len(c.get("name", ""))):
        k = "status:%s" % str(c.get("name")).split("#")[0]
        skeys.add(c.get("name"))
        ctx.violation(k, {"kind": "status", "name": c.get("name")}, True,
                      "fault class '%s' must be answered with %s and a complete well-formed response; %s got: %s %s, X-Forwarder-Error: %s" % (
                          c.get("class"), want.get(c.get("class")), c.get("name"), c.get("verdict"), c.get("status"), c.get("err_hdr")))
    for c in s_bad_m:
        if c.get("name") in skeys:
            continue
        ctx.violation("correspondence:status-%s" % c.get("name"),
                      {"kind": "status", "name": c.get("name"), "unchecked": "correspondence G12.Errors.classify (features of the scenario) vs implementation"}, False,
                      "status differs from the model's prediction although the class predicate holds: %s -> %s (features %s) %s" % (
                          c.get("name"), c.get("status"), json.dumps(c.get("feat")), c.get("harness_err", "")))
    # cut sweep
    pkeys = set()
    for c in sorted(c_bad_p, key=lambda c: (c.get("k", 0), len(c.get("name", "")))):
        k = cut_key(c)
        if k in pkeys:
            continue
        pkeys.add(k)
        n = sum(1 for x in c_bad_p if cut_key(x) == k)
        ctx.violation(k, {"kind": "cut", "name": c["name"]}, True,
                      "%d cut point(s): origin reply framed '%s' cut after k bytes (%s), client (%s) parses a %s message with %d of %d body "
                      "bytes, status %s, stream end '%s'; smallest: %s" % (
                          n, c["framing"], c["end"], c["proto"], c["go"]["verdict"], c["go"]["body_len"], len_body(c), c["go"]["status"],
                          c.get("client_end"), c["name"]))
    mkeys = set()
    for c in sorted(c_bad_m, key=lambda c: (c.get("k", 0), len(c.get("name", "")))):
        k = "correspondence:cut-%s-%s" % (c.get("framing"), c.get("route"))
        if k in mkeys or cut_key(c) in pkeys:
            continue
        mkeys.add(k)
        ctx.violation(k, {"kind": "cut", "name": c["name"], "unchecked": "correspondence path model / parsers vs implementation"}, False,
                      "relay outcome or parser verdict differs from the model's prediction although the property predicate holds: %s -> %s %s %s" % (
                          c["name"], c.get("go", {}).get("verdict"), c.get("go", {}).get("status"), c.get("harness_err", "")))
    # hostile streams
    for h in hostile:
        name = h["name"]
        if name.startswith("endless-request-line"):
            continue
        if name == "blackhole-setup":
            ctx.violation("setup:blackhole-listener", {"kind": "hostile", "name": name, "unchecked": "dials pending at the end of their context"}, False,
                          "the child could not build a listener that drops SYNs (%s): the dial-pending streams were not run" % h.get("note", ""))
        elif h.get("crashed"):
            ctx.violation("crash:%s@%s" % (name, h["listener"]), {"kind": "hostile", "name": name}, True,
                          "proxy process died on hostile stream %s (%s listener): %s" % (name, h["listener"], h.get("exit_text", "")[:300]))
        elif h.get("listener") in ("origin", "bodylog") and h.get("verdict") == "malformed":
            ctx.violation("malformed-relay:%s" % name, {"kind": "hostile", "name": name}, True,
                          "hostile origin reply %s: the client received bytes that are not a well-formed HTTP response: %r" % (name, h.get("reply", "")[:120]))
        elif h.get("want") and h.get("status") != h["want"]:
            ctx.violation("status:%s@%s" % (name, h["listener"]), {"kind": "hostile", "name": name}, True,
                          "%s (%s listener): the client got %s %s where the statement requires %s: %r" % (
                              name, h["listener"], h.get("verdict"), h.get("status"), h["want"], h.get("reply", "")[:120]))
        elif not h.get("probe_ok"):
            ctx.violation("unresponsive:%s@%s" % (name, h["listener"]), {"kind": "hostile", "name": name}, True,
                          "after hostile stream %s (%s listener) a probe request was not served: %s" % (name, h["listener"], h.get("probe_text", "")))
    endless = {h["name"]: h for h in hostile if h["name"].startswith("endless-request-line")}
    un, cp = endless.get("endless-request-line-uncapped"), endless.get("endless-request-line-capped-2GiB-AS")
    if un or cp:
        grow = (un["rss_after_kb"] - un["rss_before_kb"]) if un and un["rss_after_kb"] > 0 else 0
        unbounded = bool(un) and un["sent"] >= (32 << 20) and grow * 1024 > un["sent"] // 2
        died = bool(cp) and cp.get("crashed")
        if unbounded or died:
            ctx.violation("hostile:endless-request-line", {"kind": "hostile", "name": "endless-request-line"}, True,
                          "request head is buffered without a size limit until the read-header timeout (1 min by default): "
                          "uncapped child: %s bytes of request line in %.2fs grew RSS by %d KiB; child with a 2 GiB address-space cap: %s after "
                          "%s bytes (%s)" % (un and un["sent"], un and un["seconds"] or 0, grow,
                                             "DIED" if died else "survived", cp and cp["sent"], (cp or {}).get("exit_text", "")[:120]))
    # a broken obligation / theorem / translator is reported unless a NEW failing input was found (known findings do not count)
    if ob_failed and not any(found for _, _, found, _ in ctx.violations):
        ctx.violation("obligation-unchecked", dict(unchecked=ob_failed), False, "; ".join(o[:160] for o in ob_failed[:4]))
    elif ob_failed:
        ctx.notes.append({"unchecked_obligations": ob_failed})

    n_table_ob = _count_obligations()
    bad_table = sum(1 for o in ob_failed if "table obligation" in o)
    coverage = {
        "obligations": len(info["theorems"]) + n_table_ob,
        "discharged": len(info["discharged"]) + n_table_ob - bad_table,
        "checker_cmd": "make -j16 (coq_makefile, full .vo) in coq/lib and coq/g12; coqc C12.v; coqc on %d observation shards (vm_compute)"
                       % len(meta.get("shards", [])),
        "trusted_base": common.standard_trusted_base([
            "Print Assumptions per theorem: %s" % json.dumps(info["assumptions"]),
            "modelled, not verified: errors.As/Is (the feature vector of an error is supplied by the harness by construction of the "
            "synthetic error), net/http Transport error values, Response.Write, crypto/tls; panic-freedom of the Go runtime and of "
            "third-party parsers cannot be proved: hostile-input robustness is TESTED (child process + probe), not proved",
            "the client-side parser G12.Framing.client_parse is ours; it is compared with an independent Go implementation "
            "(harness/faultrig/parse.go) on every byte stream of the run",
            "verif hooks zz_verif_exchange.go (errorResponse exposed, ErrorStatus constructor; add-only, build tag verif)",
        ]),
        "theorems": info["theorems"],
        "unchecked_obligations": ob_failed,
        "evaluations": int(meta.get("classifier_cases", 0)) + int(meta.get("cut_cases", 0)) + int(meta.get("hostile_cases", 0)) + int(meta.get("status_cases", 0)) + int(meta.get("page_cases", 0)),
        "distinct_nontrivial": int(meta.get("cut_cases", 0)) + len(meta.get("classifier_codes", {})),
        "rule": "classifier: every error atom alone, wrapped, and seeded joins of 2-3 atoms x http/https; cut sweep: every cut point k of "
                "the origin reply (direct route, HTTP/1.1: all k; other combinations: stride 2 or 3 in quick, all k in thorough) x FIN/RST "
                "x {Content-Length, chunked, close-delimited} x client HTTP/1.1 and 1.0 x direct / via upstream proxy; hostile: fixed corpus "
                "x {plain, MITM, TLS listener} + seeded mutants + hostile origin replies, proxy in a child process, probe after each; "
                "distinct_nontrivial = cut cases + distinct classifier outcomes",
        "traces_validated_against_impl": int(meta.get("classifier_cases", 0)) + int(meta.get("cut_cases", 0)),
        "model_mismatches": len(e_bad_m) + len(c_bad_m) + len(s_bad_m),
        "property_failures_on_impl": len(e_bad_p) + len(c_bad_p) + len(s_bad_p) + len(g_bad_p),
        "distribution": {"classifier_codes": meta.get("classifier_codes"), "cut_outcomes": meta.get("cut_outcomes"), "status_classes": meta.get("status_classes"),
                         "hostile_cases": meta.get("hostile_cases"),
                         "hostile_crashes": sum(1 for h in hostile if h.get("crashed")),
                         "endless_request_line": {k: {f: v.get(f) for f in ("sent", "seconds", "rss_before_kb", "rss_after_kb", "rss_peak_kb", "crashed")}
                                                  for k, v in endless.items()}},
        "samples": [{"cut": [c["name"] for c in g.load_jsonl(os.path.join(ctx.work, "ccases.jsonl"))[::397]][:8]},
                    {"hostile": (meta.get("hostile_names") or [])[::17][:8]}],
    }
    ctx.finish("proof", coverage, [
        "proved about the Gallina models: the classifier (total into 400..599, mapping), the exchange path tree (at most one head per "
        "exchange, close after a failed write), the client-side framing parser (every strict prefix of a length- or chunk-framed "
        "response is not complete; refuted for close-delimited bodies)",
        "crash-freedom is NOT proved: it is tested with the corpus and mutants above against the real proxy in a child process",
        "faults are injected on loopback TCP; TLS-level cuts inside an established TLS session to the origin are not swept byte by byte",
    ])


def len_body(c):
    return c.get("reply_len", 0) - c.get("head_len", 0)


def _count_obligations():
    p = os.path.join(common.VERIF, "coq", GROUP, "Obligations.v")
    src = common.strip_coq_comments(open(p).read())
    return src.count("Lemma ob_")
