"""C09 — HTTP/2 relay respects peer windows and frame-size limits and returns all credit."""
from . import g09util

GROUP = g09util.GROUP


def run(ctx):
    g09util.run_property(ctx, "C09", "c09", "C09.v", [], stress=4000)
