"""C08 — PROXY-protocol listener yields the advertised address and exactly the payload."""
import collections
import json
import os

from . import common

GROUP = "g08"
PROP_FILE = "C08.v"
PROP_PARTS = ["C08_handover.v", "C08_converse.v", "C08_ops.v", "C08_safety.v", "C08_addr.v", "C08_once.v", "C08_timed.v", "C08_free.v"]

READER_VERDICTS = {
    1: "wf-header-rejected",
    2: "accepted-with-other-addresses",
    3: "consumption-differs-from-header-length",
    4: "malformed-header-accepted",
    5: "accepted-without-addresses",
    6: "over-consumption",
}
CONN_VERDICTS = {
    1: "conn-wf-header-connection-failed",
    2: "conn-wrong-address-reported",
    3: "conn-payload-differs",
    4: "conn-malformed-header-delivered-data",
    5: "conn-nil-address",
}
OPS_VERDICTS = {
    1: "ops-call-failed-or-wrong-address-on-wf-header",
    2: "ops-bytes-read-are-not-a-prefix-of-the-payload",
    3: "ops-eof-before-the-whole-payload",
    4: "ops-call-succeeded-without-wf-header",
    5: "ops-bytes-delivered-without-wf-header",
}
E2E_VERDICTS = {
    1: "e2e-process-crash",
    2: "e2e-proxy-dead-after-header",
    3: "e2e-wf-header-request-failed",
    4: "e2e-origin-saw-wrong-client-address",
    5: "e2e-malformed-header-request-served",
    6: "e2e-malformed-header-connection-left-open",
}


def load_jsonl(p):
    return [json.loads(l) for l in open(p)] if os.path.exists(p) else []


def v1_class(raw):
    """Coarse class of a v1 line for the violation key (which rule of the grammar the accepted line breaks)."""
    if not raw.startswith(b"PROXY "):
        return "v2" if raw.startswith(b"\r\n\r\n\x00\r\nQUIT\n") else "other"
    k = raw.find(b"\r\n")
    line = raw[:k] if k >= 0 else raw
    toks = line.split(b" ")
    if k >= 0 and k + 2 > 107:
        return "v1-longer-than-107"
    if line.startswith(b"PROXY UNKNOWN"):
        return "v1-unknown"
    if len(line) > 10 and line[10:11] != b" ":
        return "v1-separator"
    if len(toks) > 6:
        return "v1-extra-token"
    if len(toks) == 6:
        fam, a1, a2, p1, p2 = toks[1:]
        for p in (p1, p2):
            if not p.isdigit() or int(p) > 65535 or (len(p) > 1 and p[:1] == b"0"):
                return "v1-port"
        for a in (a1, a2):
            if (b":" in a) != (fam == b"TCP6"):
                return "v1-family-mismatch"
    return "v1-line"


def reader_key(verdict, raw):
    base = READER_VERDICTS.get(verdict, "verdict-%d" % verdict)
    cls = v1_class(raw)
    if verdict == 1 and cls == "v1-line" and raw.startswith(b"PROXY TCP6 ") and 0 <= raw.find(b"\r\n") < 22:
        return base + ":v1-tcp6-short-line"
    if verdict == 5:
        return base + ":" + ("v2-proxy-command-unhandled-family-or-command" if cls == "v2" else cls)
    if verdict == 4:
        return base + ":" + cls
    return base + ":" + ("v2" if cls == "v2" else "v1" if cls.startswith("v1") else cls)


def case_bytes(case):
    if case.get("kind") == "v2":
        n, seed = case["len"], case["seed"]
        nb = n if case["vc"] & 0xF0 == 0x20 else min(n, 64)
        body = bytes(((i * 7 + seed) % 251) for i in range(nb))
        return b"\r\n\r\n\x00\r\nQUIT\n" + bytes([case["vc"], case["fam"], (n >> 8) & 255, n & 255]) + body + b"GET /"
    return bytes.fromhex(case.get("in", ""))


def judge_timeouts(probes, to_ms=400):
    """[(name, what is wrong, probe)] for the probes that violate the (tolerant) expectations."""
    out = []
    for pr in probes:
        name, bad = pr.get("probe"), None
        if not pr.get("process_alive", True):
            bad = "the proxy process died"
        elif name in ("silent-peer", "half-header-then-silence"):
            if not pr.get("closed_by_server") or pr.get("status") != 0:
                bad = "the connection was not closed by the proxy (status %s)" % pr.get("status")
            elif not (to_ms - 150 <= pr.get("closed_after_ms", -1) <= to_ms + 2500):
                bad = "closed after %s ms, header timeout is %d ms" % (pr.get("closed_after_ms"), to_ms)
            elif pr.get("other_connection_status") != 200:
                bad = "another connection was not served meanwhile (status %s)" % pr.get("other_connection_status")
        elif name == "header-completed-after-timeout":
            if pr.get("status") != 0:
                bad = "a header completed after the timeout was still served (status %s)" % pr.get("status")
        elif name == "slow-header-within-timeout":
            if pr.get("status") != 200:
                bad = "a header completed within the timeout was not served (status %s)" % pr.get("status")
        elif name == "stall-after-k-bytes":
            if pr.get("not_closed") or pr.get("served"):
                bad = "%s stalled connections were not closed, %s were served" % (pr.get("not_closed"), pr.get("served"))
            elif not (to_ms - 150 <= pr.get("closed_after_ms_min", -1) and pr.get("closed_after_ms_max", 10**9) <= to_ms + 2500):
                bad = "stalled connections closed after %s..%s ms, header timeout is %d ms" % (
                    pr.get("closed_after_ms_min"), pr.get("closed_after_ms_max"), to_ms)
            elif pr.get("other_connection_status") != 200:
                bad = "another connection was not served while %s peers stalled" % pr.get("positions")
            name = "stall-after-k-bytes-v%s" % pr.get("header_version")
        elif name == "stall-5.6s-then-complete-header":
            if pr.get("status") != 200 or pr.get("xff") != "7.7.7.7":
                bad = ("on a listener with ReadHeaderTimeout 0 (no limit) a v%s header completed after a 5.6 s stall was not served "
                       "with the advertised address: status %s xff %s %s" % (pr.get("header_version"), pr.get("status"), pr.get("xff"), pr.get("error", "")))
            name = "no-limit-stall-then-complete-v%s" % pr.get("header_version")
        elif name == "after-all":
            if pr.get("status") != 200 or pr.get("xff") != "9.9.9.9":
                bad = "after the timeout probes a well-formed connection got status %s xff %s" % (pr.get("status"), pr.get("xff"))
        if pr.get("listener"):
            name = "%s-%s-listener" % (name, pr.get("listener"))
        if bad:
            out.append((name, bad, pr))
    return out


def rerun_alone(ctx, hb, replay_obj, sub):
    """Run one recorded case / probe set alone (harness -replay) in a sub-directory; returns its meta (with the
    evaluated failures under '_prop_bad')."""
    d = os.path.join(ctx.work, sub)
    os.makedirs(d, exist_ok=True)
    inner = os.path.join(d, "replay_in.json")
    json.dump(replay_obj, open(inner, "w"))
    rc, out = common.sh([hb, "-seed", str(ctx.seed), "-tier", ctx.tier, "-out", d, "-replay", inner], timeout=300)
    mp = os.path.join(d, "meta.json")
    if rc != 0 or not os.path.exists(mp):
        return {"_failed": out[-300:]}
    m = json.load(open(mp))
    bad = []
    kinds = m.get("kinds") or []
    shards = [s for k in kinds for s in k["shards"]]
    if shards:
        res = ctx.coq_eval_shards(GROUP, d, shards, idents=("M", "P"), timeout=600)
        for k in kinds:
            for shard in k["shards"]:
                pv = ctx.parse_nlist((res.get(shard) or {}).get("P")) or []
                bad += list(zip(pv[0::2], pv[1::2]))
        if res["_errors"]:
            bad.append((-1, -1))
    m["_prop_bad"] = bad
    return m


def run(ctx):
    ob_failed = []
    # the harness is built and run in a second thread while the proofs are (re)checked
    import threading
    hres = {}
    replay_kind = None
    if ctx.replay:
        _rp = json.load(open(ctx.replay))
        replay_kind = (_rp.get("replay", _rp) or {}).get("kind")
        if replay_kind is None:
            replay_kind = "obligations"   # an obligation-unchecked / coqchk replay: re-check the proofs only

    def _harness():
        hb_, hlog_ = ctx.build_harness("c08")
        hres["hb"], hres["hlog"] = hb_, hlog_
        if hb_ is None or replay_kind in ("race", "obligations"):
            return
        args = [hb_, "-seed", str(ctx.seed), "-tier", ctx.tier, "-out", ctx.work]
        if ctx.replay:
            rp = json.load(open(ctx.replay))
            inner = os.path.join(ctx.work, "replay_in.json")
            json.dump(rp.get("replay", rp), open(inner, "w"))
            args += ["-replay", inner]
        hres["rc"], hres["out"] = common.sh(args, timeout=1500)

    hthread = threading.Thread(target=_harness)
    hthread.start()
    ok, msg = ctx.tables(GROUP)
    if not ok:
        ctx.log("tables:", msg)
        ob_failed.append("translator(gen/tables g08): " + msg)
    ok, log, failed = ctx.coq_make(GROUP)
    part_files = set(PROP_PARTS) | {PROP_FILE}
    core_broken = [f for f in failed if f not in part_files and not f.startswith("Ob")]
    for f in failed:      # never leave a stale .vo of a file that no longer compiles behind
        try:
            os.remove(os.path.join(common.VERIF, "coq", GROUP, f[:-2] + ".vo"))
        except OSError:
            pass
    if not ok:
        ctx.log("coq build problems in:", failed)
    bad_words = common.forbidden_words([os.path.join(common.VERIF, "coq", "lib"),
                                        os.path.join(common.VERIF, "coq", GROUP)])
    if bad_words:
        ob_failed.append("forbidden vernacular: " + "; ".join(bad_words))
    import re as _re
    from concurrent.futures import ThreadPoolExecutor as _TPE
    # table obligations: one per file Ob*.v
    gdir = os.path.join(common.VERIF, "coq", GROUP)
    ob_names, ob_ok = [], []
    for fn in sorted(os.listdir(gdir)):
        if fn.startswith("Ob") and fn.endswith(".v"):
            for name in _re.findall(r"\bLemma\s+(ob_[A-Za-z0-9_']+)", common.strip_coq_comments(open(os.path.join(gdir, fn)).read())):
                ob_names.append(name)
                if fn in failed or not os.path.exists(os.path.join(gdir, fn[:-2] + ".vo")):
                    ob_failed.append("table obligation %s (%s) no longer checks: the source no longer has the shape the proofs need" % (name, fn))
                else:
                    ob_ok.append(name)
    # property theorems: the parts are checked one by one, so that a failing obligation un-discharges only its dependants
    with _TPE(max_workers=len(PROP_PARTS)) as ex:
        infos = list(ex.map(lambda f: ctx.check_theorems(GROUP, f), PROP_PARTS))
    info = {"theorems": [], "discharged": [], "assumptions": {}, "rc": 0}
    for f, inf in zip(PROP_PARTS, infos):
        info["theorems"] += inf["theorems"]
        info["discharged"] += inf["discharged"]
        info["assumptions"].update(inf["assumptions"])
        if inf["rc"] != 0:
            info["rc"] = 1
            ob_failed.append("theorems %s in %s are not discharged: %s" % (
                ", ".join(inf["theorems"]), f, " ".join(inf["log"].split())[-300:]))
    if core_broken:
        ob_failed.append("model/proof files do not compile: %s\n%s" % (core_broken, log[-1500:]))
    ctx.log("theorems: %d/%d discharged, table obligations: %d/%d" % (
        len(info["discharged"]), len(info["theorems"]), len(ob_ok), len(ob_names)))
    undischarged = [t for t in info["theorems"] if t not in info["discharged"]]

    coqchk = None
    if ctx.tier == "thorough" and not ctx.replay and info["rc"] == 0:
        # independent re-check of the compiled development (C08.v requires every part) by coqchk, and its axiom summary
        coqchk = ctx.coqchk(GROUP, ["C08"])
        good = coqchk.get("ok") and all(coqchk.get(k) == "<none>" for k in ("axioms", "type_in_type", "unsafe_fixpoints", "positivity_assumed"))
        if not good:
            ob_failed.append("coqchk did not confirm an axiom-free development: " + str(coqchk)[:400])
        ctx.log("coqchk:", "ok, no axioms" if good else str(coqchk)[:300])

    hthread.join()
    hb, hlog = hres.get("hb"), hres.get("hlog", "")
    meta = {}
    model_bad = []      # (kind, case)
    prop_bad = []       # (kind, verdict, case)
    branches = collections.Counter()
    if hb is None:
        ob_failed.append("harness does not build against the source tree: " + hlog[-800:])
    elif replay_kind in ("race", "obligations"):
        meta = {"kinds": []}
    else:
        rc, out = hres.get("rc", 1), hres.get("out", "")
        if ctx.replay:
            ctx.log(out.strip()[-600:])
        if rc != 0:
            ob_failed.append("harness failed: " + out[-800:])
        else:
            meta = json.load(open(os.path.join(ctx.work, "meta.json")))
            meta["kinds"] = meta.get("kinds") or []
            ctx.log("harness: %d reader, %d v2-sweep, %d token, %d connection, %s e2e cases" % (
                meta.get("reader_cases", 0), meta.get("v2_sweep_cases", 0), meta.get("token_cases", 0),
                meta.get("conn_cases", 0), (meta.get("e2e") or {}).get("cases", 0)))
            shards = [s for k in meta["kinds"] for s in k["shards"]]
            res = ctx.coq_eval_shards(GROUP, ctx.work, shards, idents=("M", "P"), timeout=1200)
            for shard, lg in res["_errors"]:
                ob_failed.append("correspondence shard %s did not evaluate: %s" % (shard, lg[-600:]))
            for k in meta["kinds"]:
                src = load_jsonl(os.path.join(ctx.work, k["jsonl"]))
                for si, shard in enumerate(k["shards"]):
                    r = res.get(shard) or {}
                    base = si * k["shard_size"]
                    for i in (ctx.parse_nlist(r.get("M")) or []):
                        model_bad.append((k["kind"], src[base + i] if base + i < len(src) else {"index": base + i}))
                    pv = ctx.parse_nlist(r.get("P")) or []
                    for i, v in zip(pv[0::2], pv[1::2]):
                        prop_bad.append((k["kind"], v, src[base + i] if base + i < len(src) else {"index": base + i}))
    ctx.log("evaluated: %d model mismatches, %d oracle failures" % (len(model_bad), len(prop_bad)))

    # ---- decide (DESIGN.md 2.2): group oracle failures by key, report the smallest input of each
    groups = collections.defaultdict(list)
    for kind, v, case in prop_bad:
        raw = case_bytes(case)
        if kind in ("rcases", "vcases"):
            key = reader_key(v, raw)
            if str(case.get("err", "")).startswith("PANIC"):
                key = "readheader-panics"
            if case.get("kind") == "reader-history":
                key += ":after-later-headers-were-read"
        elif kind == "ccases":
            key = CONN_VERDICTS.get(v, "conn-verdict-%d" % v)
        elif kind == "ocases":
            key = OPS_VERDICTS.get(v, "ops-verdict-%d" % v)
        elif kind == "lcases":
            key = CONN_VERDICTS.get(v, "conn-verdict-%d" % v) + ":while-the-listener-rate-limit-is-exhausted"
        elif kind == "hcases":
            key = CONN_VERDICTS.get(v, "conn-verdict-%d" % v) + ":after-later-headers-were-read"
        elif kind == "ecases":
            key = E2E_VERDICTS.get(v, "e2e-verdict-%d" % v) + ((":%s-listener" % case.get("note")) if case.get("note") in ("tls", "ratelimit", "ratelimit+tls") else "")
        else:
            key = "%s-verdict-%d" % (kind, v)
        groups[key].append((len(raw), case))
    for key in sorted(groups):
        lst = sorted(groups[key], key=lambda t: (t[0], json.dumps(t[1], sort_keys=True)))
        n, case = lst[0]
        if key.startswith("e2e-") and hb is not None and not ctx.replay:
            # the full proxy in a child process is timing dependent: a failing case is re-run alone before it is reported
            confirmed = None
            for cand in lst[:3]:
                again = rerun_alone(ctx, hb, cand[1], "rerun-e2e")
                if again.get("_failed") or again.get("_prop_bad"):
                    confirmed = cand
                    break
            if confirmed is None:
                ctx.notes.append({"timing_dependent_scenarios_that_passed_when_rerun_alone": {"key": key, "cases": len(lst)}})
                continue
            n, case = confirmed
        ctx.violation(key, case, True,
                      "%d observations of the implementation fail the C08 oracle this way; smallest input (%d bytes): %r%s"
                      % (len(lst), n, case_bytes(case)[:80], (" note=" + case.get("note")) if case.get("note") else ""))
    # ---- thorough: the connection-level probes (concurrent RemoteAddr/LocalAddr/Read callers) under the race detector
    race = None
    if ((ctx.tier == "thorough" and not ctx.replay) or replay_kind == "race") and hb is not None:
        modfile = os.path.join(ctx.work, "go.mod")
        rbin = os.path.join(ctx.work, "harness-c08-race")
        env = common.go_env()
        env["CGO_ENABLED"] = "1"
        rc_b, out_b = common.sh([common.go_cmd(), "build", "-race", "-modfile=" + modfile, "-tags", "verif", "-o", rbin, "./cmd/c08"],
                                cwd=os.path.join(common.VERIF, "harness"), env=env, timeout=900)
        if rc_b != 0:
            race = {"built": False, "log": out_b[-300:]}
            ctx.notes.append({"race_build_failed": out_b[-300:]})
        else:
            rdir = os.path.join(ctx.work, "race")
            rc_r, out_r = common.sh([rbin, "-only", "conn", "-tier", "thorough", "-seed", str(ctx.seed), "-out", rdir], timeout=900)
            n_races = out_r.count("WARNING: DATA RACE")
            rmeta = json.load(open(os.path.join(rdir, "meta.json"))) if os.path.exists(os.path.join(rdir, "meta.json")) else {}
            race = {"built": True, "exit": rc_r, "data_races": n_races, "conn_observations": rmeta.get("conn_cases")}
            ctx.log("race detector on the connection probes: %d reports, exit %d" % (n_races, rc_r))
            if n_races or rc_r != 0:
                i = out_r.find("WARNING: DATA RACE")
                ctx.violation("data-race-in-conn", {"kind": "race", "report": out_r[i:i + 1500] if i >= 0 else out_r[-800:]}, True,
                              "the Go race detector reported %d data races while concurrent callers used one proxyproto.Conn" % n_races)

    # ---- header timeout probes (tested with tolerances, not proved); a failing probe is re-run alone before it is reported
    e2e_meta = meta.get("e2e") or {}
    flaky = []
    reruns = {}
    for name, bad, pr in judge_timeouts(e2e_meta.get("timeouts") or []):
        if hb is not None and not ctx.replay:
            lst_ = pr.get("listener", "")
            if lst_ not in reruns:
                reruns[lst_] = rerun_alone(ctx, hb, {"kind": "timeout", "note": lst_}, "rerun-timeout")
            again = reruns[lst_]
            bad2 = [x for x in judge_timeouts((again.get("e2e") or {}).get("timeouts") or []) if x[0] == name]
            if not bad2:
                flaky.append({"probe": name, "first_run": bad, "rerun_alone": "passed"})
                continue
            bad = bad + "; re-run alone: " + bad2[0][1]
        ctx.violation("timeout-" + str(name), {"kind": "timeout", "probe": name, "note": pr.get("listener", ""), "observed": pr}, True, bad)
    if flaky:
        ctx.notes.append({"timing_dependent_scenarios_that_passed_when_rerun_alone": flaky})

    if not prop_bad and model_bad:
        by_kind = collections.defaultdict(list)
        for kind, case in model_bad:
            by_kind[kind].append(case)
        for kind, lst in sorted(by_kind.items()):
            case = min(lst, key=lambda c: len(json.dumps(c)))
            ctx.violation("%s-correspondence" % kind,
                          dict(case, unchecked="correspondence model(g08)/implementation (%s)" % kind), False,
                          "%d cases where model and implementation differ although the oracle holds; smallest: %r"
                          % (len(lst), case_bytes(case)[:80]))
    elif model_bad:
        ctx.notes.append({"model_mismatches_alongside_oracle_failures": len(model_bad)})
    if ob_failed and not ctx.violations and not ctx.known_hits:
        ctx.violation("obligation-unchecked", dict(unchecked=ob_failed), False, ob_failed[0][:300])
    elif ob_failed:
        ctx.notes.append({"unchecked_obligations": ob_failed})

    e2e = meta.get("e2e") or {}
    evaluations = sum(k["cases"] for k in meta.get("kinds", []))
    nontriv = int(meta.get("reader_accepted", 0)) + int(meta.get("v2_sweep_accepted", 0)) + \
        int(meta.get("conn_cases_delivering_payload", 0)) + int(meta.get("ops_cases_delivering_payload", 0)) + int(meta.get("token_ips_accepted", 0)) + int(e2e.get("served", 0))
    coverage = {
        "obligations": len(info["theorems"]) + len(ob_names),
        "discharged": len(info["discharged"]) + len(ob_ok),
        "table_obligations": ob_names,
        "checker_cmd": "make -j16 (coq_makefile, full .vo) in coq/lib and coq/g08; coqc on the five property parts C08_*.v; coqc on %d cases shards (vm_compute)%s"
                       % (sum(len(k["shards"]) for k in meta.get("kinds", [])), ("; " + coqchk.get("cmd", "coqchk")) if coqchk else ""),
        "trusted_base": common.standard_trusted_base([
            "Print Assumptions per theorem: %s" % json.dumps(info["assumptions"]),
            "modelled, not verified: io.ReadFull / one-byte Read contract (rd n), net.ParseIP (Go 1.23 netip.ParseAddr, transcribed by hand "
            "and compared on every token), strconv.Atoi/ParseUint, net.IPv4/To16 normalisation, the goroutine/timeout wrapper of "
            "Conn.readHeaderContext (tested end to end only), connfu.Combine, the martian accept loop",
        ]),
        "theorems": info["theorems"],
        "theorems_not_discharged": undischarged,
        "coqchk": coqchk,
        "race_detector": race,
        "unchecked_obligations": ob_failed,
        "evaluations": evaluations,
        "distinct_nontrivial": nontriv,
        "rule": "reader: v1 lines = families x (good/bad/cross-family address pool)^2 x 2 port pairs + port-shape pool^2 x 4 address pairs "
                "+ line shapes/truncations/UNKNOWN/length-cap boundaries, v2 structured + truncations + length limits, mutated and random "
                "streams; each input is run under one Read, byte-by-byte, random and (boundary cases) every single cut, and every outcome "
                "that differs is emitted; histories: %s headers read one after the other / connections held open together, each re-examined "
                "after the later headers were read; v2 sweep: %s; tokens: net.ParseIP and the port parser on every string of length <= %s over "
                "{0,1,9,a,g,:,.,-,+} + generated addresses; connections: proxyproto.Conn over net.Pipe and proxyproto.Listener over TCP "
                "with segmented writes and concurrent RemoteAddr/LocalAddr callers; random sequences of Read(n)/Write/RemoteAddr/LocalAddr/Header "
                "calls on one Conn over a segmenting net.Conn; e2e: the full proxy in a child process. "
                "non-trivial = observations in which the implementation accepted a header / delivered payload / parsed an address / served a request"
                % (meta.get("history_cases"), meta.get("v2_sweep_domain"), meta.get("token_exhaustive_len")),
        "traces_validated_against_impl": evaluations,
        "segmentations_run": int(meta.get("reader_schedules_run", 0)),
        "outcomes_changed_by_segmentation": int(meta.get("reader_outcomes_changed_by_segmentation", 0)),
        "model_mismatches": len(model_bad),
        "property_failures_on_impl": len(prop_bad),
        "distribution": {k: meta.get(k) for k in ("reader_accepted", "reader_rejected", "reader_error_classes",
                                                   "reader_input_lengths", "v2_sweep_cases", "v2_sweep_accepted",
                                                   "token_cases", "token_ips_accepted", "conn_cases_tcp", "conn_cases_pipe",
                                                   "conn_cases_delivering_payload", "history_cases", "ops_cases", "ops_cases_delivering_payload")},
        "e2e": e2e,
        "samples": meta.get("samples"),
    }
    ctx.finish("proof", coverage, [
        "the theorems are about the Gallina model of the reader; the model is tied to the code by gen/tables (all slice bounds, "
        "signatures, family/command bytes, limits and repair shapes) and by the differential run above",
        "the reader uses only io.ReadFull and one-byte Reads; a Read never returns (0, nil) on the modelled streams",
        "header timeout, liveness of the process and of other connections are tested, not proved (partial)",
    ])
