module veriftables

go 1.23
