package main

import (
	"fmt"
	"go/ast"
	"go/token"
	"sort"
	"strings"
)

func init() { register("g11", genG11) }

// callsOnIdent lists, in source order, the names of the methods called on the identifier
// `id` inside the given statements.  Deferred calls and function literals are skipped
// (they do not run at that point of the sequential program).  Any other use of the
// identifier as a call argument is reported as "<escape:callee>" so that a connection
// handed to a helper function is never silently treated as "no call".
func (f *File) callsOnIdent(stmts []ast.Stmt, id string) []string {
	var out []string
	for _, s := range stmts {
		ast.Inspect(s, func(x ast.Node) bool {
			switch n := x.(type) {
			case *ast.DeferStmt, *ast.FuncLit, *ast.GoStmt:
				return false
			case *ast.CallExpr:
				if se, ok := n.Fun.(*ast.SelectorExpr); ok {
					if r, ok := se.X.(*ast.Ident); ok && r.Name == id {
						out = append(out, se.Sel.Name)
					}
				}
				for _, a := range n.Args {
					if r, ok := a.(*ast.Ident); ok && r.Name == id {
						out = append(out, "<escape:"+f.Src(n.Fun)+">")
					}
				}
			}
			return true
		})
	}
	return out
}

// durMs evaluates `N * time.Unit` (or time.Unit) to milliseconds.
func (f *File) durMs(e ast.Expr) (int64, error) {
	unit := func(x ast.Expr) (int64, bool) {
		switch f.Src(x) {
		case "time.Millisecond":
			return 1, true
		case "time.Second":
			return 1000, true
		case "time.Minute":
			return 60000, true
		case "time.Hour":
			return 3600000, true
		}
		return 0, false
	}
	if u, ok := unit(e); ok {
		return u, nil
	}
	if be, ok := e.(*ast.BinaryExpr); ok && be.Op == token.MUL {
		if n, ok := IntLit(be.X); ok {
			if u, ok := unit(be.Y); ok {
				return n * u, nil
			}
		}
		if n, ok := IntLit(be.Y); ok {
			if u, ok := unit(be.X); ok {
				return n * u, nil
			}
		}
	}
	return 0, fmt.Errorf("%s: duration expression %q not understood", f.Path, f.Src(e))
}

// kvIn finds `key: value` composite-literal entries anywhere inside n.
func (f *File) kvIn(n ast.Node) map[string]ast.Expr {
	out := map[string]ast.Expr{}
	ast.Inspect(n, func(x ast.Node) bool {
		if kv, ok := x.(*ast.KeyValueExpr); ok {
			if id, ok := kv.Key.(*ast.Ident); ok {
				if _, dup := out[id.Name]; !dup {
					out[id.Name] = kv.Value
				}
			}
		}
		return true
	})
	return out
}

func has(list []string, s string) bool {
	for _, x := range list {
		if x == s {
			return true
		}
	}
	return false
}

func indexOfPrefix(list []string, p string) int {
	for i, x := range list {
		if strings.HasPrefix(x, p) {
			return i
		}
	}
	return -1
}

func genG11(repo string, w *Out) error {
	w.Linef("(* ---- C15: timeouts and the accept loop ---- *)")
	px, err := Parse(repo, "internal/martian/proxy.go")
	if err != nil {
		return err
	}
	// ---- Serve: calls on conn between Accept and `go`
	serve, err := px.Func("Proxy.Serve")
	if err != nil {
		return err
	}
	var loop *ast.ForStmt
	for _, s := range serve.Body.List {
		if fs, ok := s.(*ast.ForStmt); ok {
			loop = fs
		}
	}
	if loop == nil {
		return fmt.Errorf("Serve: accept loop (for) not found")
	}
	acceptAt, goAt := -1, -1
	for i, s := range loop.Body.List {
		if as, ok := s.(*ast.AssignStmt); ok && len(as.Rhs) == 1 && px.Src(as.Rhs[0]) == "l.Accept()" && px.Src(as.Lhs[0]) == "conn" {
			acceptAt = i
		}
		if gs, ok := s.(*ast.GoStmt); ok && px.Src(gs.Call) == "p.handleLoop(conn)" {
			goAt = i
		}
	}
	if acceptAt < 0 || goAt < acceptAt {
		return fmt.Errorf("Serve: `conn, err := l.Accept()` … `go p.handleLoop(conn)` not found in the loop body")
	}
	if goAt != len(loop.Body.List)-1 {
		return fmt.Errorf("Serve: statements follow `go p.handleLoop(conn)` in the accept loop")
	}
	if c0, ok := loop.Body.List[0].(*ast.IfStmt); !ok || px.Src(c0.Cond) != "p.closing()" || acceptAt != 1 {
		return fmt.Errorf("Serve: loop does not start with `if p.closing() { return nil }` followed by Accept")
	}
	w.DefStrList("serve_pre_go_calls", px.callsOnIdent(loop.Body.List[acceptAt+1:goAt], "conn"))

	// ---- handleLoop: calls on conn before the TLS handshake
	hl, err := px.Func("Proxy.handleLoop")
	if err != nil {
		return err
	}
	hsAt := -1
	for i, s := range hl.Body.List {
		if strings.Contains(px.Src(s), "pc.maybeHandshakeTLS()") {
			hsAt = i
			break
		}
	}
	if hsAt < 0 {
		return fmt.Errorf("handleLoop: pc.maybeHandshakeTLS() not found")
	}
	// newProxyConn only stores the connection (checked here), so it is not an escape.
	pcf, err := Parse(repo, "internal/martian/proxy_conn.go")
	if err != nil {
		return err
	}
	npc, err := pcf.Func("newProxyConn")
	if err != nil {
		return err
	}
	for _, c := range pcf.callsOnIdent(npc.Body.List, "conn") {
		// the constructor may wrap the connection (bufio, io.LimitedReader literal) but must not call it
		if c != "<escape:bufio.NewReader>" && c != "<escape:bufio.NewWriter>" {
			return fmt.Errorf("newProxyConn: %s on the connection - not the plain constructor the model assumes", c)
		}
	}
	var preHs []string
	for _, c := range px.callsOnIdent(hl.Body.List[:hsAt], "conn") {
		if c != "<escape:newProxyConn>" {
			preHs = append(preHs, c)
		}
	}
	w.DefStrList("handleloop_pre_handshake_calls", preHs)

	// ---- idleTimeout / readHeaderTimeout fall back to ReadTimeout
	for _, x := range []struct{ fn, field, def string }{
		{"Proxy.idleTimeout", "IdleTimeout", "idle_fallback_read"},
		{"Proxy.readHeaderTimeout", "ReadHeaderTimeout", "rhdr_fallback_read"},
	} {
		fd, err := px.Func(x.fn)
		if err != nil {
			return err
		}
		got := px.Src(fd.Body)
		switch got {
		case fmt.Sprintf("{ if p.%s > 0 { return p.%s } return p.ReadTimeout }", x.field, x.field):
			w.DefBool(x.def, true)
		case fmt.Sprintf("{ return p.%s }", x.field):
			w.DefBool(x.def, false)
		default:
			return fmt.Errorf("%s: body %q is not a shape the model knows", x.fn, got)
		}
	}

	// ---- readRequest: the order of deadline calls
	pc, err := Parse(repo, "internal/martian/proxy_conn.go")
	if err != nil {
		return err
	}
	rr, err := pc.Func("proxyConn.readRequest")
	if err != nil {
		return err
	}
	var prog, defs []string
	guardEqual := false
	guardOther := ""
	ast.Inspect(rr.Body, func(x ast.Node) bool {
		switch n := x.(type) {
		case *ast.IfStmt:
			if strings.Contains(pc.Src(n.Body), "p.conn.SetReadDeadline(wholeReqDeadline)") && !strings.Contains(pc.Src(n.Cond), "deadlineErr") {
				// the statement that re-arms the deadline after the head sits under a condition
				if pc.Src(n.Cond) == "!hdrDeadline.Equal(wholeReqDeadline)" {
					guardEqual = true
				} else {
					guardOther = pc.Src(n.Cond)
				}
			}
			if n.Init != nil && len(n.Body.List) == 1 {
				if as, ok := n.Body.List[0].(*ast.AssignStmt); ok && strings.HasSuffix(pc.Src(as.Lhs[0]), "Deadline") {
					defs = append(defs, pc.Src(n.Init)+"; "+pc.Src(n.Cond)+" => "+pc.Src(as))
				}
			}
		case *ast.AssignStmt:
			if len(n.Lhs) == 1 && pc.Src(n.Lhs[0]) == "t0" {
				prog = append(prog, "t0="+pc.Src(n.Rhs[0]))
			}
		case *ast.CallExpr:
			s := pc.Src(n.Fun)
			switch s {
			case "p.conn.SetReadDeadline":
				prog = append(prog, "set:"+pc.Src(n.Args[0]))
			case "p.brw.Peek":
				prog = append(prog, "peek:"+pc.Src(n.Args[0]))
			case "http.ReadRequest":
				prog = append(prog, "readrequest")
			}
		}
		return true
	})
	w.DefStrList("read_request_prog", prog)
	w.DefStrList("read_request_deadline_defs", defs)
	wantProg := []string{"set:idleDeadline", "peek:1", "t0=time.Now()", "set:hdrDeadline", "readrequest", "set:wholeReqDeadline"}
	if strings.Join(prog, "|") != strings.Join(wantProg, "|") {
		// the model has one transcription of readRequest; the obligation ob_read_request_prog names the difference
		w.Linef("(* read_request_prog differs from the transcribed order %q *)", comment(strings.Join(wantProg, "|")))
	}
	if guardOther != "" {
		return fmt.Errorf("readRequest: the deadline is re-armed after the head under the condition %q, which is not a shape the model knows", guardOther)
	}
	w.DefBool("whole_set_guard_equal", guardEqual)

	// ---- maybeHandshakeTLS
	mh, err := pc.Func("proxyConn.maybeHandshakeTLS")
	if err != nil {
		return err
	}
	mhSrc := pc.Src(mh.Body)
	if !strings.Contains(mhSrc, "tconn.HandshakeContext(ctx)") || !strings.Contains(mhSrc, "tconn, ok := p.conn.(*tls.Conn)") {
		return fmt.Errorf("maybeHandshakeTLS: `tconn, ok := p.conn.(*tls.Conn)` … `tconn.HandshakeContext(ctx)` not found")
	}
	ltlsGuard := false
	ast.Inspect(mh.Body, func(x ast.Node) bool {
		if is, ok := x.(*ast.IfStmt); ok && pc.Src(is.Cond) == "p.TLSHandshakeTimeout > 0" &&
			strings.Contains(pc.Src(is.Body), "context.WithTimeout(context.Background(), p.TLSHandshakeTimeout)") {
			ltlsGuard = true
		}
		return true
	})
	w.DefBool("ltls_timeout_guarded", ltlsGuard)

	// ---- handleMITM
	hm, err := pc.Func("proxyConn.handleMITM")
	if err != nil {
		return err
	}
	mitmGuard := false
	ast.Inspect(hm.Body, func(x ast.Node) bool {
		if is, ok := x.(*ast.IfStmt); ok && pc.Src(is.Cond) == "p.MITMTLSHandshakeTimeout > 0" &&
			strings.Contains(pc.Src(is.Body), "context.WithTimeout(ctx, p.MITMTLSHandshakeTimeout)") {
			mitmGuard = true
		}
		return true
	})
	if !strings.Contains(pc.Src(hm.Body), "tlsconn.HandshakeContext(hctx)") {
		return fmt.Errorf("handleMITM: tlsconn.HandshakeContext(hctx) not found")
	}
	w.DefBool("mitm_timeout_guarded", mitmGuard)
	// read deadline around the Peek(1) that waits for the client hello:
	//   SetReadDeadline(<now + MITMTLSHandshakeTimeout>) before it, SetReadDeadline(time.Time{}) after it
	var mprog []string
	ast.Inspect(hm.Body, func(x ast.Node) bool {
		if ce, ok := x.(*ast.CallExpr); ok {
			switch pc.Src(ce.Fun) {
			case "p.conn.SetReadDeadline":
				mprog = append(mprog, "set:"+pc.Src(ce.Args[0]))
			case "p.brw.Peek":
				mprog = append(mprog, "peek:"+pc.Src(ce.Args[0]))
			case "tlsconn.HandshakeContext":
				mprog = append(mprog, "handshake")
			}
		}
		return true
	})
	w.DefStrList("mitm_prog", mprog)
	pk := indexOfPrefix(mprog, "peek:")
	if pk < 0 {
		return fmt.Errorf("handleMITM: p.brw.Peek not found")
	}
	switch {
	case pk == 0:
		w.DefBool("mitm_peek_deadline", false)
	case pk == 1 && strings.Contains(mprog[0], "p.MITMTLSHandshakeTimeout") && len(mprog) > 2 && mprog[2] == "set:time.Time{}":
		w.DefBool("mitm_peek_deadline", true)
	default:
		return fmt.Errorf("handleMITM: deadline calls around Peek %q are not a shape the model knows", mprog)
	}

	// ---- proxyproto.Conn: which methods wait for the header; what the timer does
	pp, err := Parse(repo, "proxyproto/net.go")
	if err != nil {
		return err
	}
	callsOf := map[string][]string{}
	for _, d := range pp.AST.Decls {
		fd, ok := d.(*ast.FuncDecl)
		if !ok || fd.Recv == nil || len(fd.Recv.List) != 1 || pp.Src(fd.Recv.List[0].Type) != "*Conn" {
			continue
		}
		recv := fd.Recv.List[0].Names[0].Name
		ast.Inspect(fd.Body, func(x ast.Node) bool {
			if ce, ok := x.(*ast.CallExpr); ok {
				if se, ok := ce.Fun.(*ast.SelectorExpr); ok {
					if r, ok := se.X.(*ast.Ident); ok && r.Name == recv {
						callsOf[fd.Name.Name] = append(callsOf[fd.Name.Name], se.Sel.Name)
					}
				}
			}
			return true
		})
		if _, ok := callsOf[fd.Name.Name]; !ok {
			callsOf[fd.Name.Name] = nil
		}
	}
	if _, ok := callsOf["readHeaderContext"]; !ok {
		return fmt.Errorf("proxyproto.Conn.readHeaderContext not found")
	}
	reach := map[string]bool{"readHeaderContext": true}
	for changed := true; changed; {
		changed = false
		for m, cs := range callsOf {
			if reach[m] {
				continue
			}
			for _, c := range cs {
				if reach[c] {
					reach[m], changed = true, true
				}
			}
		}
	}
	var blocking []string
	for m := range reach {
		if ast.IsExported(m) {
			blocking = append(blocking, m)
		}
	}
	sort.Strings(blocking)
	w.DefStrList("pp_blocking_methods", blocking)
	rh, err := pp.Func("Conn.readHeaderContext")
	if err != nil {
		return err
	}
	ppTimer, ppCloses, ppFromCall := false, false, false
	ast.Inspect(rh.Body, func(x ast.Node) bool {
		switch n := x.(type) {
		case *ast.IfStmt:
			if pp.Src(n.Cond) == "c.readHeaderTimeout > 0" && strings.Contains(pp.Src(n.Body), "context.WithTimeout(ctx, c.readHeaderTimeout)") {
				ppTimer = true
			}
		case *ast.CommClause:
			if n.Comm != nil && pp.Src(n.Comm) == "<-ctx.Done()" && strings.Contains(pp.Src(n), "c.Conn.Close()") {
				ppCloses = true
			}
		case *ast.AssignStmt:
			if pp.Src(n) == "t0 := time.Now()" {
				ppFromCall = true
			}
		}
		return true
	})
	w.DefBool("pp_timeout_closes_conn", ppTimer && ppCloses)
	w.DefBool("pp_timer_starts_at_first_call", ppFromCall)

	// ---- defaults (milliseconds) and wiring of the configuration
	hp, err := Parse(repo, "http_proxy.go")
	if err != nil {
		return err
	}
	dc, err := hp.Func("DefaultHTTPProxyConfig")
	if err != nil {
		return err
	}
	kv := hp.kvIn(dc.Body)
	for _, x := range []struct{ key, def string }{
		{"IdleTimeout", "default_idle_ms"}, {"ReadHeaderTimeout", "default_rhdr_ms"},
		{"ReadTimeout", "default_read_ms"}, {"HandshakeTimeout", "default_tls_ms"},
	} {
		var ms int64
		if e, ok := kv[x.key]; ok {
			if ms, err = hp.durMs(e); err != nil {
				return err
			}
		}
		w.DefZ(x.def, ms)
	}
	nf, err := Parse(repo, "net.go")
	if err != nil {
		return err
	}
	dp, err := nf.Func("DefaultProxyProtocolConfig")
	if err != nil {
		return err
	}
	var ppms int64
	if e, ok := nf.kvIn(dp.Body)["ReadHeaderTimeout"]; ok {
		if ppms, err = nf.durMs(e); err != nil {
			return err
		}
	}
	w.DefZ("default_pp_ms", ppms)
	cp, err := hp.Func("HTTPProxy.configureProxy")
	if err != nil {
		return err
	}
	var wiring []string
	ast.Inspect(cp.Body, func(x ast.Node) bool {
		if as, ok := x.(*ast.AssignStmt); ok && len(as.Lhs) == 1 {
			l := hp.Src(as.Lhs[0])
			if strings.HasPrefix(l, "hp.proxy.") && strings.HasSuffix(l, "Timeout") {
				wiring = append(wiring, strings.TrimPrefix(l, "hp.proxy.")+"="+strings.TrimPrefix(hp.Src(as.Rhs[0]), "hp.config."))
			}
		}
		return true
	})
	ll, err := nf.Func("Listener.Listen")
	if err != nil {
		return err
	}
	if e, ok := nf.kvIn(ll.Body)["ReadHeaderTimeout"]; ok {
		wiring = append(wiring, "proxyproto.ReadHeaderTimeout="+nf.Src(e))
	}
	w.DefStrList("timeout_wiring", wiring)
	// listener stacking: wrappers in the order they are applied (innermost first)
	var stackOrder []string
	la, err := nf.Func("Listener.Accept")
	if err != nil {
		return err
	}
	for _, fd := range []*ast.FuncDecl{ll, la} {
		ast.Inspect(fd.Body, func(x ast.Node) bool {
			switch n := x.(type) {
			case *ast.CompositeLit:
				t := nf.Src(n.Type)
				if t == "proxyproto.Listener" || t == "conntrack.Builder" {
					stackOrder = append(stackOrder, t)
				}
			case *ast.CallExpr:
				t := nf.Src(n.Fun)
				if t == "ratelimit.NewListener" || t == "tls.Server" {
					stackOrder = append(stackOrder, t)
				}
			}
			return true
		})
	}
	w.DefStrList("listener_stacking", stackOrder)

	// ---- the Accept methods of the listener wrappers run inside the accept loop as well: the
	// calls they make on the freshly accepted connection (anything but handing it to a wrapper
	// constructor known not to touch the socket) are listed like those of Serve
	rl, err := Parse(repo, "ratelimit/listener.go")
	if err != nil {
		return err
	}
	wrapperCtors := map[string]bool{
		"connfu.Combine": true, "connfu.CombineWithConfig": true, "tls.Server": true,
		"conntrack.Builder{ TrackTraffic: l.TrackTraffic, OnClose: l.metrics.close, }.Build": true,
	}
	var accCalls []string
	for _, x := range []struct {
		f  *File
		fn string
	}{{nf, "Listener.Accept"}, {pp, "Listener.Accept"}, {rl, "Listener.Accept"}} {
		fd, err := x.f.Func(x.fn)
		if err != nil {
			return err
		}
		for _, id := range []string{"c", "conn", "pc"} {
			for _, c := range x.f.callsOnIdent(fd.Body.List, id) {
				if strings.HasPrefix(c, "<escape:") && wrapperCtors[strings.TrimSuffix(strings.TrimPrefix(c, "<escape:"), ">")] {
					continue
				}
				accCalls = append(accCalls, x.f.Path+":"+c)
			}
		}
	}
	w.DefStrList("listener_accept_calls", accCalls)

	// ---- a rate-limited listener: ratelimit.Conn.Read must take tokens for the bytes it RECEIVED, after
	// the read; charging the buffer size before the read would make every parked (stalled) connection hold
	// tokens of the bucket all connections of the listener share
	rc, err := Parse(repo, "ratelimit/conn.go")
	if err != nil {
		return err
	}
	for _, x := range []struct{ fn, def string }{{"Conn.Read", "ratelimit_read_prog"}, {"Conn.Write", "ratelimit_write_prog"}} {
		fd, err := rc.Func(x.fn)
		if err != nil {
			return err
		}
		var prog []string
		for _, c := range rc.CallsIn(fd.Body) {
			if strings.HasPrefix(c, "c.Conn.") || strings.Contains(c, "Limiter.") {
				prog = append(prog, c)
			}
		}
		w.DefStrList(x.def, prog)
	}
	return genG11Shutdown(repo, w)
}
