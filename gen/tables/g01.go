package main

// Translator for proof group g01 (C18 loop refusal via Via, C01 forwarded
// HTTP/1 requests).  Reads the current sources of
//   internal/martian/header/{via,hopbyhop,forwarded,framing}_modifier.go
//   internal/martian/httpspec/httpspec.go, internal/martian/proxy_conn.go,
//   internal/martian/proxy.go, http_proxy.go, http_proxy_errors.go
// and emits constants, orders of calls and code-shape flags.  Every helper in
// this file is prefixed g01 (the package is shared with other groups).

import (
	"fmt"
	"go/ast"
	"go/token"
	"strconv"
	"strings"
)

func init() { register("g01", genG01) }

func genG01(repo string, w *Out) error {
	if err := g01Via(repo, w); err != nil {
		return err
	}
	if err := g01Stack(repo, w); err != nil {
		return err
	}
	if err := g01Errors(repo, w); err != nil {
		return err
	}
	if err := g01Handle(repo, w); err != nil {
		return err
	}
	return g01Pipeline(repo, w)
}

// ---------------------------------------------------------------- helpers

func g01ConstString(f *File, name string) (string, error) {
	e, err := f.ValueSpec(name)
	if err != nil {
		return "", err
	}
	s, ok := StringLit(e)
	if !ok {
		return "", fmt.Errorf("%s: %s is not a string literal", f.Path, name)
	}
	return s, nil
}

// g01Stmts flattens a block into the list of all statements in source order (nested included).
func g01Stmts(n ast.Node) []ast.Stmt {
	var out []ast.Stmt
	ast.Inspect(n, func(x ast.Node) bool {
		if s, ok := x.(ast.Stmt); ok {
			if _, isBlock := s.(*ast.BlockStmt); !isBlock {
				out = append(out, s)
			}
		}
		return true
	})
	return out
}

func g01Calls(n ast.Node) []*ast.CallExpr {
	var out []*ast.CallExpr
	ast.Inspect(n, func(x ast.Node) bool {
		if ce, ok := x.(*ast.CallExpr); ok {
			out = append(out, ce)
		}
		return true
	})
	return out
}

func g01PairList(ps [][2]string) string {
	if len(ps) == 0 {
		return "(@nil (N * list N))"
	}
	parts := make([]string, len(ps))
	for i, p := range ps {
		parts[i] = "(" + p[0] + ", " + CoqStr(p[1]) + ")"
	}
	return "[" + strings.Join(parts, "; ") + "]"
}

// ---------------------------------------------------------------- via_modifier.go

func g01Via(repo string, w *Out) error {
	f, err := Parse(repo, "internal/martian/header/via_modifier.go")
	if err != nil {
		return err
	}
	consts := map[string]string{}
	for _, n := range []string{"h20Prefix", "h11Prefix", "h10Prefix"} {
		s, err := g01ConstString(f, n)
		if err != nil {
			return err
		}
		consts[n] = s
	}
	// randomBoundary: var buf [N]byte ... hex.EncodeToString(buf[:])
	rb, err := f.Func("randomBoundary")
	if err != nil {
		return err
	}
	nbytes := int64(-1)
	ast.Inspect(rb.Body, func(x ast.Node) bool {
		if at, ok := x.(*ast.ArrayType); ok && at.Len != nil {
			if v, ok := IntLit(at.Len); ok {
				nbytes = v
			}
		}
		return true
	})
	hexEnc, randRead := false, false
	for _, c := range f.CallsIn(rb.Body) {
		if strings.HasPrefix(c, "hex.EncodeToString(") {
			hexEnc = true
		}
		if strings.HasPrefix(c, "io.ReadFull(rand.Reader,") || strings.HasPrefix(c, "rand.Read(") {
			randRead = true
		}
	}
	if nbytes < 0 || !hexEnc || !randRead {
		return fmt.Errorf("randomBoundary: expected [N]byte filled from crypto/rand and hex.EncodeToString (N=%d hex=%v rand=%v)", nbytes, hexEnc, randRead)
	}
	w.DefN("via_boundary_bytes", uint64(nbytes))
	// NewViaModifier must use randomBoundary()
	nv, err := f.Func("NewViaModifier")
	if err != nil {
		return err
	}
	usesRandom := false
	for _, c := range f.CallsIn(nv.Body) {
		if c == "NewViaModifierWithBoundary(requestedBy, randomBoundary())" {
			usesRandom = true
		}
	}
	if !usesRandom {
		return fmt.Errorf("NewViaModifier: does not call NewViaModifierWithBoundary(requestedBy, randomBoundary())")
	}
	// tag construction
	nb, err := f.Func("NewViaModifierWithBoundary")
	if err != nil {
		return err
	}
	sep, found := "", false
	ast.Inspect(nb.Body, func(x ast.Node) bool {
		kv, ok := x.(*ast.KeyValueExpr)
		if !ok || f.Src(kv.Key) != "tag" {
			return true
		}
		// requestedBy + SEP + boundary
		if be, ok := kv.Value.(*ast.BinaryExpr); ok && be.Op == token.ADD && f.Src(be.Y) == "boundary" {
			if be2, ok := be.X.(*ast.BinaryExpr); ok && be2.Op == token.ADD && f.Src(be2.X) == "requestedBy" {
				if s, ok := StringLit(be2.Y); ok {
					sep, found = s, true
				}
			}
		}
		return true
	})
	if !found {
		return fmt.Errorf("NewViaModifierWithBoundary: tag is not requestedBy + <literal> + boundary")
	}
	w.DefStr("via_tag_sep", sep)

	mr, err := f.Func("ViaModifier.ModifyRequest")
	if err != nil {
		return err
	}
	// 1. how the received chain is read
	viaVar, readAll, readFound := "", false, false
	for _, s := range mr.Body.List {
		as, ok := s.(*ast.AssignStmt)
		if !ok || len(as.Lhs) != 1 || len(as.Rhs) != 1 {
			continue
		}
		rhs := f.Src(as.Rhs[0])
		if !strings.Contains(rhs, `"Via"`) {
			continue
		}
		viaVar = f.Src(as.Lhs[0])
		switch rhs {
		case `req.Header.Get("Via")`:
			readAll, readFound = false, true
		case `strings.Join(req.Header.Values("Via"), ", ")`, `strings.Join(req.Header["Via"], ", ")`:
			readAll, readFound = true, true
		}
		break
	}
	if !readFound {
		return fmt.Errorf("ViaModifier.ModifyRequest: how Via is read is not a shape the model knows (var %q)", viaVar)
	}
	w.DefBool("via_reads_all_lines", readAll)
	// 2. if via != "" { if strings.Contains(via, m.tag) { req.Close = true; return martian.ErrorStatus{... Status: N} } sb.WriteString(via); sb.WriteString(", ") }
	var outerIf *ast.IfStmt
	for _, s := range mr.Body.List {
		if is, ok := s.(*ast.IfStmt); ok && f.Src(is.Cond) == viaVar+` != ""` {
			outerIf = is
		}
	}
	if outerIf == nil || outerIf.Else != nil {
		return fmt.Errorf("ViaModifier.ModifyRequest: `if %s != \"\" {…}` not found", viaVar)
	}
	var innerIf *ast.IfStmt
	var afterInner []string
	for _, s := range outerIf.Body.List {
		if is, ok := s.(*ast.IfStmt); ok && innerIf == nil {
			innerIf = is
			continue
		}
		afterInner = append(afterInner, f.Src(s))
	}
	if innerIf == nil || f.Src(innerIf.Cond) != "strings.Contains("+viaVar+", m.tag)" || innerIf.Else != nil {
		return fmt.Errorf("ViaModifier.ModifyRequest: loop test is not strings.Contains(%s, m.tag)", viaVar)
	}
	setsClose, status, returns := false, int64(-1), false
	for i, s := range innerIf.Body.List {
		if f.Src(s) == "req.Close = true" {
			setsClose = true
		}
		if rs, ok := s.(*ast.ReturnStmt); ok && i == len(innerIf.Body.List)-1 && len(rs.Results) == 1 {
			if cl, ok := rs.Results[0].(*ast.CompositeLit); ok && f.Src(cl.Type) == "martian.ErrorStatus" {
				for _, e := range cl.Elts {
					if kv, ok := e.(*ast.KeyValueExpr); ok && f.Src(kv.Key) == "Status" {
						switch v := kv.Value.(type) {
						case *ast.BasicLit:
							if n, ok := IntLit(v); ok {
								status, returns = n, true
							}
						case *ast.SelectorExpr:
							if f.Src(v) == "http.StatusBadRequest" {
								status, returns = 400, true
							}
						}
					}
				}
			}
		}
	}
	if !returns {
		return fmt.Errorf("ViaModifier.ModifyRequest: loop branch does not end in `return martian.ErrorStatus{…, Status: <int>}`")
	}
	w.DefN("via_loop_status", uint64(status))
	w.DefBool("via_sets_close", setsClose)
	if len(afterInner) != 2 || afterInner[0] != "sb.WriteString("+viaVar+")" {
		return fmt.Errorf("ViaModifier.ModifyRequest: after the loop test expected sb.WriteString(%s); sb.WriteString(<sep>), got %q", viaVar, afterInner)
	}
	var joinSep string
	{
		es, _ := outerIf.Body.List[len(outerIf.Body.List)-1].(*ast.ExprStmt)
		ok := false
		if es != nil {
			if ce, isCall := es.X.(*ast.CallExpr); isCall && f.Src(ce.Fun) == "sb.WriteString" && len(ce.Args) == 1 {
				joinSep, ok = StringLit(ce.Args[0])
			}
		}
		if !ok {
			return fmt.Errorf("ViaModifier.ModifyRequest: separator written after the received chain is not a string literal")
		}
	}
	w.DefStr("via_join_sep", joinSep)
	// 3. the protocol switch
	var sw *ast.SwitchStmt
	for _, s := range mr.Body.List {
		if x, ok := s.(*ast.SwitchStmt); ok {
			sw = x
		}
	}
	if sw == nil || f.Src(sw.Tag) != "req.ProtoMajor*10 + req.ProtoMinor" {
		return fmt.Errorf("ViaModifier.ModifyRequest: switch req.ProtoMajor*10 + req.ProtoMinor not found")
	}
	var arms [][2]string
	hasDefault := false
	for _, c := range sw.Body.List {
		cc := c.(*ast.CaseClause)
		if cc.List == nil {
			if len(cc.Body) != 1 || f.Src(cc.Body[0]) != `fmt.Fprintf(&sb, "%d.%d", req.ProtoMajor, req.ProtoMinor)` {
				return fmt.Errorf("ViaModifier.ModifyRequest: default protocol arm is not fmt.Fprintf(&sb, \"%%d.%%d\", major, minor)")
			}
			hasDefault = true
			continue
		}
		if len(cc.List) != 1 || len(cc.Body) != 1 {
			return fmt.Errorf("ViaModifier.ModifyRequest: protocol arm shape")
		}
		n, ok := IntLit(cc.List[0])
		if !ok {
			return fmt.Errorf("ViaModifier.ModifyRequest: protocol arm label is not an int literal")
		}
		body := f.Src(cc.Body[0])
		txt := ""
		matched := false
		for name, val := range consts {
			if body == "sb.WriteString("+name+")" {
				txt, matched = val, true
			}
		}
		if !matched {
			if es, ok := cc.Body[0].(*ast.ExprStmt); ok {
				if ce, ok := es.X.(*ast.CallExpr); ok && f.Src(ce.Fun) == "sb.WriteString" && len(ce.Args) == 1 {
					txt, matched = StringLit(ce.Args[0])
				}
			}
		}
		if !matched {
			return fmt.Errorf("ViaModifier.ModifyRequest: protocol arm %d body %q is not sb.WriteString(<const>)", n, body)
		}
		arms = append(arms, [2]string{strconv.FormatInt(n, 10), txt})
	}
	if !hasDefault {
		return fmt.Errorf("ViaModifier.ModifyRequest: protocol switch has no default arm")
	}
	w.Linef("Definition via_proto_arms : list (N * str) := %s.", g01PairList(arms))
	// 4. tail: sb.WriteByte(' '); sb.WriteString(m.tag); req.Header.Set("Via", sb.String()); return nil
	var tail []string
	seenSwitch := false
	for _, s := range mr.Body.List {
		if _, ok := s.(*ast.SwitchStmt); ok {
			seenSwitch = true
			continue
		}
		if seenSwitch {
			tail = append(tail, f.Src(s))
		}
	}
	want := []string{"sb.WriteByte(' ')", "sb.WriteString(m.tag)", `req.Header.Set("Via", sb.String())`, "return nil"}
	if strings.Join(tail, " ; ") != strings.Join(want, " ; ") {
		return fmt.Errorf("ViaModifier.ModifyRequest: tail %q is not %q", tail, want)
	}
	return nil
}

// ---------------------------------------------------------------- httpspec.NewStack

// g01ModName resolves the argument of an Add*Modifier call to the constructor that made it.
func g01ModName(f *File, fn *ast.FuncDecl, arg ast.Expr) string {
	name := func(e ast.Expr) string {
		if ce, ok := e.(*ast.CallExpr); ok {
			s := f.Src(ce.Fun)
			if i := strings.LastIndex(s, "."); i >= 0 {
				s = s[i+1:]
			}
			return s
		}
		return ""
	}
	if n := name(arg); n != "" {
		return n
	}
	id, ok := arg.(*ast.Ident)
	if !ok {
		return f.Src(arg)
	}
	res := id.Name
	ast.Inspect(fn.Body, func(x ast.Node) bool {
		as, ok := x.(*ast.AssignStmt)
		if !ok {
			return true
		}
		for i, l := range as.Lhs {
			if li, ok := l.(*ast.Ident); ok && li.Name == id.Name {
				if len(as.Rhs) == len(as.Lhs) {
					if n := name(as.Rhs[i]); n != "" && n != "NewGroup" {
						res = n
					}
				}
			}
		}
		return true
	})
	return res
}

func g01Stack(repo string, w *Out) error {
	f, err := Parse(repo, "internal/martian/httpspec/httpspec.go")
	if err != nil {
		return err
	}
	fn, err := f.Func("NewStack")
	if err != nil {
		return err
	}
	var reqOrder, resOrder []string
	for _, ce := range g01Calls(fn.Body) {
		switch f.Src(ce.Fun) {
		case "outer.AddRequestModifier":
			reqOrder = append(reqOrder, g01ModName(f, fn, ce.Args[0]))
		case "outer.AddResponseModifier":
			resOrder = append(resOrder, g01ModName(f, fn, ce.Args[0]))
		}
	}
	if len(reqOrder) == 0 {
		return fmt.Errorf("httpspec.NewStack: no outer.AddRequestModifier calls found")
	}
	// the Via modifier must be built by header.NewViaModifier(via): a fresh random boundary for every stack
	// (NewViaModifierWithBoundary in NewStack means the boundary comes from somewhere else).
	fresh := false
	for i, n := range reqOrder {
		if n == "NewViaModifier" {
			fresh = true
		}
		if n == "NewViaModifierWithBoundary" {
			reqOrder[i] = "NewViaModifier"
		}
	}
	w.DefBool("stack_via_fresh_boundary", fresh)
	known := map[string]bool{"NewHopByHopModifier": true, "NewForwardedModifier": true, "NewBadFramingModifier": true, "NewViaModifier": true, "inner": true}
	for _, n := range reqOrder {
		if !known[n] {
			return fmt.Errorf("httpspec.NewStack: request modifier %q is not one the model knows", n)
		}
	}
	w.DefStrList("stack_request_order", reqOrder)
	w.DefStrList("stack_response_order", resOrder)
	return nil
}

// ---------------------------------------------------------------- errorResponse handler list

func g01Errors(repo string, w *Out) error {
	f, err := Parse(repo, "http_proxy_errors.go")
	if err != nil {
		return err
	}
	fn, err := f.Func("HTTPProxy.errorResponse")
	if err != nil {
		return err
	}
	var handlers []string
	ast.Inspect(fn.Body, func(x ast.Node) bool {
		cl, ok := x.(*ast.CompositeLit)
		if !ok || f.Src(cl.Type) != "[]errorHandler" {
			return true
		}
		for _, e := range cl.Elts {
			handlers = append(handlers, f.Src(e))
		}
		return false
	})
	if len(handlers) == 0 {
		return fmt.Errorf("errorResponse: []errorHandler{…} literal not found")
	}
	known := map[string]bool{"handleWindowsNetError": true, "handleNetError": true, "handleTLSRecordHeader": true,
		"handleTLSCertificateError": true, "handleTLSECHRejectionError": true, "handleTLSAlertError": true,
		"handleMartianErrorStatus": true, "handleAuthenticationError": true, "handleDenyError": true,
		"handleProhibitedError": true, "handleContextCancelationError": true, "handleStatusText": true}
	// Only the handlers consulted BEFORE handleMartianErrorStatus can pre-empt the status of the loop
	// error; each of those must be one that was read and found not to match a martian.ErrorStatus
	// wrapping a plain fmt error (no net.OpError, no Timeout() method, no TLS error type).
	known["handleTimeoutError"] = true
	for _, h := range handlers {
		if h == "handleMartianErrorStatus" {
			break
		}
		if !known[h] {
			return fmt.Errorf("errorResponse: handler %q precedes handleMartianErrorStatus and is not one the model knows", h)
		}
	}
	w.DefStrList("error_handlers", handlers)
	// first non-zero code wins: `code, msg, label = h(req, err); if code != 0 { break }`
	var loopOK bool
	ast.Inspect(fn.Body, func(x ast.Node) bool {
		rs, ok := x.(*ast.RangeStmt)
		if !ok || f.Src(rs.X) != "handlers" {
			return true
		}
		body := f.Src(rs.Body)
		loopOK = strings.Contains(body, "= h(req, err)") && strings.Contains(body, "if code != 0 { break }")
		return false
	})
	if !loopOK {
		return fmt.Errorf("errorResponse: loop `for _, h := range handlers { code… = h(req, err); if code != 0 { break } }` not found")
	}
	if !strings.Contains(f.Src(fn.Body), "proxyutil.NewResponse(code, &body, req)") {
		return fmt.Errorf("errorResponse: response is not built by proxyutil.NewResponse(code, &body, req)")
	}
	// handleMartianErrorStatus: code = martianErr.Status
	hm, err := f.Func("handleMartianErrorStatus")
	if err != nil {
		return err
	}
	src := f.Src(hm.Body)
	if !strings.Contains(src, "var martianErr martian.ErrorStatus") || !strings.Contains(src, "errors.As(err, &martianErr)") ||
		!strings.Contains(src, "code = martianErr.Status") {
		return fmt.Errorf("handleMartianErrorStatus: not `errors.As(err, &martianErr) → code = martianErr.Status`")
	}
	return nil
}

// ---------------------------------------------------------------- proxyConn.handle / handleConnectRequest

func g01Handle(repo string, w *Out) error {
	f, err := Parse(repo, "internal/martian/proxy_conn.go")
	if err != nil {
		return err
	}
	check := func(fname, sink string) (bool, []string, error) {
		fn, err := f.Func(fname)
		if err != nil {
			return false, nil, err
		}
		// top-level statements: find `if err := p.modifyRequest(req); err != nil { …; return p.writeErrorResponse(req, err) }`
		modIdx, sinkIdx, returns := -1, -1, false
		var order []string
		for i, s := range fn.Body.List {
			txt := f.Src(s)
			if is, ok := s.(*ast.IfStmt); ok && is.Init != nil && f.Src(is.Init) == "err := p.modifyRequest(req)" && f.Src(is.Cond) == "err != nil" {
				modIdx = i
				if n := len(is.Body.List); n > 0 {
					if rs, ok := is.Body.List[n-1].(*ast.ReturnStmt); ok && len(rs.Results) == 1 && f.Src(rs.Results[0]) == "p.writeErrorResponse(req, err)" {
						returns = true
					}
				}
				order = append(order, "modifyRequest")
				continue
			}
			if strings.Contains(txt, sink) && sinkIdx < 0 {
				sinkIdx = i
				order = append(order, strings.TrimSuffix(strings.TrimPrefix(sink, "p."), "("))
				continue
			}
			if is, ok := s.(*ast.IfStmt); ok && f.Src(is.Cond) == "p.mitm" && is.Else == nil && len(is.Body.List) == 1 &&
				f.Src(is.Body.List[0]) == `req.URL.Scheme = "https"` {
				order = append(order, "mitmHttps") // requests read from an intercepted TLS session go out over TLS
				continue
			}
			for _, kv := range [][2]string{{"p.fixRequestScheme(req)", "fixRequestScheme"}, {"reqUpType := upgradeType(req.Header)", "upgradeType"},
				{`req.Header.Set("Upgrade", reqUpType)`, "readdUpgrade"}, {"p.shouldMITM(req)", "shouldMITM"}} {
				if strings.Contains(txt, kv[0]) {
					order = append(order, kv[1])
				}
			}
		}
		if modIdx < 0 || sinkIdx < 0 {
			return false, order, fmt.Errorf("%s: modifyRequest (%d) / %s (%d) statement not found", fname, modIdx, sink, sinkIdx)
		}
		return returns && modIdx < sinkIdx, order, nil
	}
	ok1, order1, err := check("proxyConn.handle", "p.roundTrip(")
	if err != nil {
		return err
	}
	ok2, order2, err := check("proxyConn.handleConnectRequest", "p.Connect(")
	if err != nil {
		return err
	}
	w.DefBool("modify_error_returns_before_roundtrip", ok1)
	w.DefBool("modify_error_returns_before_connect", ok2)
	w.DefStrList("handle_order", order1)
	w.DefStrList("handle_connect_order", order2)
	// connectHTTP (CONNECT through an upstream HTTP(S) proxy): the modified client header -- the only
	// carrier of the Via chain on that path -- is handed to the dialer unconditionally, before dialing.
	fc, err := Parse(repo, "internal/martian/proxy_connect.go")
	if err != nil {
		return err
	}
	ch, err := fc.Func("Proxy.connectHTTP")
	if err != nil {
		return err
	}
	cloneIdx, dialIdx := -1, -1
	for i, s := range ch.Body.List {
		txt := fc.Src(s)
		if txt == "d.ProxyConnectHeader = req.Header.Clone()" {
			cloneIdx = i
		}
		if strings.Contains(txt, "d.DialContextR(") && dialIdx < 0 {
			dialIdx = i
		}
	}
	if dialIdx < 0 {
		return fmt.Errorf("connectHTTP: d.DialContextR(…) call not found at top level")
	}
	w.DefBool("connect_header_cloned_unconditionally", cloneIdx >= 0 && cloneIdx < dialIdx)
	// dialvia.HTTPProxyDialer.DialContextR: the CONNECT header is the client's (ProxyConnectHeader) merged with the
	// callback's result, both copied into the request header, in that order, before the request is written
	fd, err := Parse(repo, "dialvia/http.go")
	if err != nil {
		return err
	}
	dr, err := fd.Func("HTTPProxyDialer.DialContextR")
	if err != nil {
		return err
	}
	copyClient, copyDyn, writeIdx := -1, -1, -1
	for i, st := range dr.Body.List {
		txt := fd.Src(st)
		switch {
		case txt == "maps.Copy(req.Header, d.ProxyConnectHeader)":
			copyClient = i
		case strings.HasPrefix(txt, "if d.GetProxyConnectHeader != nil {") && strings.Contains(txt, "maps.Copy(req.Header, headers)") &&
			!strings.Contains(txt, "len(headers)"):
			copyDyn = i
		case strings.Contains(txt, "req.Write(pbw)") && writeIdx < 0:
			writeIdx = i
		}
	}
	w.DefBool("connect_header_merges_client_and_callback", copyClient >= 0 && copyDyn > copyClient && writeIdx > copyDyn)
	// writeErrorResponse never round-trips
	we, err := f.Func("proxyConn.writeErrorResponse")
	if err != nil {
		return err
	}
	for _, c := range f.CallsIn(we.Body) {
		if strings.HasPrefix(c, "p.roundTrip(") || strings.HasPrefix(c, "p.Connect(") || strings.HasPrefix(c, "p.rt.") {
			return fmt.Errorf("writeErrorResponse: contacts upstream (%s)", c)
		}
	}
	return nil
}
