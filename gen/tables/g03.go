package main

import (
	"fmt"
	"go/ast"
	"go/token"
	"strings"
)

func init() { register("g03", genG03) }

func has(cs []string, s string) bool {
	for _, c := range cs {
		if c == s {
			return true
		}
	}
	return false
}

var g03TimeUnits = map[string]int64{
	"time.Nanosecond": 1, "time.Microsecond": 1e3, "time.Millisecond": 1e6,
	"time.Second": 1e9, "time.Minute": 60e9, "time.Hour": 3600e9,
}

// g03EvalInt evaluates constant integer expressions such as 32*1024 or 1 * time.Minute.
func g03EvalInt(f *File, e ast.Expr) (int64, error) {
	switch x := e.(type) {
	case *ast.BasicLit:
		if v, ok := IntLit(x); ok {
			return v, nil
		}
	case *ast.ParenExpr:
		return g03EvalInt(f, x.X)
	case *ast.SelectorExpr:
		if v, ok := g03TimeUnits[f.Src(x)]; ok {
			return v, nil
		}
	case *ast.BinaryExpr:
		a, err := g03EvalInt(f, x.X)
		if err != nil {
			return 0, err
		}
		c, err := g03EvalInt(f, x.Y)
		if err != nil {
			return 0, err
		}
		switch x.Op {
		case token.MUL:
			return a * c, nil
		case token.ADD:
			return a + c, nil
		case token.SHL:
			return a << uint(c), nil
		}
	}
	return 0, fmt.Errorf("%s: cannot evaluate %q as an integer constant", f.Path, f.Src(e))
}

// g03Rename renders an expression with identifiers replaced according to ren.
func g03Rename(f *File, n ast.Node, ren map[string]string) string {
	var restore []func()
	ast.Inspect(n, func(x ast.Node) bool {
		if id, ok := x.(*ast.Ident); ok {
			if to, ok := ren[id.Name]; ok && to != id.Name {
				old := id.Name
				id.Name = to
				restore = append(restore, func() { id.Name = old })
			}
		}
		return true
	})
	out := f.Src(n)
	for _, r := range restore {
		r()
	}
	return out
}

// g03Canon renames the receiver and the parameters of a function (by position) to the names the
// shapes below are written with: renaming them is not a change of shape.  The AST is private to
// this run, so the identifiers are rewritten in place.
func g03Canon(fd *ast.FuncDecl, recv string, params ...string) {
	ren := map[string]string{}
	if fd.Recv != nil && len(fd.Recv.List) == 1 && len(fd.Recv.List[0].Names) == 1 && recv != "" {
		ren[fd.Recv.List[0].Names[0].Name] = recv
	}
	i := 0
	for _, f := range fd.Type.Params.List {
		for _, n := range f.Names {
			if i < len(params) && params[i] != "" {
				ren[n.Name] = params[i]
			}
			i++
		}
	}
	for from, to := range ren {
		if from == to || from == "_" {
			delete(ren, from)
		}
	}
	if len(ren) == 0 {
		return
	}
	ast.Inspect(fd, func(x ast.Node) bool {
		if id, ok := x.(*ast.Ident); ok {
			if to, ok := ren[id.Name]; ok {
				id.Name = to
			}
		}
		return true
	})
}

type g03Call struct {
	src string
	pos token.Pos
}

func g03Calls(f *File, n ast.Node) []g03Call {
	var out []g03Call
	ast.Inspect(n, func(x ast.Node) bool {
		if ce, ok := x.(*ast.CallExpr); ok {
			out = append(out, g03Call{f.Src(ce), ce.Pos()})
		}
		return true
	})
	return out
}

func g03Find(cs []g03Call, prefix string) (g03Call, bool) {
	for _, c := range cs {
		if strings.HasPrefix(c.src, prefix) {
			return c, true
		}
	}
	return g03Call{}, false
}

// g03Copiers lists (dst, src) of the copier literals {"upstream …"/"downstream …", dst, src} under n.
func g03Copiers(f *File, n ast.Node) (up, down [][2]string) {
	ast.Inspect(n, func(x ast.Node) bool {
		cl, ok := x.(*ast.CompositeLit)
		if !ok || len(cl.Elts) != 3 {
			return true
		}
		name := f.Src(cl.Elts[0])
		pair := [2]string{f.Src(cl.Elts[1]), f.Src(cl.Elts[2])}
		switch {
		case strings.HasPrefix(name, `"upstream `):
			up = append(up, pair)
		case strings.HasPrefix(name, `"downstream `):
			down = append(down, pair)
		}
		return true
	})
	return
}

// g03TunnelShape analyses one tunnel function body (or the HTTP/1 case of it):
// reply written, then drainBuffer, then bicopy with crossed copiers.
func g03TunnelShape(f *File, what string, n ast.Node, bufio []string, conn string) (drainFirst, upReadsBufio bool, err error) {
	cs := g03Calls(f, n)
	// p.writeResponse(res) or a variant of it taking res first (writeResponseDeferTrace(res, true))
	wr, ok := g03Find(cs, "p.writeResponse")
	if !ok {
		wr, ok = g03Find(cs, "pc.writeResponse")
	}
	if !ok || !strings.Contains(wr.src, "(res") {
		return false, false, fmt.Errorf("%s: writeResponse…(res…) call not found", what)
	}
	var dr g03Call
	hasDrain := false
	for _, b := range bufio {
		if c, ok := g03Find(cs, "drainBuffer(crw, "+b+")"); ok {
			dr, hasDrain = c, true
		}
	}
	if !hasDrain {
		if c, ok := g03Find(cs, "drainBuffer("); ok {
			return false, false, fmt.Errorf("%s: drainBuffer call %q is not a shape the model knows", what, c.src)
		}
	}
	up, down := g03Copiers(f, n)
	if len(up) < 1 || len(down) < 1 {
		return false, false, fmt.Errorf("%s: upstream/downstream copier literals not found", what)
	}
	u, d := up[0], down[0]
	if u[0] != "crw" || d[1] != "crw" {
		return false, false, fmt.Errorf("%s: copiers are not {upstream: dst crw} / {downstream: src crw}: %v %v", what, u, d)
	}
	if d[0] != conn {
		return false, false, fmt.Errorf("%s: downstream copier writes to %q, expected %q", what, d[0], conn)
	}
	switch {
	case u[1] == conn:
		upReadsBufio = false
	default:
		isBufio := false
		for _, b := range bufio {
			if u[1] == b || u[1] == strings.TrimSuffix(b, ".Reader") {
				isBufio = true
			}
		}
		if !isBufio {
			return false, false, fmt.Errorf("%s: upstream copier reads from %q: not a shape the model knows", what, u[1])
		}
		upReadsBufio = true
	}
	if hasDrain {
		// the copier literals (arguments of bicopy, or the cc slice) come after the drain
		var firstCopier token.Pos
		ast.Inspect(n, func(x ast.Node) bool {
			if cl, ok := x.(*ast.CompositeLit); ok && len(cl.Elts) == 3 && firstCopier == 0 &&
				strings.HasPrefix(f.Src(cl.Elts[0]), `"upstream `) {
				firstCopier = cl.Pos()
			}
			return true
		})
		drainFirst = wr.pos < dr.pos && dr.pos < firstCopier
		if !drainFirst {
			return false, false, fmt.Errorf("%s: drainBuffer is not between writeResponse and the copiers", what)
		}
	}
	return drainFirst, upReadsBufio, nil
}

func genG03(repo string, w *Out) error {
	// ---------------------------------------------------------------- copy.go
	cp, err := Parse(repo, "internal/martian/copy.go")
	if err != nil {
		return err
	}
	pool, err := cp.ValueSpec("copyBufPool")
	if err != nil {
		return err
	}
	var bufSize int64 = -1
	ast.Inspect(pool, func(x ast.Node) bool {
		ce, ok := x.(*ast.CallExpr)
		if ok && cp.Src(ce.Fun) == "make" && len(ce.Args) == 2 && cp.Src(ce.Args[0]) == "[]byte" {
			if v, e := g03EvalInt(cp, ce.Args[1]); e == nil {
				bufSize = v
			}
		}
		return true
	})
	if bufSize < 0 {
		return fmt.Errorf("copy.go: copyBufPool.New does not make([]byte, <const>)")
	}
	w.DefN("copy_buf_size", uint64(bufSize))
	gt, err := cp.ValueSpec("bicopyGracefulTimeout")
	if err != nil {
		return err
	}
	grace, err := g03EvalInt(cp, gt)
	if err != nil {
		return err
	}
	w.DefZ("grace_ns", grace)

	// drainBuffer
	db, err := cp.Func("drainBuffer")
	if err != nil {
		return err
	}
	// locals and parameters are renamed to canonical names first (a renamed local is not a change of shape)
	dren := map[string]string{}
	if ps := db.Type.Params.List; len(ps) == 2 && len(ps[0].Names) == 1 && len(ps[1].Names) == 1 {
		dren[ps[0].Names[0].Name] = "w"
		dren[ps[1].Names[0].Name] = "r"
	}
	ast.Inspect(db.Body, func(x ast.Node) bool {
		as, ok := x.(*ast.AssignStmt)
		if !ok || as.Tok != token.DEFINE || len(as.Rhs) != 1 {
			return true
		}
		ce, ok := as.Rhs[0].(*ast.CallExpr)
		if !ok {
			return true
		}
		if sel, ok := ce.Fun.(*ast.SelectorExpr); ok {
			if id, ok := as.Lhs[0].(*ast.Ident); ok {
				switch sel.Sel.Name {
				case "Buffered":
					dren[id.Name] = "n"
				case "Peek":
					dren[id.Name] = "rbuf"
				}
			}
		}
		return true
	})
	var dcalls []string
	ast.Inspect(db.Body, func(x ast.Node) bool {
		if ce, ok := x.(*ast.CallExpr); ok {
			dcalls = append(dcalls, g03Rename(cp, ce, dren))
		}
		return true
	})
	switch {
	case has(dcalls, "r.Buffered()") && has(dcalls, "r.Peek(n)") && has(dcalls, "w.Write(rbuf)") &&
		!has(dcalls, "r.Discard(n)") && len(dcalls) == 3:
		w.DefBool("drain_peeks_only", true)
	case has(dcalls, "r.Buffered()") && has(dcalls, "r.Peek(n)") && has(dcalls, "w.Write(rbuf)") &&
		has(dcalls, "r.Discard(n)") && len(dcalls) == 4:
		w.DefBool("drain_peeks_only", false)
	default:
		return fmt.Errorf("copy.go drainBuffer: calls %q are not a shape the model knows", dcalls)
	}

	// copier.copy: io.CopyBuffer(c.dst, c.src, buf); c.closeWriter(ctx); donec <- …
	cc, err := cp.Func("copier.copy")
	if err != nil {
		return err
	}
	g03Canon(cc, "c", "ctx", "donec")
	ccalls := g03Calls(cp, cc.Body)
	cb, ok := g03Find(ccalls, "io.CopyBuffer(c.dst, c.src, buf)")
	if !ok {
		return fmt.Errorf("copy.go copier.copy: io.CopyBuffer(c.dst, c.src, buf) not found")
	}
	var sendPos token.Pos
	ast.Inspect(cc.Body, func(x ast.Node) bool {
		if s, ok := x.(*ast.SendStmt); ok && cp.Src(s.Chan) == "donec" {
			sendPos = s.Pos()
		}
		return true
	})
	if sendPos == 0 {
		return fmt.Errorf("copy.go copier.copy: `donec <-` not found")
	}
	cw, hasCW := g03Find(ccalls, "c.closeWriter(ctx)")
	w.DefBool("copier_closewrite_after_copy", hasCW && cb.pos < cw.pos && cw.pos < sendPos)
	w.DefBool("copier_done_after_copy", cb.pos < sendPos)
	clw, err := cp.Func("copier.closeWriter")
	if err != nil {
		return err
	}
	g03Canon(clw, "c", "ctx")
	cwcalls := cp.CallsIn(clw.Body)
	if len(cwcalls) < 2 || cwcalls[0] != "asCloseWriter(c.dst)" || cwcalls[1] != "cw.CloseWrite()" {
		return fmt.Errorf("copy.go copier.closeWriter: expected asCloseWriter(c.dst) then cw.CloseWrite(), got %q", cwcalls)
	}
	w.DefBool("closewriter_calls_closewrite", true)
	// close.go asCloseWriter: the value itself, else reflectx.LookupImpl on it (modelled in Lookup.v)
	cl, err := Parse(repo, "internal/martian/close.go")
	if err != nil {
		return err
	}
	acw, err := cl.Func("asCloseWriter")
	if err != nil {
		return err
	}
	g03Canon(acw, "", "w")
	acwSrc := cl.Src(acw.Body)
	okShape := strings.Contains(acwSrc, "if cw, ok := w.(closeWriter); ok { return cw, ok }") &&
		strings.Contains(acwSrc, "return reflectx.LookupImpl[closeWriter](reflect.ValueOf(w))")
	if !okShape {
		return fmt.Errorf("close.go asCloseWriter: body %q is not the shape the model knows", acwSrc)
	}
	w.DefBool("as_closewriter_direct_then_lookup", true)

	// bicopy: one receive from donec per copier; grace timer armed after the first
	bc, err := cp.Func("bicopy")
	if err != nil {
		return err
	}
	g03Canon(bc, "", "ctx", "cc")
	waitsAll, graceFirst, spawnsAll := false, false, false
	ast.Inspect(bc.Body, func(x ast.Node) bool {
		rs, ok := x.(*ast.RangeStmt)
		if !ok || cp.Src(rs.X) != "cc" {
			return true
		}
		ast.Inspect(rs.Body, func(y ast.Node) bool {
			switch z := y.(type) {
			case *ast.UnaryExpr:
				if z.Op == token.ARROW && cp.Src(z.X) == "donec" {
					waitsAll = true
				}
			case *ast.GoStmt:
				if cp.Src(z.Call) == "cc[i].copy(ctx, donec)" {
					spawnsAll = true
				}
			case *ast.IfStmt:
				if cp.Src(z.Cond) == "i == 0" {
					for _, c := range cp.CallsIn(z.Body) {
						if c == "gracefulCloseAfter(ctx, bicopyGracefulTimeout, cc...)" {
							graceFirst = true
						}
					}
				}
			}
			return true
		})
		return true
	})
	if !spawnsAll {
		return fmt.Errorf("copy.go bicopy: `go cc[i].copy(ctx, donec)` over cc not found")
	}
	if !waitsAll {
		// the known alternative: a single receive outside a loop
		n := 0
		ast.Inspect(bc.Body, func(x ast.Node) bool {
			if z, ok := x.(*ast.UnaryExpr); ok && z.Op == token.ARROW && cp.Src(z.X) == "donec" {
				n++
			}
			return true
		})
		if n == 0 {
			return fmt.Errorf("copy.go bicopy: no receive from donec")
		}
	}
	w.DefBool("bicopy_waits_all", waitsAll)
	w.DefBool("grace_armed_after_first_done", graceFirst)
	gc, err := cp.Func("gracefulCloseAfter")
	if err != nil {
		return err
	}
	g03Canon(gc, "", "ctx", "d", "cc")
	gcalls := cp.CallsIn(gc.Body)
	w.DefBool("grace_waits_period_then_closes_all", has(gcalls, "time.After(d)") && has(gcalls, "cc[i].close(ctx)"))

	// ---------------------------------------------------------- proxy_conn.go
	pc, err := Parse(repo, "internal/martian/proxy_conn.go")
	if err != nil {
		return err
	}
	tn, err := pc.Func("proxyConn.tunnel")
	if err != nil {
		return err
	}
	g03Canon(tn, "p", "name", "res", "crw")
	df1, ub1, err := g03TunnelShape(pc, "proxy_conn.go tunnel", tn.Body, []string{"p.brw.Reader"}, "p.conn")
	if err != nil {
		return err
	}
	ph, err := Parse(repo, "internal/martian/proxy_handler.go")
	if err != nil {
		return err
	}
	th, err := ph.Func("proxyHandler.tunnel")
	if err != nil {
		return err
	}
	g03Canon(th, "p", "name", "rw", "req", "res", "crw")
	h1, err := ph.CaseBody(th.Body, "1")
	if err != nil {
		return err
	}
	df2, ub2, err := g03TunnelShape(ph, "proxy_handler.go tunnel (HTTP/1)", &ast.BlockStmt{List: h1}, []string{"brw.Reader"}, "conn")
	if err != nil {
		return err
	}
	// ---- deadlines armed on the client connection up to the hand-over, as a statement list ----
	// codes (coq/g03/Deadlines.v dop_of_code): 0 RArmIdle 1 RArmHeader 2 RArmWholeIfDiff 3 WArmIfSet
	// 4 WClearIfSet 5 RClear 6 WClear 7 RWClear
	var dops []uint64
	px, err := Parse(repo, "internal/martian/proxy.go")
	if err != nil {
		return err
	}
	rr, err := pc.Func("proxyConn.readRequest")
	if err != nil {
		return err
	}
	g03Canon(rr, "p")
	// how the three read deadlines are computed (modelled in Deadlines.v: dl_of, idle_eff, hdr_eff)
	var ifs []string
	ast.Inspect(rr.Body, func(x ast.Node) bool {
		if is, ok := x.(*ast.IfStmt); ok && is.Init != nil {
			ifs = append(ifs, pc.Src(is.Init)+"; "+pc.Src(is.Cond)+" "+pc.Src(is.Body))
		}
		return true
	})
	for _, want := range []string{
		"d := p.idleTimeout(); d > 0 { idleDeadline = time.Now().Add(d) }",
		"d := p.readHeaderTimeout(); d > 0 { hdrDeadline = t0.Add(d) }",
		"d := p.ReadTimeout; d > 0 { wholeReqDeadline = t0.Add(d) }",
	} {
		if !has(ifs, want) {
			return fmt.Errorf("proxy_conn.go readRequest: deadline computation `if %s` not found (have %q)", want, ifs)
		}
	}
	for _, fn := range [][2]string{{"Proxy.idleTimeout", "p.IdleTimeout"}, {"Proxy.readHeaderTimeout", "p.ReadHeaderTimeout"}} {
		fd, err := px.Func(fn[0])
		if err != nil {
			return err
		}
		want := "{ if " + fn[1] + " > 0 { return " + fn[1] + " } return p.ReadTimeout }"
		if got := px.Src(fd.Body); got != want {
			return fmt.Errorf("proxy.go %s: body %q is not the shape the model knows (%q)", fn[0], got, want)
		}
	}
	var shapeErr error
	walkDeadlines := func(what string, body ast.Node, stop token.Pos, classify func(call string, guard string, deferred bool) (uint64, bool)) {
		var guards []ast.Node
		var walk func(n ast.Node, guard string, deferred bool)
		walk = func(n ast.Node, guard string, deferred bool) {
			ast.Inspect(n, func(x ast.Node) bool {
				switch z := x.(type) {
				case *ast.IfStmt:
					if z.Init != nil {
						walk(z.Init, guard, deferred)
					}
					walk(z.Cond, guard, deferred)
					walk(z.Body, pc.Src(z.Cond), deferred)
					if z.Else != nil {
						walk(z.Else, "else", deferred)
					}
					return false
				case *ast.DeferStmt:
					walk(z.Call, guard, true)
					return false
				case *ast.CallExpr:
					src := pc.Src(z)
					if strings.HasPrefix(src, "p.conn.Set") && strings.Contains(pc.Src(z.Fun), "Deadline") {
						if stop != 0 && z.Pos() > stop {
							return true // after the copiers have run: not part of the hand-over
						}
						code, ok := classify(src, guard, deferred)
						if !ok {
							shapeErr = fmt.Errorf("%s: deadline statement %q (guard %q, deferred %v) is not a shape the model knows", what, src, guard, deferred)
							return true
						}
						dops = append(dops, code)
					}
				}
				return true
			})
		}
		_ = guards
		walk(body, "", false)
	}
	walkDeadlines("proxy_conn.go readRequest", rr.Body, 0, func(call, guard string, deferred bool) (uint64, bool) {
		switch {
		case call == "p.conn.SetReadDeadline(idleDeadline)" && !deferred:
			return 0, true
		case call == "p.conn.SetReadDeadline(hdrDeadline)" && !deferred:
			return 1, true
		case call == "p.conn.SetReadDeadline(wholeReqDeadline)" && guard == "!hdrDeadline.Equal(wholeReqDeadline)" && !deferred:
			return 2, true
		}
		return 0, false
	})
	wrf, err := pc.Func("proxyConn.writeResponseDeferTrace")
	if err != nil {
		if wrf, err = pc.Func("proxyConn.writeResponse"); err != nil {
			return err
		}
	}
	var deferredClears []uint64
	walkDeadlines("proxy_conn.go writeResponse", wrf.Body, 0, func(call, guard string, deferred bool) (uint64, bool) {
		switch {
		case call == "p.conn.SetWriteDeadline(time.Now().Add(p.WriteTimeout))" && guard == "p.WriteTimeout > 0" && !deferred:
			return 3, true
		case call == "p.conn.SetWriteDeadline(time.Time{})" && deferred:
			// the deferred function is declared inside `if p.WriteTimeout > 0`; its own `if deadlineErr := …` is the innermost guard
			return 4, true
		case call == "p.conn.SetWriteDeadline(time.Time{})" && guard == "p.WriteTimeout > 0" && !deferred:
			return 4, true
		}
		return 0, false
	})
	_ = deferredClears
	// a deferred clearing must sit inside the same `if p.WriteTimeout > 0` as the arming (same guard in the model)
	if n := len(dops); n > 0 && dops[n-1] == 4 {
		okGuard := false
		ast.Inspect(wrf.Body, func(x ast.Node) bool {
			if is, ok := x.(*ast.IfStmt); ok && pc.Src(is.Cond) == "p.WriteTimeout > 0" {
				src := pc.Src(is.Body)
				if strings.Contains(src, "SetWriteDeadline(time.Now().Add(p.WriteTimeout))") && strings.Contains(src, "SetWriteDeadline(time.Time{})") {
					okGuard = true
				}
			}
			return true
		})
		if !okGuard {
			return fmt.Errorf("proxy_conn.go writeResponse: arming and clearing of the write deadline are not under the same `if p.WriteTimeout > 0`")
		}
	}
	var bicopyPos token.Pos
	if bi, ok := g03Find(g03Calls(pc, tn.Body), "bicopy("); ok {
		bicopyPos = bi.pos
	} else {
		return fmt.Errorf("proxy_conn.go tunnel: bicopy call not found")
	}
	walkDeadlines("proxy_conn.go tunnel", tn.Body, bicopyPos, func(call, guard string, deferred bool) (uint64, bool) {
		if deferred {
			return 0, false
		}
		switch call {
		case "p.conn.SetReadDeadline(time.Time{})":
			return 5, true
		case "p.conn.SetWriteDeadline(time.Time{})":
			return 6, true
		case "p.conn.SetDeadline(time.Time{})":
			return 7, true
		}
		return 0, false
	})
	if shapeErr != nil {
		return shapeErr
	}
	{
		parts := make([]string, len(dops))
		for i, c := range dops {
			parts[i] = fmt.Sprintf("%d", c)
		}
		lst := "(@nil N)"
		if len(parts) > 0 {
			lst = "[" + strings.Join(parts, "; ") + "]"
		}
		w.Linef("Definition handover_deadline_ops : list N := %s. (* readRequest, writeResponse, tunnel: deadline statements in source order *)", lst)
	}
	// nothing in the copy phase touches a deadline
	noDl := true
	for _, fn := range []string{"bicopy", "copier.copy", "copier.closeWriter", "drainBuffer", "gracefulCloseAfter"} {
		fd, err := cp.Func(fn)
		if err != nil {
			return err
		}
		for _, c := range cp.CallsIn(fd.Body) {
			if strings.Contains(c, "Deadline(") {
				noDl = false
			}
		}
	}
	w.DefBool("copy_phase_sets_no_deadline", noDl)
	// the reader the request head is parsed with: bufio.NewReader(conn) (4096) directly on the connection
	npc, err := pc.Func("newProxyConn")
	if err != nil {
		return err
	}
	crSize := int64(-1)
	limited := false
	for _, c := range g03Calls(pc, npc.Body) {
		switch {
		case c.src == "bufio.NewReader(conn)":
			crSize = 4096 // bufio's defaultBufSize
		case c.src == "bufio.NewReader(lr)" && strings.Contains(pc.Src(npc.Body), "lr := &io.LimitedReader{R: conn, N: math.MaxInt64}"):
			// a LimitedReader in between only caps a Read by the remaining request-head budget
			// (http.DefaultMaxHeaderBytes + 4096 per head): no effect on heads below that limit
			crSize = 4096
			limited = true
		case strings.HasPrefix(c.src, "bufio.NewReaderSize(conn, "),
			strings.HasPrefix(c.src, "bufio.NewReaderSize(lr, ") && strings.Contains(pc.Src(npc.Body), "lr := &io.LimitedReader{R: conn, N: math.MaxInt64}"):
			limited = strings.HasPrefix(c.src, "bufio.NewReaderSize(lr, ")
			ast.Inspect(npc.Body, func(x ast.Node) bool {
				if ce, ok := x.(*ast.CallExpr); ok && pc.Src(ce.Fun) == "bufio.NewReaderSize" && len(ce.Args) == 2 {
					if v, e := g03EvalInt(pc, ce.Args[1]); e == nil {
						crSize = v
						if v < 16 {
							crSize = 16 // bufio's minimum
						}
					}
				}
				return true
			})
		}
	}
	if crSize < 0 {
		return fmt.Errorf("proxy_conn.go newProxyConn: bufio.NewReader(conn) not found")
	}
	w.DefN("client_reader_size", uint64(crSize))
	w.DefBool("client_reader_head_budget", limited)
	// net/http's transport as forwarder builds it: the size of the reader the 101 head is parsed with
	ht, err := Parse(repo, "http_transport.go")
	if err != nil {
		return err
	}
	nt, err := ht.Func("NewHTTPTransport")
	if err != nil {
		return err
	}
	trBuf := int64(4096) // net/http's default when ReadBufferSize is not set
	ast.Inspect(nt.Body, func(x ast.Node) bool {
		if kv, ok := x.(*ast.KeyValueExpr); ok && ht.Src(kv.Key) == "ReadBufferSize" {
			if v, e := g03EvalInt(ht, kv.Value); e == nil {
				trBuf = v
			} else {
				trBuf = -1
			}
		}
		return true
	})
	if trBuf <= 0 {
		return fmt.Errorf("http_transport.go NewHTTPTransport: ReadBufferSize is not a constant")
	}
	w.DefN("transport_read_buffer", uint64(trBuf))
	w.DefBool("tunnel_drain_first", df1 && df2)
	w.DefBool("up_copier_reads_bufio", ub1 || ub2)

	// who closes the two connections after bicopy
	hc, err := pc.Func("proxyConn.handleConnectRequest")
	if err != nil {
		return err
	}
	g03Canon(hc, "p", "req")
	deferClose, retClose := false, false
	var tunnelPos token.Pos
	ast.Inspect(hc.Body, func(x ast.Node) bool {
		switch z := x.(type) {
		case *ast.DeferStmt:
			if pc.Src(z.Call) == "crw.Close()" {
				deferClose = true
			}
		case *ast.CallExpr:
			if strings.HasPrefix(pc.Src(z), `p.tunnel("CONNECT", res, crw)`) {
				tunnelPos = z.Pos()
			}
		case *ast.ReturnStmt:
			if tunnelPos != 0 && z.Pos() > tunnelPos && len(z.Results) == 1 && pc.Src(z.Results[0]) == "errClose" {
				retClose = true
			}
		}
		return true
	})
	if tunnelPos == 0 {
		return fmt.Errorf(`proxy_conn.go handleConnectRequest: p.tunnel("CONNECT", res, crw) not found`)
	}
	hu, err := pc.Func("proxyConn.handleUpgradeResponse")
	if err != nil {
		return err
	}
	upRet := false
	var last ast.Stmt
	if n := len(hu.Body.List); n > 0 {
		last = hu.Body.List[n-1]
	}
	if rs, ok := last.(*ast.ReturnStmt); ok && len(rs.Results) == 1 && pc.Src(rs.Results[0]) == "errClose" {
		upRet = true
	}
	hd, err := pc.Func("proxyConn.handle")
	if err != nil {
		return err
	}
	bodyDefer := false
	ast.Inspect(hd.Body, func(x ast.Node) bool {
		if z, ok := x.(*ast.DeferStmt); ok && pc.Src(z.Call) == "res.Body.Close()" {
			bodyDefer = true
		}
		return true
	})
	w.DefBool("closes_upstream_after_tunnel", deferClose && bodyDefer)
	hl, err := px.Func("Proxy.handleLoop")
	if err != nil {
		return err
	}
	connDefer := false
	ast.Inspect(hl.Body, func(x ast.Node) bool {
		if z, ok := x.(*ast.DeferStmt); ok && px.Src(z.Call) == "conn.Close()" {
			connDefer = true
		}
		return true
	})
	w.DefBool("closes_client_after_tunnel", connDefer && retClose && upRet)

	pcn, err := Parse(repo, "internal/martian/proxy_connect.go")
	if err != nil {
		return err
	}
	okr, err := pcn.ValueSpec("connectOKResponse")
	if err != nil {
		return err
	}
	okc, isCall := okr.(*ast.CallExpr)
	if !isCall || len(okc.Args) != 1 {
		return fmt.Errorf("proxy_connect.go: connectOKResponse is not []byte(<literal>)")
	}
	oks, isLit := StringLit(okc.Args[0])
	if !isLit {
		return fmt.Errorf("proxy_connect.go: connectOKResponse is not []byte(<literal>)")
	}
	w.DefStr("connect_ok_response", oks)

	// ---------------------------------------------------------- dialvia/http.go
	dv, err := Parse(repo, "dialvia/http.go")
	if err != nil {
		return err
	}
	dr, err := dv.Func("HTTPProxyDialer.DialContextR")
	if err != nil {
		return err
	}
	g03Canon(dr, "d", "ctx", "network", "addr")
	found := false
	bytewise := false
	var rsize int64
	ast.Inspect(dr.Body, func(x ast.Node) bool {
		ce, ok := x.(*ast.CallExpr)
		if !ok {
			return true
		}
		switch dv.Src(ce.Fun) {
		case "bufio.NewReaderSize":
			if len(ce.Args) == 2 {
				if v, e := g03EvalInt(dv, ce.Args[1]); e == nil {
					rsize = v
				}
				switch dv.Src(ce.Args[0]) {
				case "byteReader{conn}", "byteReader{r: conn}":
					found, bytewise = true, true
				case "conn":
					found, bytewise = true, false
				}
			}
		case "bufio.NewReader":
			if len(ce.Args) == 1 {
				rsize = 4096
				switch dv.Src(ce.Args[0]) {
				case "byteReader{conn}", "byteReader{r: conn}":
					found, bytewise = true, true
				case "conn":
					found, bytewise = true, false
				}
			}
		}
		return true
	})
	if !found || rsize <= 0 {
		return fmt.Errorf("dialvia/http.go DialContextR: the reply reader (bufio.NewReaderSize(byteReader{conn}, n)) was not found")
	}
	if bytewise {
		br, err := dv.Func("byteReader.Read")
		if err != nil {
			return err
		}
		if c := dv.CallsIn(br.Body); len(c) != 1 || c[0] != "r.r.Read(p[:1])" {
			return fmt.Errorf("dialvia/http.go byteReader.Read: expected r.r.Read(p[:1]), got %q", c)
		}
	}
	w.DefBool("reply_reader_bytewise", bytewise)
	w.DefN("reply_reader_size", uint64(rsize))
	// RFC 9110 9.3.6: Content-Length / Transfer-Encoding of a 2xx reply to CONNECT are ignored
	ignored := false
	ast.Inspect(dr.Body, func(x ast.Node) bool {
		// the replacement must be guarded by "any 2xx" (a guard on 200 alone leaves the other 2xx with a body)
		is, ok := x.(*ast.IfStmt)
		if !ok || dv.Src(is.Cond) != "res.StatusCode/100 == 2" {
			return true
		}
		ast.Inspect(is.Body, func(y ast.Node) bool {
			as, ok := y.(*ast.AssignStmt)
			if ok && len(as.Lhs) == 1 && len(as.Rhs) == 1 && dv.Src(as.Lhs[0]) == "res.Body" && dv.Src(as.Rhs[0]) == "http.NoBody" {
				ignored = true
			}
			return true
		})
		return true
	})
	w.DefBool("connect_2xx_body_ignored", ignored)
	// the caller closes the reply body of a 2xx (that is what consumes a declared body)
	ch, err := pcn.Func("Proxy.connectHTTP")
	if err != nil {
		return err
	}
	w.DefBool("connect_2xx_body_closed", has(pcn.CallsIn(ch.Body), "res.Body.Close()"))

	// ---------------------------------------------------------- dialvia/socks5.go
	sk, err := Parse(repo, "dialvia/socks5.go")
	if err != nil {
		return err
	}
	sd, err := sk.Func("SOCKS5ProxyDialer.DialContext")
	if err != nil {
		return err
	}
	if _, ok := g03Find(g03Calls(sk, sd.Body), "proxy.SOCKS5("); !ok {
		return fmt.Errorf("dialvia/socks5.go: golang.org/x/net/proxy.SOCKS5 is no longer used")
	}
	w.DefBool("socks5_uses_xnet_proxy", true)
	return nil
}
