package main

// g08Ref: for every function the translator looks at, the names of its locals in declaration order as the shapes in
// g08.go spell them (receiver, parameters, results, then := / var declarations, function-literal parameters, fields of
// local types).  See g08_norm.go.
var g08Ref = map[string][]string{
	"ReadHeader":                 {"r", "buf", "_", "err", "h", "err", "h", "err"},
	"readV1Header":               {"buf", "r", "b", "err", "idx", "_", "err", "_", "err", "b", "err"},
	"readUntilCRLF":              {"buf", "r", "idx", "c", "err"},
	"parseV1Header":              {"buf", "src", "dest", "done", "isTCP6", "err", "pos", "buf", "ip", "ip", "port", "err", "port", "err"},
	"parsePort":                  {"buf", "port", "err"},
	"readV2Header":               {"buf", "r", "_", "err", "length", "tr", "_", "err", "offset", "h", "src", "dest", "src", "dest"},
	"Conn.RemoteAddr":            {"c", "err"},
	"Conn.LocalAddr":             {"c", "err"},
	"Conn.Read":                  {"c", "b", "n", "err", "err"},
	"Conn.Write":                 {"c", "b", "n", "err", "err"},
	"Conn.ReadFrom":              {"c", "r", "n", "err", "err"},
	"Conn.WriteTo":               {"c", "w", "n", "err", "err"},
	"Conn.readHeaderContext":     {"c", "ctx", "t0", "d", "ok", "cancel", "header", "err", "resCh", "r", "r"},
	"proxyproto.Listener.Accept": {"l", "c", "err", "pc"},
	"Listener.Listen":            {"l", "ll", "err", "rl", "wl"},
	"Listener.Accept":            {"l", "conn", "err"},
}
