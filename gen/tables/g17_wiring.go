package main

import (
	"fmt"
	"go/ast"
	"strings"
)

// genG17Wiring extracts, as rendered source text, how the three domain lists
// are used: what is passed to Match at each call site in http_proxy.go, how
// command/run/run.go builds the matchers from the flag values, which flags
// feed them and with which parser.  Obligations.ob_wiring compares the list
// with the committed WiringExpected.v (the state of the source when the
// assumption "Match receives the bare host name of the request target, and
// the matcher is built from exactly the list given on the command line" was
// checked by reading it).
func genG17Wiring(repo string, w *Out) error {
	var wiring []string
	hf, err := Parse(repo, "http_proxy.go")
	if err != nil {
		return err
	}
	for _, d := range hf.AST.Decls {
		fd, ok := d.(*ast.FuncDecl)
		if !ok || fd.Body == nil {
			continue
		}
		ast.Inspect(fd.Body, func(x ast.Node) bool {
			ce, ok := x.(*ast.CallExpr)
			if !ok {
				return true
			}
			src := hf.Src(ce)
			sel, isSel := ce.Fun.(*ast.SelectorExpr)
			switch {
			case isSel && sel.Sel.Name == "Match" && (strings.Contains(hf.Src(sel.X), "Domains") || g17MatcherParam(hf, fd, sel.X)):
				wiring = append(wiring, fd.Name.Name+": "+src)
			case strings.HasPrefix(src, "hp.denyDomains(") || strings.HasPrefix(src, "hp.directDomains("):
				wiring = append(wiring, fd.Name.Name+": "+src)
			}
			return true
		})
	}
	// top-level helper functions of http_proxy.go reached from the three users of the lists (transitively)
	top := map[string]*ast.FuncDecl{}
	for _, d := range hf.AST.Decls {
		if fd, ok := d.(*ast.FuncDecl); ok && fd.Body != nil && fd.Recv == nil {
			top[fd.Name.Name] = fd
		}
	}
	helpers := map[string]bool{}
	var visit func(n ast.Node)
	visit = func(n ast.Node) {
		ast.Inspect(n, func(y ast.Node) bool {
			if c2, ok := y.(*ast.CallExpr); ok {
				if id, ok := c2.Fun.(*ast.Ident); ok {
					if fd, ok := top[id.Name]; ok && !helpers[id.Name] {
						helpers[id.Name] = true
						visit(fd.Body)
					}
				}
			}
			return true
		})
	}
	for _, name := range []string{"HTTPProxy.denyDomains", "HTTPProxy.directDomains"} {
		if fd, err := hf.Func(name); err == nil {
			visit(fd.Body)
		}
	}
	if fd, err := hf.Func("HTTPProxy.configureProxy"); err == nil {
		ast.Inspect(fd.Body, func(x ast.Node) bool { // the MITMFilter closure
			if as, ok := x.(*ast.AssignStmt); ok && len(as.Lhs) == 1 && hf.Src(as.Lhs[0]) == "hp.proxy.MITMFilter" {
				wiring = append(wiring, "MITMFilter: "+hf.Src(as.Rhs[0]))
				visit(as.Rhs[0])
			}
			return true
		})
	}
	for _, d := range hf.AST.Decls {
		if fd, ok := d.(*ast.FuncDecl); ok && fd.Body != nil && fd.Recv == nil && helpers[fd.Name.Name] {
			wiring = append(wiring, "func "+fd.Name.Name+": "+hf.Src(fd.Body))
		}
	}
	if fd, err := hf.Func("HTTPProxy.directDomains"); err == nil {
		wiring = append(wiring, "directDomains body: "+hf.Src(fd.Body))
	}
	// the whole modifier that consults the deny list
	if fd, err := hf.Func("HTTPProxy.denyDomains"); err == nil {
		wiring = append(wiring, "denyDomains body: "+hf.Src(fd.Body))
	}
	if len(wiring) < 5 {
		return fmt.Errorf("http_proxy.go: expected the three Match call sites and the two installers, found %q", wiring)
	}
	rf, err := Parse(repo, "command/run/run.go")
	if err != nil {
		return err
	}
	// every if-statement of run.go that mentions one of the three lists
	n := 0
	ast.Inspect(rf.AST, func(x ast.Node) bool {
		is, ok := x.(*ast.IfStmt)
		if !ok {
			return true
		}
		c := rf.Src(is.Cond)
		if c == "len(c.denyDomains) > 0" || c == "len(c.directDomains) > 0" || c == "len(c.mitmDomains) > 0" {
			wiring = append(wiring, "run.go: "+rf.Src(is))
			n++
			return false
		}
		return true
	})
	if n != 3 {
		return fmt.Errorf("run.go: expected three blocks `if len(c.<list>Domains) > 0`, found %d", n)
	}
	// helpers of run.go that build matchers (none today)
	for _, d := range rf.AST.Decls {
		fd, ok := d.(*ast.FuncDecl)
		if ok && fd.Body != nil && fd.Name.Name != "runE" && strings.Contains(rf.Src(fd.Body), "NewRegexpMatcher") {
			wiring = append(wiring, "run.go func "+fd.Name.Name+": "+rf.Src(fd.Body))
		}
	}
	ast.Inspect(rf.AST, func(x ast.Node) bool {
		if ce, ok := x.(*ast.CallExpr); ok {
			src := rf.Src(ce)
			for _, pfx := range []string{"bind.DenyDomains(", "bind.DirectDomains(", "bind.MITMDomains("} {
				if strings.HasPrefix(src, pfx) {
					wiring = append(wiring, "run.go: "+src)
				}
			}
		}
		return true
	})
	bf, err := Parse(repo, "bind/flag.go")
	if err != nil {
		return err
	}
	for _, fn := range []string{"DenyDomains", "DirectDomains", "MITMDomains"} {
		fd, err := bf.Func(fn)
		if err != nil {
			return err
		}
		var name, parser string
		ast.Inspect(fd.Body, func(x ast.Node) bool {
			ce, ok := x.(*ast.CallExpr)
			if !ok {
				return true
			}
			src := bf.Src(ce.Fun)
			if (src == "fs.Var" || src == "fs.VarP") && len(ce.Args) >= 2 {
				if s, ok := StringLit(ce.Args[1]); ok {
					name = s
				}
				if inner, ok := ce.Args[0].(*ast.CallExpr); ok && len(inner.Args) >= 3 {
					parser = bf.Src(inner.Fun) + " ... " + bf.Src(inner.Args[2])
				}
			}
			return true
		})
		wiring = append(wiring, fmt.Sprintf("bind.%s: flag %q parsed by %s", fn, name, parser))
	}
	// how a list from the config file reaches the flag value (element by element, not re-split)
	if cf, err := Parse(repo, "utils/cobrautil/bind.go"); err == nil {
		if fd, err := cf.Func("setFlagFromViper"); err == nil {
			wiring = append(wiring, "cobrautil.setFlagFromViper: "+cf.Src(fd.Body))
		} else {
			return err
		}
	} else {
		return err
	}
	w.DefStrList("wiring", wiring)
	// which forms of the host name the deny and the direct site consult (the model's [site_forms])
	mf, hasForms := top["matchesAnyForm"]
	formsOK := hasForms && strings.Contains(hf.Src(mf.Body), `r.Match(strings.TrimSuffix(host, "."))`) && strings.Contains(hf.Src(mf.Body), "r.Match(host)")
	for _, site := range []struct {
		fn, flag, viaForms string
		plain              []string
	}{
		{"HTTPProxy.denyDomains", "deny_also_without_trailing_dot", "matchesAnyForm(r, req.URL.Hostname())",
			[]string{"r.Match(req.URL.Hostname())", "r.Match(h)"}},
		{"HTTPProxy.directDomains", "direct_also_without_trailing_dot", "matchesAnyForm(hp.config.DirectDomains, req.URL.Hostname())",
			[]string{"hp.config.DirectDomains.Match(req.URL.Hostname())", "hp.config.DirectDomains.Match(h)"}},
	} {
		body := ""
		if fd, err := hf.Func(site.fn); err == nil {
			body = hf.Src(fd.Body)
		}
		switch {
		case formsOK && strings.Contains(body, site.viaForms):
			w.DefBool(site.flag, true)
		case strings.Contains(body, site.plain[0]) || strings.Contains(body, site.plain[1]):
			w.DefBool(site.flag, false)
		default:
			w.DefBool(site.flag, false)
			return fmt.Errorf("%s: the name given to Match is not a shape the model knows: %s", site.fn, body)
		}
	}
	return nil
}

// g17MatcherParam: is x a parameter of fd whose type is Matcher?
func g17MatcherParam(f *File, fd *ast.FuncDecl, x ast.Expr) bool {
	id, ok := x.(*ast.Ident)
	if !ok {
		return false
	}
	check := func(fl *ast.FieldList) bool {
		if fl == nil {
			return false
		}
		for _, p := range fl.List {
			if f.Src(p.Type) != "Matcher" {
				continue
			}
			for _, n := range p.Names {
				if n.Name == id.Name {
					return true
				}
			}
		}
		return false
	}
	return check(fd.Type.Params)
}
