package main

import (
	"fmt"
	"go/ast"
	"go/token"
	"regexp"
	"strconv"
	"strings"
)

func init() { register("g02", genG02) }

// names of net/http constants the sources use
var g02HTTPConst = map[string]string{
	"http.MethodHead": "HEAD", "http.MethodGet": "GET", "http.MethodPost": "POST", "http.MethodPut": "PUT",
	"http.MethodConnect": "CONNECT", "http.MethodOptions": "OPTIONS", "http.MethodDelete": "DELETE",
	"http.MethodPatch": "PATCH", "http.MethodTrace": "TRACE",
}
var g02HTTPStatus = map[string]uint64{
	"http.StatusContinue": 100, "http.StatusSwitchingProtocols": 101, "http.StatusProcessing": 102,
	"http.StatusEarlyHints": 103, "http.StatusOK": 200, "http.StatusNoContent": 204,
	"http.StatusResetContent": 205, "http.StatusPartialContent": 206, "http.StatusNotModified": 304,
}

func g02PatList(ps [][2]byte) string {
	if len(ps) == 0 {
		return "(@nil (N * N))"
	}
	parts := make([]string, len(ps))
	for i, p := range ps {
		parts[i] = fmt.Sprintf("(%d, %d)", p[0], p[1])
	}
	return "[" + strings.Join(parts, "; ") + "]"
}

func g02NList(ns []uint64) string {
	if len(ns) == 0 {
		return "(@nil N)"
	}
	parts := make([]string, len(ns))
	for i, n := range ns {
		parts[i] = strconv.FormatUint(n, 10)
	}
	return "[" + strings.Join(parts, "; ") + "]"
}

func g02Char(e ast.Expr) (byte, bool) {
	bl, ok := e.(*ast.BasicLit)
	if !ok {
		return 0, false
	}
	switch bl.Kind {
	case token.CHAR:
		s, err := strconv.Unquote(bl.Value)
		if err != nil || len(s) != 1 {
			return 0, false
		}
		return s[0], true
	case token.INT:
		v, err := strconv.ParseUint(bl.Value, 0, 8)
		if err != nil {
			return 0, false
		}
		return byte(v), true
	}
	return 0, false
}

func g02Pair(e ast.Expr) ([2]byte, bool) {
	cl, ok := e.(*ast.CompositeLit)
	if !ok || len(cl.Elts) != 2 {
		return [2]byte{}, false
	}
	a, ok1 := g02Char(cl.Elts[0])
	c, ok2 := g02Char(cl.Elts[1])
	return [2]byte{a, c}, ok1 && ok2
}

// g02Patterns reads `name = [2]byte{'a','b'}` or `names = [][2]byte{{'a','b'}, ...}`.
func g02Patterns(f *File, names ...string) ([][2]byte, string, error) {
	for _, name := range names {
		e, err := f.ValueSpec(name)
		if err != nil {
			continue
		}
		cl, ok := e.(*ast.CompositeLit)
		if !ok {
			return nil, "", fmt.Errorf("%s: %s is not a composite literal", f.Path, name)
		}
		typ := f.Src(cl.Type)
		switch typ {
		case "[2]byte":
			p, ok := g02Pair(cl)
			if !ok {
				return nil, "", fmt.Errorf("%s: %s: not two byte literals", f.Path, name)
			}
			return [][2]byte{p}, name, nil
		case "[][2]byte":
			var out [][2]byte
			for _, el := range cl.Elts {
				p, ok := g02Pair(el)
				if !ok {
					return nil, "", fmt.Errorf("%s: %s: element is not two byte literals", f.Path, name)
				}
				out = append(out, p)
			}
			return out, name, nil
		default:
			return nil, "", fmt.Errorf("%s: %s has type %s, not a shape the model knows", f.Path, name, typ)
		}
	}
	return nil, "", fmt.Errorf("%s: none of the vars %v found", f.Path, names)
}

func g02Disjuncts(e ast.Expr) []ast.Expr {
	if pe, ok := e.(*ast.ParenExpr); ok {
		return g02Disjuncts(pe.X)
	}
	if be, ok := e.(*ast.BinaryExpr); ok && be.Op == token.LOR {
		return append(g02Disjuncts(be.X), g02Disjuncts(be.Y)...)
	}
	return []ast.Expr{e}
}

func g02StatusValue(s string) (uint64, bool) {
	if v, ok := g02HTTPStatus[s]; ok {
		return v, true
	}
	v, err := strconv.ParseUint(s, 10, 16)
	return v, err == nil
}

// literal string arguments of the io.WriteString / fmt.Fprintf calls directly in a statement
func g02WriteLit(f *File, s ast.Stmt) (lit string, isWrite bool, arg string) {
	var call *ast.CallExpr
	ast.Inspect(s, func(x ast.Node) bool {
		if call != nil {
			return false
		}
		if ce, ok := x.(*ast.CallExpr); ok {
			fn := f.Src(ce.Fun)
			if fn == "io.WriteString" || fn == "fmt.Fprintf" || fn == "w.Write" {
				call = ce
				return false
			}
		}
		return true
	})
	if call == nil {
		return "", false, ""
	}
	idx := 1
	if f.Src(call.Fun) == "w.Write" {
		idx = 0
	}
	if len(call.Args) <= idx {
		return "", true, ""
	}
	if v, ok := StringLit(call.Args[idx]); ok {
		return v, true, ""
	}
	return "", true, f.Src(call.Args[idx])
}

func genG02(repo string, w *Out) error {
	// ---------------------------------------------------------------- flush.go
	f, err := Parse(repo, "internal/martian/flush.go")
	if err != nil {
		return err
	}
	sse, sseName, err := g02Patterns(f, "sseFlushPattern", "sseFlushPatterns")
	if err != nil {
		return err
	}
	chunk, chunkName, err := g02Patterns(f, "chunkFlushPattern", "chunkFlushPatterns")
	if err != nil {
		return err
	}
	w.Linef("Definition sse_flush_patterns : list (N * N) := %s.", g02PatList(sse))
	w.Linef("Definition chunk_flush_patterns : list (N * N) := %s.", g02PatList(chunk))

	// patternFlushWriter.Write: the flush condition and the update of w.last
	wr, err := f.Func("patternFlushWriter.Write")
	if err != nil {
		return err
	}
	var conds, ifSrc []string
	ast.Inspect(wr.Body, func(x ast.Node) bool {
		if is, ok := x.(*ast.IfStmt); ok {
			conds = append(conds, f.Src(is.Cond))
			ifSrc = append(ifSrc, f.Src(is))
		}
		return true
	})
	norm := func(s string) string {
		s = strings.ReplaceAll(s, "w.pattern[", "P[")
		s = strings.ReplaceAll(s, "pattern[", "P[")
		s = strings.ReplaceAll(s, "pat[", "P[")
		return s
	}
	contains := []string{"bytes.LastIndex(p, P[:]) != -1", "bytes.Index(p, P[:]) != -1", "bytes.Contains(p, P[:])",
		"bytes.LastIndex(p, P[:]) >= 0", "bytes.Index(p, P[:]) >= 0"}
	straddle := "w.last == P[0] && n > 0 && p[0] == P[1]"
	foundCond, foundLast := false, false
	for i, c := range conds {
		c = norm(c)
		for _, ct := range contains {
			switch c {
			case "(" + straddle + ") || " + ct, ct + " || (" + straddle + ")", straddle + " || " + ct:
				w.DefBool("flush_straddle_check", true)
				w.DefBool("flush_contains_check", true)
				foundCond = true
			case ct:
				w.DefBool("flush_straddle_check", false)
				w.DefBool("flush_contains_check", true)
				foundCond = true
			}
		}
		if c == straddle || c == "("+straddle+")" {
			w.DefBool("flush_straddle_check", true)
			w.DefBool("flush_contains_check", false)
			foundCond = true
		}
		if c == "n > 0" {
			switch ifSrc[i] {
			case "if n > 0 { w.last = p[n-1] } else { w.last = 0 }":
				w.DefBool("flush_resets_last_on_empty", true)
				foundLast = true
			case "if n > 0 { w.last = p[n-1] }":
				w.DefBool("flush_resets_last_on_empty", false)
				foundLast = true
			}
		}
	}
	if !foundCond {
		return fmt.Errorf("patternFlushWriter.Write: flush condition is not a shape the model knows: %q", conds)
	}
	if !foundLast {
		return fmt.Errorf("patternFlushWriter.Write: update of w.last is not a shape the model knows: %q", ifSrc)
	}
	calls := strings.Join(f.CallsIn(wr.Body), " ; ")
	if !strings.Contains(calls, "w.w.Write(p)") || !strings.Contains(calls, "w.f.Flush()") {
		return fmt.Errorf("patternFlushWriter.Write: expected w.w.Write(p) and w.f.Flush(), calls=%s", calls)
	}
	// the order of the two: the data goes to the buffer before the buffer is flushed
	w.DefBool("flush_after_write", strings.Index(calls, "w.w.Write(p)") < strings.Index(calls, "w.f.Flush()") &&
		len(wr.Body.List) > 0 && f.Src(wr.Body.List[0]) == "n, err = w.w.Write(p)")

	// isHeaderOnlySpec: a disjunction of method / status-class / status tests
	ho, err := f.Func("isHeaderOnlySpec")
	if err != nil {
		return err
	}
	if len(ho.Body.List) != 1 {
		return fmt.Errorf("isHeaderOnlySpec: body is not a single return")
	}
	ret, ok := ho.Body.List[0].(*ast.ReturnStmt)
	if !ok || len(ret.Results) != 1 {
		return fmt.Errorf("isHeaderOnlySpec: body is not a single return")
	}
	var methods []string
	var classes, codes []uint64
	reMeth := regexp.MustCompile(`^res\.Request\.Method == (\S+)$`)
	reClass := regexp.MustCompile(`^res\.StatusCode/100 == (\d+)$`)
	reCode := regexp.MustCompile(`^res\.StatusCode == (\S+)$`)
	for _, d := range g02Disjuncts(ret.Results[0]) {
		s := f.Src(d)
		if m := reMeth.FindStringSubmatch(s); m != nil {
			v, ok := g02HTTPConst[m[1]]
			if !ok {
				if u, err := strconv.Unquote(m[1]); err == nil {
					v, ok = u, true
				}
			}
			if !ok {
				return fmt.Errorf("isHeaderOnlySpec: unknown method constant %s", m[1])
			}
			methods = append(methods, v)
		} else if m := reClass.FindStringSubmatch(s); m != nil {
			v, _ := strconv.ParseUint(m[1], 10, 16)
			classes = append(classes, v)
		} else if m := reCode.FindStringSubmatch(s); m != nil {
			v, ok := g02StatusValue(m[1])
			if !ok {
				return fmt.Errorf("isHeaderOnlySpec: unknown status constant %s", m[1])
			}
			codes = append(codes, v)
		} else {
			return fmt.Errorf("isHeaderOnlySpec: disjunct %q is not a shape the model knows", s)
		}
	}
	w.DefStrList("ho_methods", methods)
	w.Linef("Definition ho_status_classes : list N := %s.", g02NList(classes))
	w.Linef("Definition ho_status_codes : list N := %s.", g02NList(codes))

	// shouldChunk
	sc, err := f.Func("shouldChunk")
	if err != nil {
		return err
	}
	var stm []string
	for _, s := range sc.Body.List {
		stm = append(stm, f.Src(s))
	}
	scSrc := strings.Join(stm, " ; ")
	reSC := regexp.MustCompile(`^if res\.ProtoMajor != (\d+) \|\| res\.ProtoMinor != (\d+) \{ return false \} ; if res\.ContentLength != (-?\d+) \{ return false \} ; return (!isHeaderOnlySpec\(res\)|true)$`)
	m := reSC.FindStringSubmatch(scSrc)
	if m == nil {
		return fmt.Errorf("shouldChunk: body %q is not a shape the model knows", scSrc)
	}
	maj, _ := strconv.ParseUint(m[1], 10, 16)
	min, _ := strconv.ParseUint(m[2], 10, 16)
	ul, _ := strconv.ParseInt(m[3], 10, 64)
	w.DefN("sc_proto_major", maj)
	w.DefN("sc_proto_minor", min)
	w.DefZ("sc_unknown_length", ul)
	w.DefBool("sc_negates_header_only", m[4] != "true")

	// isTextEventStream
	ts, err := f.Func("isTextEventStream")
	if err != nil {
		return err
	}
	tsSrc := f.Src(ts.Body)
	if !strings.Contains(tsSrc, `res.Header.Get("Content-Type")`) || !strings.Contains(tsSrc, "mime.ParseMediaType(resCT)") ||
		!strings.Contains(tsSrc, `return baseCT == "text/event-stream"`) {
		return fmt.Errorf("isTextEventStream: body %q is not a shape the model knows", tsSrc)
	}

	// ---------------------------------------------------------------- proxy_conn.go
	pc, err := Parse(repo, "internal/martian/proxy_conn.go")
	if err != nil {
		return err
	}
	who, err := pc.Func("writeHeaderOnlyResponse")
	if err != nil {
		return err
	}
	// top-level statements: text computation, status line, header, trailer block, tail
	var statusFmt string
	usesHeaderWrite := false
	var prefix, sep string
	var suffix, tail []string
	seenTrailerIf := false
	// the local that holds the reason text may have any name: normalise it to "text"
	textName := "text"
	if as, ok := who.Body.List[0].(*ast.AssignStmt); ok && len(as.Lhs) == 1 {
		if id, ok := as.Lhs[0].(*ast.Ident); ok {
			textName = id.Name
		}
	}
	reText := regexp.MustCompile(`\b` + regexp.QuoteMeta(textName) + `\b`)
	for si, s := range who.Body.List {
		src := reText.ReplaceAllString(pc.Src(s), "text")
		if is, ok := s.(*ast.IfStmt); ok && pc.Src(is.Cond) == "len(res.Trailer) > 0" {
			seenTrailerIf = true
			state := 0 // 0 before loop, 1 after loop
			for _, ts := range is.Body.List {
				if rs, ok := ts.(*ast.RangeStmt); ok {
					if pc.Src(rs.X) != "maps.Keys(res.Trailer)" {
						return fmt.Errorf("writeHeaderOnlyResponse: trailer loop ranges over %s", pc.Src(rs.X))
					}
					body := pc.Src(rs.Body)
					reLoop := regexp.MustCompile(`^\{ if i > 0 \{ if _, err := io\.WriteString\(w, ("(?:[^"\\]|\\.)*")\); err != nil \{ return err \} \} if _, err := io\.WriteString\(w, k\); err != nil \{ return err \} \}$`)
					lm := reLoop.FindStringSubmatch(body)
					if lm == nil {
						return fmt.Errorf("writeHeaderOnlyResponse: trailer loop body %q is not a shape the model knows", body)
					}
					sep, _ = strconv.Unquote(lm[1])
					state = 1
					continue
				}
				lit, isW, arg := g02WriteLit(pc, ts)
				if !isW || arg != "" {
					return fmt.Errorf("writeHeaderOnlyResponse: statement %q in the trailer block is not a literal write", pc.Src(ts))
				}
				if state == 0 {
					if prefix != "" {
						return fmt.Errorf("writeHeaderOnlyResponse: two literal writes before the trailer loop")
					}
					prefix = lit
				} else {
					suffix = append(suffix, lit)
				}
			}
			if state != 1 {
				return fmt.Errorf("writeHeaderOnlyResponse: trailer block has no key loop")
			}
			continue
		}
		if strings.Contains(src, "fmt.Fprintf(w, ") {
			lit, _, _ := g02WriteLit(pc, s)
			if !strings.Contains(src, "res.ProtoMajor, res.ProtoMinor, res.StatusCode, text") {
				return fmt.Errorf("writeHeaderOnlyResponse: status line arguments changed: %q", src)
			}
			statusFmt = lit
			continue
		}
		if strings.Contains(src, "res.Header.Write(w)") {
			if seenTrailerIf || statusFmt == "" {
				return fmt.Errorf("writeHeaderOnlyResponse: res.Header.Write(w) is not between the status line and the trailer block")
			}
			usesHeaderWrite = true
			continue
		}
		if lit, isW, arg := g02WriteLit(pc, s); isW && seenTrailerIf {
			if arg != "" {
				return fmt.Errorf("writeHeaderOnlyResponse: non-literal write %q after the trailer block", src)
			}
			tail = append(tail, lit)
			continue
		}
		// the computation of the reason text (checked below) and the final return are the only other statements
		if si < 2 || src == "return nil" {
			continue
		}
		return fmt.Errorf("writeHeaderOnlyResponse: statement %q is not part of the shape the model knows", src)
	}
	if statusFmt == "" || !seenTrailerIf {
		return fmt.Errorf("writeHeaderOnlyResponse: status line or trailer block not found")
	}
	textSrc := reText.ReplaceAllString(pc.Src(who.Body.List[0])+" ; "+pc.Src(who.Body.List[1]), "text")
	wantText := `text := res.Status ; if text == "" { text = http.StatusText(res.StatusCode) if text == "" { text = "status code " + strconv.Itoa(res.StatusCode) } } else { text = strings.TrimPrefix(text, strconv.Itoa(res.StatusCode)+" ") }`
	if strings.Join(strings.Fields(textSrc), " ") != wantText {
		return fmt.Errorf("writeHeaderOnlyResponse: computation of the reason text %q is not the shape the model knows", textSrc)
	}
	w.DefStr("ho_status_format", statusFmt)
	w.DefBool("ho_uses_header_write", usesHeaderWrite)
	w.DefStr("ho_trailer_prefix", prefix)
	w.DefStr("ho_trailer_sep", sep)
	w.DefStrList("ho_trailer_suffix", suffix)
	w.DefStrList("ho_tail", tail)

	// writeResponse: close decision, Connection: close, order of the writer switch
	wresp, err := pc.Func("proxyConn.writeResponse")
	if err != nil {
		return err
	}
	// writeResponse may delegate to a variant taking extra arguments (return p.<name>(res, ...))
	if len(wresp.Body.List) == 1 {
		if rs, ok := wresp.Body.List[0].(*ast.ReturnStmt); ok && len(rs.Results) == 1 {
			if ce, ok := rs.Results[0].(*ast.CallExpr); ok && len(ce.Args) >= 1 && pc.Src(ce.Args[0]) == "res" {
				name := strings.TrimPrefix(pc.Src(ce.Fun), "p.")
				if wresp, err = pc.Func("proxyConn." + name); err != nil {
					return err
				}
			}
		}
	}
	var closeIf, connIf, reframeIf string
	var outerCases, innerCases []string
	for _, s := range wresp.Body.List {
		switch st := s.(type) {
		case *ast.IfStmt:
			c := pc.Src(st.Cond)
			switch {
			case c == "p.closing()":
				closeIf = pc.Src(st)
			case c == "res.Close" && strings.Contains(pc.Src(st.Body), "res.Header.Add"):
				connIf = pc.Src(st.Body)
			case strings.Contains(c, "res.ContentLength == -1"):
				reframeIf = pc.Src(st)
			}
		case *ast.SwitchStmt:
			if st.Tag != nil || len(outerCases) > 0 {
				continue
			}
			for _, cs := range st.Body.List {
				cc := cs.(*ast.CaseClause)
				if cc.List == nil {
					outerCases = append(outerCases, "default")
					for _, ds := range cc.Body {
						if sw, ok := ds.(*ast.SwitchStmt); ok {
							for _, ics := range sw.Body.List {
								icc := ics.(*ast.CaseClause)
								label := "default"
								if icc.List != nil {
									label = pc.Src(icc.List[0])
								}
								body := ""
								for _, bs := range icc.Body {
									body += pc.Src(bs) + " ; "
								}
								innerCases = append(innerCases, label+" => "+strings.TrimSuffix(body, " ; "))
							}
						}
					}
				} else {
					body := ""
					for _, bs := range cc.Body {
						body += pc.Src(bs) + " ; "
					}
					outerCases = append(outerCases, pc.Src(cc.List[0])+" => "+strings.TrimSuffix(body, " ; "))
				}
			}
		}
	}
	switch closeIf {
	case "if p.closing() { res.Close = true } else { if req.Close { res.Close = true } if req.Method == http.MethodConnect && res.StatusCode/100 == 2 { res.Close = false } }":
		w.DefBool("wr_close_when_closing", true)
		w.DefBool("wr_close_when_req_close", true)
		w.DefBool("wr_connect_keeps_open", true)
		w.DefBool("wr_upgrade_keeps_open", false)
	case "if p.closing() { res.Close = true } else { if req.Close { res.Close = true } if req.Method == http.MethodConnect && res.StatusCode/100 == 2 { res.Close = false } if res.StatusCode == http.StatusSwitchingProtocols { res.Close = false } }":
		w.DefBool("wr_close_when_closing", true)
		w.DefBool("wr_close_when_req_close", true)
		w.DefBool("wr_connect_keeps_open", true)
		w.DefBool("wr_upgrade_keeps_open", true)
	default:
		return fmt.Errorf("writeResponse: close decision %q is not a shape the model knows", closeIf)
	}
	switch connIf {
	case `{ res.Header.Add("Connection", "close") }`:
		w.DefBool("wr_adds_connection_close", true)
	case "":
		w.DefBool("wr_adds_connection_close", false)
	default:
		return fmt.Errorf("writeResponse: block after `if res.Close` is %q, not a shape the model knows", connIf)
	}
	switch strings.Join(strings.Fields(reframeIf), " ") {
	case "":
		w.DefBool("wr_frames_unknown_length", false)
		w.DefBool("wr_reframes_close_delimited", false)
	case g02ReframeShape:
		w.DefBool("wr_frames_unknown_length", true)
		w.DefBool("wr_reframes_close_delimited", false)
	case strings.Replace(g02ReframeShape, "case len(res.TransferEncoding) == 0 && !res.Close:", "case len(res.TransferEncoding) == 0:", 1):
		// a close-delimited upstream body is also sent chunked (and the connection still closed)
		w.DefBool("wr_frames_unknown_length", true)
		w.DefBool("wr_reframes_close_delimited", true)
	default:
		return fmt.Errorf("writeResponse: framing repair block %q is not a shape the model knows", reframeIf)
	}
	wantOuter := []string{
		"req.Method == http.MethodConnect && res.StatusCode/100 == 2 => err = writeConnectOKResponse(p.brw.Writer)",
		"isHeaderOnlySpec(res) => err = writeHeaderOnlyResponse(p.brw.Writer, res)",
		"default",
	}
	sseArg, chunkArg := sseName, chunkName
	if len(sseName) > 0 && strings.HasSuffix(sseName, "s") {
		sseArg += "..."
	}
	if strings.HasSuffix(chunkName, "s") {
		chunkArg += "..."
	}
	wantInner := []string{
		"isTextEventStream(res) => w := newPatternFlushWriter(p.brw.Writer, p.brw.Writer, " + sseArg + ") ; err = res.Write(w)",
		"shouldChunk(res) => w := newPatternFlushWriter(p.brw.Writer, p.brw.Writer, " + chunkArg + ") ; err = res.Write(w)",
		"default => err = res.Write(p.brw)",
	}
	if strings.Join(outerCases, " | ") != strings.Join(wantOuter, " | ") {
		return fmt.Errorf("writeResponse: writer switch %q is not the shape the model knows", outerCases)
	}
	if strings.Join(innerCases, " | ") != strings.Join(wantInner, " | ") {
		return fmt.Errorf("writeResponse: inner writer switch %q is not the shape the model knows (want %q)", innerCases, wantInner)
	}
	w.DefStrList("wr_outer_cases", []string{"connect-ok", "header-only", "default"})
	w.DefStrList("wr_inner_cases", []string{"sse", "chunk", "plain"})
	// the flush at the end
	if !strings.Contains(pc.Src(wresp.Body), "if err != nil { p.brw.Flush() } else { err = p.brw.Flush() }") {
		return fmt.Errorf("writeResponse: final flush of the buffered writer not found")
	}
	// the tail: what is returned when writing the response failed, and when res.Close is set
	var tailIfs []string
	for _, st := range wresp.Body.List {
		if is, ok := st.(*ast.IfStmt); ok {
			c := pc.Src(is.Cond)
			if c == "err != nil" && strings.Contains(pc.Src(is.Body), "isClosedConnError(err)") {
				tailIfs = append(tailIfs, pc.Src(is))
			}
			if c == "res.Close" && strings.Contains(pc.Src(is.Body), "return errClose") {
				tailIfs = append(tailIfs, pc.Src(is))
			}
		}
	}
	reLog := regexp.MustCompile(`log\.(Debug|Error)\(ctx, "[^"]*"(, "error", err)?\)`)
	var tailNorm []string
	for _, t := range tailIfs {
		tailNorm = append(tailNorm, strings.Join(strings.Fields(reLog.ReplaceAllString(t, "LOG")), " "))
	}
	tailJoined := strings.Join(tailNorm, " ; ")
	switch tailJoined {
	case "if err != nil { if isClosedConnError(err) { LOG } else { LOG } return errClose } ; if res.Close { LOG return errClose }":
		w.DefBool("wr_write_error_closes", true)
	case "if err != nil { if isClosedConnError(err) { LOG return errClose } LOG return err } ; if res.Close { LOG return errClose }",
		"if err != nil { if isClosedConnError(err) { LOG return errClose } return err } ; if res.Close { LOG return errClose }":
		// only "closed connection" errors end the client connection; any other error is handed to the loop, which keeps it
		w.DefBool("wr_write_error_closes", false)
	default:
		return fmt.Errorf("writeResponse: tail %q is not a shape the model knows", tailJoined)
	}

	// ---------------------------------------------------------------- proxy_handler.go: the http.Handler variant of the writer
	ph, err := Parse(repo, "internal/martian/proxy_handler.go")
	if err != nil {
		return err
	}
	hwr, err := ph.Func("proxyHandler.writeResponse")
	if err != nil {
		return err
	}
	var hcases []string
	for _, st := range hwr.Body.List {
		sw, ok := st.(*ast.SwitchStmt)
		if !ok || sw.Tag != nil || len(hcases) > 0 {
			continue
		}
		for _, cs := range sw.Body.List {
			cc := cs.(*ast.CaseClause)
			label := "default"
			if cc.List != nil {
				label = ph.Src(cc.List[0])
			}
			body := ""
			for _, bs := range cc.Body {
				body += ph.Src(bs) + " ; "
			}
			hcases = append(hcases, label+" => "+strings.TrimSuffix(body, " ; "))
		}
	}
	hJoined := strings.Join(hcases, " | ")
	switch hJoined {
	case "isTextEventStream(res) => w := newPatternFlushWriter(rw, http.NewResponseController(rw), " + sseArg + ") ; err = copyBody(w, res.Body) | " +
		"shouldChunk(res) => w := newPatternFlushWriter(rw, http.NewResponseController(rw), " + chunkArg + ") ; err = copyBody(w, res.Body) | " +
		"default => err = copyBody(rw, res.Body)":
		// pattern writer on the DECODED body: chunk boundaries are invisible to it
		w.DefBool("hw_unknown_length_flushes_every_write", false)
	case "shouldChunk(res) => w := flushAfterWriteWriter{rw, http.NewResponseController(rw)} ; err = copyBody(w, res.Body) | " +
		"isTextEventStream(res) => w := newPatternFlushWriter(rw, http.NewResponseController(rw), " + sseArg + ") ; err = copyBody(w, res.Body) | " +
		"default => err = copyBody(rw, res.Body)":
		w.DefBool("hw_unknown_length_flushes_every_write", true)
	default:
		return fmt.Errorf("proxyHandler.writeResponse: writer switch %q is not a shape the model knows", hcases)
	}
	// the rest of proxyHandler.writeResponse and its helpers: header copy, Trailer announcement, trailers after the body
	ath, err := ph.Func("addTrailerHeader")
	if err != nil {
		return err
	}
	athSrc := ph.Src(ath.Body)
	reATH := regexp.MustCompile(`^\{ announcedTrailers := len\(tr\) if announcedTrailers == 0 \{ return 0 \} trailerKeys := make\(\[\]string, 0, announcedTrailers\) for k := range tr \{ trailerKeys = append\(trailerKeys, k\) \} rw\.Header\(\)\.Add\("Trailer", strings\.Join\(trailerKeys, ("(?:[^"\\]|\\.)*")\)\) return announcedTrailers \}$`)
	am := reATH.FindStringSubmatch(athSrc)
	if am == nil {
		return fmt.Errorf("addTrailerHeader: body %q is not the shape the model knows", athSrc)
	}
	hsep, _ := strconv.Unquote(am[1])
	w.DefStr("hw_trailer_sep", hsep)
	ch, err := ph.Func("copyHeader")
	if err != nil {
		return err
	}
	if ph.Src(ch.Body) != "{ for k, vv := range src { for _, v := range vv { dst.Add(k, v) } } }" {
		return fmt.Errorf("copyHeader: body %q is not the shape the model knows", ph.Src(ch.Body))
	}
	var hstm []string
	for _, st := range hwr.Body.List {
		if _, ok := st.(*ast.SwitchStmt); ok {
			hstm = append(hstm, "SWITCH")
			continue
		}
		txt := ph.Src(st)
		if strings.HasPrefix(txt, "if err != nil {") && strings.Contains(txt, "panic(http.ErrAbortHandler)") {
			// the copy-error branch: every error must abort the handler (net/http then drops the connection
			// instead of finishing the message, so a body cut short cannot look complete)
			reLogH := regexp.MustCompile(`log\.(Debug|Error)\(res\.Request\.Context\(\), "[^"]*", "error", err\)`)
			n := strings.Join(strings.Fields(reLogH.ReplaceAllString(txt, "LOG")), " ")
			switch n {
			case "if err != nil { p.traceWroteResponse(res, err) if isClosedConnError(err) { LOG } else { LOG } panic(http.ErrAbortHandler) }":
				w.DefBool("hw_copy_error_aborts", true)
			case "if err != nil { p.traceWroteResponse(res, err) if isClosedConnError(err) { LOG return } LOG panic(http.ErrAbortHandler) }":
				w.DefBool("hw_copy_error_aborts", false)
			default:
				return fmt.Errorf("proxyHandler.writeResponse: copy-error branch %q is not a shape the model knows", n)
			}
			hstm = append(hstm, "ABORT-ON-ERROR")
			continue
		}
		if strings.HasPrefix(txt, "p.traceWroteResponse(") || strings.HasPrefix(txt, "if !skipTraceWroteResponse(") {
			hstm = append(hstm, "TRACE")
			continue
		}
		hstm = append(hstm, txt)
	}
	wantH := []string{"copyHeader(rw.Header(), res.Header)", "announcedTrailers := addTrailerHeader(rw, res.Trailer)", "rw.WriteHeader(res.StatusCode)",
		"if f, ok := rw.(http.Flusher); ok { f.Flush() }", "var err error", "SWITCH", "ABORT-ON-ERROR", "res.Body.Close()",
		"if len(res.Trailer) == announcedTrailers { copyHeader(rw.Header(), res.Trailer) } else { h := rw.Header() for k, vv := range res.Trailer { for _, v := range vv { h.Add(http.TrailerPrefix+k, v) } } }",
		"TRACE"}
	if strings.Join(hstm, " ;; ") != strings.Join(wantH, " ;; ") {
		return fmt.Errorf("proxyHandler.writeResponse: statements %q are not the shape the model knows", hstm)
	}
	w.DefStr("hw_trailer_prefix", "Trailer:") // net/http.TrailerPrefix

	if _, err := f.Func("flushAfterWriteWriter.Write"); err == nil {
		fw, _ := f.Func("flushAfterWriteWriter.Write")
		var fs []string
		for _, st := range fw.Body.List {
			fs = append(fs, f.Src(st))
		}
		if strings.Join(fs, " ; ") != "n, err = w.w.Write(p) ; if err != nil { return } ; if n > 0 { err = w.f.Flush() } ; return" {
			return fmt.Errorf("flushAfterWriteWriter.Write: body %q is not the shape the model knows", fs)
		}
	}

	// ---------------------------------------------------------------- proxy_conn.go handle(): the request body is closed on every path
	hd, err := pc.Func("proxyConn.handle")
	if err != nil {
		return err
	}
	closes := false
	for i, st := range hd.Body.List {
		if pc.Src(st) == "defer req.Body.Close()" {
			// it must come right after the read-error block, before anything can return without a round trip
			if i > 3 {
				return fmt.Errorf("handle: defer req.Body.Close() is statement #%d, not right after the request was read", i)
			}
			closes = true
		}
	}
	w.DefBool("hd_closes_request_body", closes)
	// proxy.go modifyErrorResponse: the proxy's own challenge survives the response modifiers
	pxe, err := Parse(repo, "internal/martian/proxy.go")
	if err != nil {
		return err
	}
	if mer, err := pxe.Func("Proxy.modifyErrorResponse"); err == nil {
		var ms []string
		for _, st := range mer.Body.List {
			ms = append(ms, pxe.Src(st))
		}
		switch strings.Join(ms, " ; ") {
		case `challenge := res.Header.Values("Proxy-Authenticate") ; err := p.modifyResponse(res) ; if len(challenge) > 0 { res.Header["Proxy-Authenticate"] = challenge } ; return err`:
			w.DefBool("er_keeps_challenge", true)
		default:
			return fmt.Errorf("modifyErrorResponse: body %q is not a shape the model knows", ms)
		}
	} else {
		w.DefBool("er_keeps_challenge", false)
	}

	// ---------------------------------------------------------------- proxy_connect.go
	pcc, err := Parse(repo, "internal/martian/proxy_connect.go")
	if err != nil {
		return err
	}
	ce, err := pcc.ValueSpec("connectOKResponse")
	if err != nil {
		return err
	}
	lit, ok := FirstStringArg(ce)
	if !ok {
		return fmt.Errorf("proxy_connect.go: connectOKResponse is not []byte(\"...\")")
	}
	w.DefStr("connect_ok_literal", lit)

	// ---------------------------------------------------------------- proxy.go roundTrip
	px, err := Parse(repo, "internal/martian/proxy.go")
	if err != nil {
		return err
	}
	rt, err := px.Func("Proxy.roundTrip")
	if err != nil {
		return err
	}
	discards := false
	unknownHO := ""
	ast.Inspect(rt.Body, func(x ast.Node) bool {
		if is, ok := x.(*ast.IfStmt); ok && strings.Contains(px.Src(is.Cond), "isHeaderOnlySpec(res)") {
			c := px.Src(is.Cond)
			bd := px.Src(is.Body)
			if c == "isHeaderOnlySpec(res) && res.StatusCode != http.StatusSwitchingProtocols && res.Body != http.NoBody" &&
				strings.Contains(bd, "res.Body.Close()") && strings.Contains(bd, "res.Body = http.NoBody") {
				discards = true
			} else {
				unknownHO = c + " " + bd
			}
		}
		return true
	})
	if unknownHO != "" {
		return fmt.Errorf("roundTrip: header-only body handling %q is not a shape the model knows", unknownHO)
	}
	w.DefBool("rt_discards_header_only_body", discards)

	// ---------------------------------------------------------------- hop-by-hop list
	hh, err := Parse(repo, "internal/martian/header/hopbyhop_modifier.go")
	if err != nil {
		return err
	}
	hl, err := hh.ValueSpec("hopByHopHeaders")
	if err != nil {
		return err
	}
	hcl, ok := hl.(*ast.CompositeLit)
	if !ok {
		return fmt.Errorf("hopbyhop_modifier.go: hopByHopHeaders is not a composite literal")
	}
	var hops []string
	for _, el := range hcl.Elts {
		s, ok := StringLit(el)
		if !ok {
			return fmt.Errorf("hopbyhop_modifier.go: hopByHopHeaders element is not a string literal")
		}
		hops = append(hops, s)
	}
	w.DefStrList("hop_by_hop", hops)
	// removeHopByHopHeaders: how the fields nominated by Connection are found
	rh, err := hh.Func("removeHopByHopHeaders")
	if err != nil {
		return err
	}
	var loops []string
	for _, st := range rh.Body.List {
		if rs, ok := st.(*ast.RangeStmt); ok {
			loops = append(loops, hh.Src(rs))
		}
	}
	if len(loops) != 2 || loops[1] != "for _, k := range hopByHopHeaders { header.Del(k) }" {
		return fmt.Errorf("removeHopByHopHeaders: loops %q are not the shape the model knows", loops)
	}
	switch loops[0] {
	case `for _, vs := range header["Connection"] { for _, v := range strings.Split(vs, ",") { k := http.CanonicalHeaderKey(strings.TrimSpace(v)) header.Del(k) } }`,
		`for _, vs := range header["Connection"] { for _, v := range strings.Split(vs, ",") { header.Del(strings.TrimSpace(v)) } }`:
		w.DefBool("hbh_trims_connection_token", true)
	case `for _, vs := range header["Connection"] { for _, k := range strings.Split(vs, ",") { header.Del(k) } }`,
		`for _, vs := range header["Connection"] { for _, v := range strings.Split(vs, ",") { k := http.CanonicalHeaderKey(v) header.Del(k) } }`:
		w.DefBool("hbh_trims_connection_token", false)
	default:
		return fmt.Errorf("removeHopByHopHeaders: Connection loop %q is not a shape the model knows", loops[0])
	}
	return nil
}

// the repair block of writeResponse the model knows (see RespFraming.reframe)
const g02ReframeShape = `if res.ContentLength == -1 && !isHeaderOnlySpec(res) && !(req.Method == http.MethodConnect && res.StatusCode/100 == 2) { switch { case !req.ProtoAtLeast(1, 1): res.TransferEncoding = nil res.Close = true case len(res.TransferEncoding) == 0 && !res.Close: if res.ProtoAtLeast(1, 1) { res.TransferEncoding = []string{"chunked"} } else { res.Close = true } } }`
