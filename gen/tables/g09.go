package main

import (
	"fmt"
	"go/ast"
	"strings"
)

func init() { register("g09", genG09) }

// g09Body renders a function body on one line.
func g09Body(f *File, name string) (string, *ast.FuncDecl, error) {
	fd, err := f.Func(name)
	if err != nil {
		return "", nil, err
	}
	return f.Src(fd.Body), fd, nil
}

// g09Need fails unless every snippet occurs in text, in this order.
func g09Need(where, text string, snippets ...string) error {
	pos := 0
	for _, s := range snippets {
		i := strings.Index(text[pos:], s)
		if i < 0 {
			return fmt.Errorf("%s: expected %q (after offset %d) in %q", where, s, pos, text)
		}
		pos += i + len(s)
	}
	return nil
}

// g09Stmts renders the statements of a block, one string per statement.
func g09Stmts(f *File, b *ast.BlockStmt) []string {
	var out []string
	for _, s := range b.List {
		out = append(out, f.Src(s))
	}
	return out
}

// g09Exact fails unless the block consists of exactly the given statements.
func g09Exact(where string, f *File, b *ast.BlockStmt, want ...string) error {
	got := g09Stmts(f, b)
	if len(got) != len(want) {
		return fmt.Errorf("%s: %d statements %q, the model knows %d: %q", where, len(got), got, len(want), want)
	}
	for i := range got {
		if got[i] != want[i] {
			return fmt.Errorf("%s: statement #%d is %q, the model knows %q", where, i, got[i], want[i])
		}
	}
	return nil
}

// g09Loop returns the body of the first for/range statement in the function.
func g09Loop(fd *ast.FuncDecl) *ast.BlockStmt {
	var body *ast.BlockStmt
	ast.Inspect(fd.Body, func(x ast.Node) bool {
		if body != nil {
			return false
		}
		switch l := x.(type) {
		case *ast.ForStmt:
			body = l.Body
		case *ast.RangeStmt:
			body = l.Body
		}
		return body == nil
	})
	return body
}

// genG09 reads internal/martian/h2/{relay,queued_frames,h2}.go.
func genG09(repo string, w *Out) error {
	rf, err := Parse(repo, "internal/martian/h2/relay.go")
	if err != nil {
		return err
	}
	qf, err := Parse(repo, "internal/martian/h2/queued_frames.go")
	if err != nil {
		return err
	}
	hf, err := Parse(repo, "internal/martian/h2/h2.go")
	if err != nil {
		return err
	}

	// undo renamings of local variables (harmless refactors) before the shapes are matched
	for _, x := range []struct {
		f   *File
		ref string
	}{{rf, g09Ref_relay}, {qf, g09Ref_queued_frames}, {hf, g09Ref_h2}} {
		if ch := g09Unrename(x.f, x.ref); len(ch) > 0 {
			w.Linef("(* locals renamed back to the reference names in: %s *)", strings.Join(ch, ", "))
		}
	}

	// ---- constants
	for _, c := range [][2]string{
		{"initialMaxFrameSize", "initial_max_frame_size"},
		{"initialMaxHeaderTableSize", "initial_header_table_size"},
		{"defaultInitialWindowSize", "default_initial_window"},
		{"headersPriorityMetadataLength", "headers_priority_len"},
		{"pushPromiseMetadataLength", "push_promise_meta_len"},
		{"outputChannelSize", "output_channel_size"},
	} {
		e, err := rf.ValueSpec(c[0])
		if err != nil {
			return err
		}
		v, ok := IntLit(e)
		if !ok || v < 0 {
			return fmt.Errorf("relay.go: %s is not a non-negative integer literal", c[0])
		}
		w.DefN(c[1], uint64(v))
	}

	// ---- newRelay: which constants initialise which fields
	nb, _, err := g09Body(rf, "newRelay")
	if err != nil {
		return err
	}
	if err := g09Need("newRelay", nb, "maxFrameSize: initialMaxFrameSize", "decoder: hpack.NewDecoder(initialMaxHeaderTableSize, nil)",
		"initialWindowSize: defaultInitialWindowSize", "connectionWindowSize: defaultInitialWindowSize",
		"output: make(chan queuedFrame, outputChannelSize)"); err != nil {
		return err
	}

	// the relay's own HPACK decoder and encoder must accept any table size an endpoint may negotiate
	unb := strings.Contains(nb, "ret.decoder.SetAllowedMaxDynamicTableSize(math.MaxUint32)") &&
		strings.Contains(nb, "ret.encoder.SetMaxDynamicTableSizeLimit(math.MaxUint32)")
	if !unb && !(strings.Contains(nb, "SetAllowedMaxDynamicTableSize(") && strings.Contains(nb, "SetMaxDynamicTableSizeLimit(")) {
		return fmt.Errorf("newRelay: the HPACK table limits are not set in a way the model knows: %q", nb)
	}
	w.DefBool("hpack_limits_unbounded", unb)

	// ---- emitEligibleFrames: gate and debits
	eb, efd, err := g09Body(rf, "outputBuffer.emitEligibleFrames")
	if err != nil {
		return err
	}
	var conds []string
	ast.Inspect(efd.Body, func(x ast.Node) bool {
		if is, ok := x.(*ast.IfStmt); ok {
			conds = append(conds, rf.Src(is.Cond))
		}
		return true
	})
	// the gate is the first if statement; the second one (if present) is the prepare hook
	if len(conds) < 1 || len(conds) > 2 || (len(conds) == 2 && conds[1] != "ok") {
		return fmt.Errorf("emitEligibleFrames: expected the gate and the prepare hook, found %q", conds)
	}
	parts := strings.Split(conds[0], " || ")
	if len(parts) != 2 {
		return fmt.Errorf("emitEligibleFrames: gate %q is not a disjunction of two comparisons", conds[0])
	}
	gate := func(s, rhs string) (bool, error) {
		switch s {
		case "f.flowControlSize() > " + rhs:
			return true, nil
		case "f.flowControlSize() >= " + rhs:
			return false, nil
		}
		return false, fmt.Errorf("emitEligibleFrames: comparison %q is not a shape the model knows", s)
	}
	cgt, err := gate(parts[0], "*connectionWindowSize")
	if err != nil {
		return err
	}
	sgt, err := gate(parts[1], "w.windowSize")
	if err != nil {
		return err
	}
	w.DefBool("emit_conn_blocks_on_gt", cgt)
	w.DefBool("emit_stream_blocks_on_gt", sgt)
	loop := g09Loop(efd)
	if loop == nil {
		return fmt.Errorf("emitEligibleFrames: no loop")
	}
	stm := g09Stmts(rf, loop)
	// the loop body, statement by statement: gate; [prepare]; release; debits; unlink
	var rest []string
	for _, x := range stm {
		if x == "*connectionWindowSize -= f.flowControlSize()" || x == "w.windowSize -= f.flowControlSize()" {
			continue
		}
		rest = append(rest, x)
	}
	wantLoop := []string{
		"f := e.Value.(queuedFrame)",
		"if " + conds[0] + " { break }",
		"if p, ok := f.(interface{ prepare() }); ok { p.prepare() }",
		"output <- f",
		"next := e.Next()", "w.queue.Remove(e)", "e = next",
	}
	if strings.Join(rest, " ; ") != strings.Join(wantLoop, " ; ") {
		return fmt.Errorf("emitEligibleFrames: loop body %q is not the shape the model knows %q", rest, wantLoop)
	}
	w.DefBool("hpack_at_release", true)
	w.DefBool("emit_debits_conn", strings.Contains(eb, "*connectionWindowSize -= f.flowControlSize()"))
	w.DefBool("emit_debits_stream", strings.Contains(eb, "w.windowSize -= f.flowControlSize()"))

	// ---- flowControlSize of each queued frame kind
	for _, t := range []struct{ typ, ret string }{
		{"queuedDataFrame", "return len(f.data)"}, {"queuedHeaderFrame", "return 0"}, {"queuedPushPromiseFrame", "return 0"},
		{"queuedPriorityFrame", "return 0"}, {"queuedRSTStreamFrame", "return 0"},
	} {
		b, _, err := g09Body(qf, t.typ+".flowControlSize")
		if err != nil {
			return err
		}
		if err := g09Need(t.typ+".flowControlSize", b, t.ret); err != nil {
			return err
		}
	}

	// ---- sendWindowUpdates: what is credited
	sb, _, err := g09Body(rf, "relay.sendWindowUpdates")
	if err != nil {
		return err
	}
	const lenData = "uint32(len(f.Data()))"
	switch {
	case strings.Contains(sb, "if len(f.Data()) == 0 { return nil }") &&
		strings.Contains(sb, "r.dest.WriteWindowUpdate(0, "+lenData+")") &&
		strings.Contains(sb, "r.dest.WriteWindowUpdate(f.StreamID, "+lenData+")"):
		w.DefBool("credit_frame_length", false)
	case strings.Contains(sb, "if f.Length == 0 { return nil }") &&
		strings.Contains(sb, "r.dest.WriteWindowUpdate(0, f.Length)") &&
		strings.Contains(sb, "r.dest.WriteWindowUpdate(f.StreamID, f.Length)"):
		w.DefBool("credit_frame_length", true)
	default:
		return fmt.Errorf("sendWindowUpdates: body %q is not a shape the model knows", sb)
	}
	if err := g09Need("sendWindowUpdates", sb, "WriteWindowUpdate(0,", "WriteWindowUpdate(f.StreamID,"); err != nil {
		return err
	}

	// ---- processFrame
	pb, pfd, err := g09Body(rf, "relay.processFrame")
	if err != nil {
		return err
	}
	if err := g09Need("processFrame", pb,
		"case *http2.DataFrame:", "r.peer.sendWindowUpdates(f)", "r.processor(f.StreamID).Data(f.Data(), f.StreamEnded())",
		"case *http2.HeadersFrame:", "if !f.HeadersEnded() {", "r.headerBuffer.Reset()", "r.headerBuffer.Write(f.HeaderBlockFragment())",
		"r.decodeFull(f.HeaderBlockFragment())", "r.processor(f.StreamID).Header(headers, f.StreamEnded(), f.Priority)",
		"case *http2.PriorityFrame:", "r.processor(f.StreamID).Priority(f.PriorityParam)",
		"case *http2.RSTStreamFrame:", "r.processor(f.StreamID).RSTStream(f.ErrCode)",
		"case *http2.SettingsFrame:", "if f.IsAck() {", "r.dest.WriteSettingsAck()",
		"case http2.SettingHeaderTableSize:", "r.peer.updateTableSize(s.Val)",
		"case http2.SettingInitialWindowSize:", "r.peer.updateInitialWindowSize(s.Val)",
		"case http2.SettingMaxFrameSize:", "r.peer.updateMaxFrameSize(s.Val)",
		"settings = append(settings, s)", "r.dest.WriteSettings(settings...)",
		"case *http2.PushPromiseFrame:", "r.continuationState = &pushPromiseContinuation{f.PromiseID}",
		"r.processor(f.StreamID).PushPromise(f.PromiseID, headers)",
		"case *http2.PingFrame:", "r.dest.WritePing(f.IsAck(), f.Data)",
		"case *http2.GoAwayFrame:", "r.dest.WriteGoAway(f.LastStreamID, f.ErrCode, f.DebugData())",
		"case *http2.WindowUpdateFrame:", "r.peer.updateWindow(f)",
		"case *http2.ContinuationFrame:", "r.headerBuffer.Write(f.HeaderBlockFragment())", "if f.HeadersEnded() {",
		"r.decodeFull(r.headerBuffer.Bytes())", "r.continuationState.complete(r.processor(f.StreamID), headers)",
		"default:", "err = errors.New("); err != nil {
		return err
	}
	// connection-level frames are written directly, under destMu (the writer goroutine writes to the same framer)
	for _, c := range []struct{ label, call string }{
		{"*http2.PingFrame", "err = r.dest.WritePing(f.IsAck(), f.Data)"},
		{"*http2.GoAwayFrame", "err = r.dest.WriteGoAway(f.LastStreamID, f.ErrCode, f.DebugData())"},
	} {
		body, err := rf.CaseBody(pfd.Body, c.label)
		if err != nil {
			return err
		}
		if err := g09Exact("processFrame case "+c.label, rf, &ast.BlockStmt{List: body}, "r.destMu.Lock()", c.call, "r.destMu.Unlock()"); err != nil {
			return err
		}
	}
	if err := g09Need("processFrame (SETTINGS under destMu)", pb, "r.destMu.Lock() err = r.dest.WriteSettingsAck() r.destMu.Unlock()",
		"r.destMu.Lock() err = r.dest.WriteSettings(settings...) r.destMu.Unlock()"); err != nil {
		return err
	}
	// is every setting validated before it is applied?
	validated := false
	ast.Inspect(pfd.Body, func(x ast.Node) bool {
		fl, ok := x.(*ast.FuncLit)
		if !ok || len(fl.Body.List) == 0 {
			return true
		}
		first := rf.Src(fl.Body.List[0])
		if first == "if err := s.Valid(); err != nil { return err }" {
			validated = true
		}
		return true
	})
	if !validated && strings.Contains(pb, "Valid()") {
		return fmt.Errorf("processFrame: a Valid() call exists but not as the first statement of the ForeachSetting callback")
	}
	w.DefBool("settings_validated", validated)

	// END_STREAM of a header block completed by CONTINUATION
	cb, _, err := g09Body(rf, "headerContinuation.complete")
	if err != nil {
		return err
	}
	switch {
	case strings.Contains(cb, "return s.Header(headers, true, h.priority)") &&
		strings.Contains(pb, "r.continuationState = &headerContinuation{f.Priority}"):
		w.DefBool("cont_end_stream_from_frame", false)
	case strings.Contains(cb, "return s.Header(headers, h.endStream, h.priority)") &&
		(strings.Contains(pb, "r.continuationState = &headerContinuation{f.Priority, f.StreamEnded()}") ||
			strings.Contains(pb, "r.continuationState = &headerContinuation{priority: f.Priority, endStream: f.StreamEnded()}")):
		w.DefBool("cont_end_stream_from_frame", true)
	default:
		return fmt.Errorf("headerContinuation: complete %q / its construction in processFrame is not a shape the model knows", cb)
	}
	ppb, _, err := g09Body(rf, "pushPromiseContinuation.complete")
	if err != nil {
		return err
	}
	if err := g09Need("pushPromiseContinuation.complete", ppb, "return s.PushPromise(p.promiseID, headers)"); err != nil {
		return err
	}

	// ---- updateWindow: the connection branch falls through to the per-stream code
	ub, ufd, err := g09Body(rf, "relay.updateWindow")
	if err != nil {
		return err
	}
	if err := g09Need("updateWindow", ub, "if f.StreamID == 0 {", "r.connectionWindowSize += int(f.Increment)", "r.sendQueuedFramesUnderWindowSize()", "}",
		"w := r.outputBuffer(f.StreamID)", "w.windowSize += int(f.Increment)", "w.emitEligibleFrames(r.output, &r.connectionWindowSize)"); err != nil {
		return err
	}
	first, ok := ufd.Body.List[0].(*ast.IfStmt)
	if !ok || rf.Src(first.Cond) != "f.StreamID == 0" {
		return fmt.Errorf("updateWindow: first statement is not `if f.StreamID == 0`")
	}
	falls := first.Else == nil
	ast.Inspect(first.Body, func(x ast.Node) bool {
		if _, ok := x.(*ast.ReturnStmt); ok {
			falls = false
		}
		return true
	})
	w.DefBool("wu_conn_falls_through", falls)
	if err := g09Exact("updateWindow (after the connection branch)", rf, &ast.BlockStmt{List: ufd.Body.List[1:]},
		"r.flowMu.Lock()", "w := r.outputBuffer(f.StreamID)", "w.windowSize += int(f.Increment)",
		"w.emitEligibleFrames(r.output, &r.connectionWindowSize)", "r.flowMu.Unlock()"); err != nil {
		return err
	}
	wantConn := []string{"r.flowMu.Lock()", "r.connectionWindowSize += int(f.Increment)", "r.flowMu.Unlock()", "r.sendQueuedFramesUnderWindowSize()"}
	if !falls {
		wantConn = append(wantConn, "return")
	}
	if err := g09Exact("updateWindow (connection branch)", rf, first.Body, wantConn...); err != nil {
		return err
	}

	// ---- updateInitialWindowSize
	ib, ifd, err := g09Body(rf, "relay.updateInitialWindowSize")
	if err != nil {
		return err
	}
	touchesConn := strings.Contains(ib, "connectionWindowSize")
	wantInit := []string{"r.flowMu.Lock()", "delta := int(v) - int(r.initialWindowSize)", "r.initialWindowSize = v",
		"for _, w := range r.outputBuffers { w.windowSize += delta }"}
	if touchesConn {
		wantInit = append(wantInit, "r.connectionWindowSize += delta")
	}
	wantInit = append(wantInit, "r.flowMu.Unlock()", "r.sendQueuedFramesUnderWindowSize()")
	if err := g09Exact("updateInitialWindowSize", rf, ifd.Body, wantInit...); err != nil {
		return err
	}
	w.DefBool("settings_delta_touches_conn", strings.Contains(ib, "connectionWindowSize"))
	// ---- updateTableSize: SETTINGS_HEADER_TABLE_SIZE of the receiver limits the relay's ENCODER; does it
	// also resize the relay's decoder (whose table is governed by the remote encoder's in-band updates)?
	tb, _, err := g09Body(rf, "relay.updateTableSize")
	if err != nil {
		return err
	}
	if err := g09Need("updateTableSize", tb, "r.encoder.SetMaxDynamicTableSize(v)"); err != nil {
		return err
	}
	w.DefBool("table_size_resizes_decoder", strings.Contains(tb, "r.decoder.SetMaxDynamicTableSize(v)"))
	if strings.Contains(tb, "decoder") && !strings.Contains(tb, "r.decoder.SetMaxDynamicTableSize(v)") {
		return fmt.Errorf("updateTableSize: touches the decoder in a way the model does not know: %q", tb)
	}
	mb, _, err := g09Body(rf, "relay.updateMaxFrameSize")
	if err != nil {
		return err
	}
	if err := g09Need("updateMaxFrameSize", mb, "atomic.StoreUint32(&r.maxFrameSize, v)"); err != nil {
		return err
	}
	qb, _, err := g09Body(rf, "relay.sendQueuedFramesUnderWindowSize")
	if err != nil {
		return err
	}
	if err := g09Need("sendQueuedFramesUnderWindowSize", qb, "for _, w := range r.outputBuffers {", "w.emitEligibleFrames(r.output, &r.connectionWindowSize)"); err != nil {
		return err
	}
	ob, _, err := g09Body(rf, "relay.outputBuffer")
	if err != nil {
		return err
	}
	if err := g09Need("outputBuffer", ob, "w, ok := r.outputBuffers[streamID]", "if !ok {", "windowSize: int(r.initialWindowSize)", "r.outputBuffers[streamID] = w"); err != nil {
		return err
	}
	nb2, _, err := g09Body(rf, "relay.enqueueFrame")
	if err != nil {
		return err
	}
	if err := g09Need("enqueueFrame", nb2, "w := r.outputBuffer(f.StreamID())", "w.enqueue(f)", "w.emitEligibleFrames(r.output, &r.connectionWindowSize)"); err != nil {
		return err
	}

	// ---- data, header, pushPromise, splitIntoChunks
	db, _, err := g09Body(rf, "relay.data")
	if err != nil {
		return err
	}
	if err := g09Need("data", db, "maxPayloadLength := atomic.LoadUint32(&r.maxFrameSize)", "w := r.outputBuffer(id)", "for {",
		"nextPayloadLength := uint32(len(data))", "if nextPayloadLength > maxPayloadLength { nextPayloadLength = maxPayloadLength }",
		"copy(nextPayload, data)", "data = data[nextPayloadLength:]",
		"f := &queuedDataFrame{streamID: id, endStream: streamEnded && len(data) == 0, data: nextPayload, relay: r}", "w.enqueue(f)",
		"w.emitEligibleFrames(r.output, &r.connectionWindowSize)", "if len(data) == 0 { break }"); err != nil {
		return err
	}
	_, hfd, err := g09Body(rf, "relay.header")
	if err != nil {
		return err
	}
	if err := g09Exact("header", rf, hfd.Body,
		"r.enqueueFrame(&queuedHeaderFrame{ streamID: id, endStream: streamEnded, priority: priority, headers: append([]hpack.HeaderField(nil), headers...), relay: r, })",
		"return nil"); err != nil {
		return err
	}
	_, pfd2, err := g09Body(rf, "relay.pushPromise")
	if err != nil {
		return err
	}
	if err := g09Exact("pushPromise", rf, pfd2.Body,
		"r.enqueueFrame(&queuedPushPromiseFrame{ streamID: id, promiseID: promiseID, headers: append([]hpack.HeaderField(nil), headers...), relay: r, })",
		"return nil"); err != nil {
		return err
	}
	_, cfd, err := g09Body(rf, "relay.headerChunks")
	if err != nil {
		return err
	}
	if err := g09Exact("headerChunks", rf, cfd.Body,
		"encoded, err := r.encodeFull(headers)", "if err != nil { return nil, err }",
		"maxPayloadLength := atomic.LoadUint32(&r.maxFrameSize)",
		"maxHeaderFragmentLength := maxPayloadLength - metadataLength",
		"return splitIntoChunks(int(maxHeaderFragmentLength), int(maxPayloadLength), encoded), nil"); err != nil {
		return err
	}
	_, qpfd, err := g09Body(qf, "queuedHeaderFrame.prepare")
	if err != nil {
		return err
	}
	if err := g09Exact("queuedHeaderFrame.prepare", qf, qpfd.Body,
		"var metadataLength uint32", "if !f.priority.IsZero() { metadataLength = headersPriorityMetadataLength }",
		"f.chunks, f.err = f.relay.headerChunks(f.headers, metadataLength)"); err != nil {
		return err
	}
	_, ppfd, err := g09Body(qf, "queuedPushPromiseFrame.prepare")
	if err != nil {
		return err
	}
	if err := g09Exact("queuedPushPromiseFrame.prepare", qf, ppfd.Body,
		"f.chunks, f.err = f.relay.headerChunks(f.headers, pushPromiseMetadataLength)"); err != nil {
		return err
	}
	// DATA is split again at release if the peer lowered its max frame size meanwhile
	_, dpfd, err := g09Body(qf, "queuedDataFrame.prepare")
	if err != nil {
		return err
	}
	if err := g09Exact("queuedDataFrame.prepare", qf, dpfd.Body,
		"f.maxFrameSize = atomic.LoadUint32(&f.relay.maxFrameSize)"); err != nil {
		return err
	}
	_, dsfd, err := g09Body(qf, "queuedDataFrame.send")
	if err != nil {
		return err
	}
	if err := g09Exact("queuedDataFrame.send", qf, dsfd.Body,
		"data := f.data",
		"for f.maxFrameSize > 0 && uint32(len(data)) > f.maxFrameSize { if err := dest.WriteData(f.streamID, false, data[:f.maxFrameSize]); err != nil { return err } data = data[f.maxFrameSize:] }",
		"return dest.WriteData(f.streamID, f.endStream, data)"); err != nil {
		return err
	}
	w.DefBool("data_resplit_at_release", true)
	for _, t := range []string{"queuedPriorityFrame", "queuedRSTStreamFrame"} {
		if _, err := qf.Func(t + ".prepare"); err == nil {
			return fmt.Errorf("%s has a prepare method the model does not know", t)
		}
	}
	spb, _, err := g09Body(rf, "splitIntoChunks")
	if err != nil {
		return err
	}
	if err := g09Need("splitIntoChunks", spb, "firstChunkLength := len(data)", "if firstChunkLength > firstChunkMax { firstChunkLength = firstChunkMax }",
		"chunks = append(chunks, buf)", "remaining := data[firstChunkLength:]", "for len(remaining) > 0 {",
		"if nextChunkLength > continuationMax { nextChunkLength = continuationMax }", "chunks = append(chunks, buf)",
		"remaining = remaining[nextChunkLength:]", "return chunks"); err != nil {
		return err
	}

	// ---- send methods
	hs, _, err := g09Body(qf, "queuedHeaderFrame.send")
	if err != nil {
		return err
	}
	if err := g09Need("queuedHeaderFrame.send", hs, "if f.err != nil {", "return", "StreamID: f.streamID", "BlockFragment: f.chunks[0]", "EndStream: f.endStream",
		"EndHeaders: len(f.chunks) <= 1", "PadLength: 0", "Priority: f.priority", "for i := 1; i < len(f.chunks); i++ {",
		"headersEnded := i == len(f.chunks)-1", "dest.WriteContinuation(f.streamID, headersEnded, f.chunks[i])"); err != nil {
		return err
	}
	ps, _, err := g09Body(qf, "queuedPushPromiseFrame.send")
	if err != nil {
		return err
	}
	if err := g09Need("queuedPushPromiseFrame.send", ps, "if f.err != nil {", "return", "StreamID: f.streamID", "PromiseID: f.promiseID", "BlockFragment: f.chunks[0]",
		"EndHeaders: len(f.chunks) <= 1", "headersEnded := i == len(f.chunks)-1", "dest.WriteContinuation(f.streamID, headersEnded, f.chunks[i])"); err != nil {
		return err
	}
	for _, t := range [][2]string{
		{"queuedPriorityFrame.send", "dest.WritePriority(f.streamID, f.priority)"},
		{"queuedRSTStreamFrame.send", "dest.WriteRSTStream(f.streamID, f.errCode)"},
	} {
		b, _, err := g09Body(qf, t[0])
		if err != nil {
			return err
		}
		if err := g09Need(t[0], b, t[1]); err != nil {
			return err
		}
	}

	// ---- forwardPreface: how the 24 octets are read
	fb, _, err := g09Body(hf, "forwardPreface")
	if err != nil {
		return err
	}
	switch {
	case strings.Contains(fb, "client.Read(preface)"):
		w.DefBool("preface_read_full", false)
	case strings.Contains(fb, "io.ReadFull(client, preface)"):
		w.DefBool("preface_read_full", true)
	default:
		return fmt.Errorf("forwardPreface: neither client.Read(preface) nor io.ReadFull(client, preface) in %q", fb)
	}
	if err := g09Need("forwardPreface", fb, "preface := make([]byte, len(connectionPreface))", "bytes.Equal(preface, connectionPreface)", "server.Write(preface)"); err != nil {
		return err
	}
	// ---- the hand-off from the MITM path: the read deadline armed for the TLS handshake must be cleared before
	// the connection is given to h2.Config.Proxy (the h2 relay never re-arms or clears it)
	mf, err := Parse(repo, "internal/martian/proxy_conn.go")
	if err != nil {
		return err
	}
	hmb, _, err := g09Body(mf, "proxyConn.handleMITM")
	if err != nil {
		return err
	}
	if err := g09Need("handleMITM", hmb, "p.brw.Peek(1)", ".Proxy("); err != nil {
		return err
	}
	cleared := g09Need("handleMITM", hmb, "p.brw.Peek(1)", "p.conn.SetReadDeadline(time.Time{})", ".Proxy(") == nil
	w.DefBool("mitm_deadline_cleared_before_h2", cleared)
	pe, err := hf.ValueSpec("connectionPreface")
	if err != nil {
		return err
	}
	ps2, ok := FirstStringArg(pe)
	if !ok {
		return fmt.Errorf("h2.go: connectionPreface is not []byte(<string literal>)")
	}
	w.DefStr("connection_preface", ps2)
	return nil
}
