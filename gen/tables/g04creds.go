package main

// Group g04, credential part (C06): credentials.go lookup order and default
// ports, the CONNECT header construction in dialvia/http.go and
// internal/martian/proxy_connect.go.

import (
	"fmt"
	"go/ast"
	"go/token"
	"strings"
)

func genG04Creds(repo string, w *Out) error {
	cr, err := Parse(repo, "credentials.go")
	if err != nil {
		return err
	}
	// ---- Match: order of the lookups
	mf, err := cr.Func("CredentialsMatcher.Match")
	if err != nil {
		return err
	}
	amf := newAlpha(mf, "m", "hostport", "u", "ok", "host", "port", "err")
	conds := g04IfConds(cr, mf.Body)
	names := map[string]string{
		"u, ok := m.hostport[hostport]; ok": "hostport",
		"u, ok := m.port[port]; ok":         "port",
		"u, ok := m.host[host]; ok":         "host",
		"m.global != nil":                   "global",
	}
	var order []string
	splitSeen := false
	for _, c := range conds {
		switch {
		case amf.Eq("m == nil", c):
		case amf.Eq("err != nil", c):
			splitSeen = true
			order = append(order, "split")
		default:
			n, ok := "", false
			for want, nm := range names {
				if amf.Eq(want, c) {
					n, ok = nm, true
				}
			}
			if !ok {
				return fmt.Errorf("CredentialsMatcher.Match: condition %q is not a shape the model knows", c)
			}
			order = append(order, n)
		}
	}
	if !splitSeen || !amf.In(cr.CallsIn(mf.Body), "net.SplitHostPort(hostport)") {
		return fmt.Errorf("CredentialsMatcher.Match: net.SplitHostPort(hostport) / err check not found")
	}
	w.DefStrList("cred_lookup_order", order)
	// every lookup branch must return what it found
	if s := cr.Src(mf.Body); amf.Count(s, "return u }") != 3 || !amf.Contains(s, "return m.global }") || !strings.HasSuffix(s, "return nil }") {
		return fmt.Errorf("CredentialsMatcher.Match: return statements not in the known shape")
	}

	// ---- MatchURL: default ports
	mu, err := cr.Func("CredentialsMatcher.MatchURL")
	if err != nil {
		return err
	}
	ports := map[string]int64{}
	ast.Inspect(mu.Body, func(x ast.Node) bool {
		if gd, ok := x.(*ast.GenDecl); ok && gd.Tok == token.CONST {
			for _, sp := range gd.Specs {
				vs := sp.(*ast.ValueSpec)
				for i, n := range vs.Names {
					if i < len(vs.Values) {
						if v, ok := IntLit(vs.Values[i]); ok {
							ports[n.Name] = v
						}
					}
				}
			}
		}
		return true
	})
	amu := newAlpha(mu, "m", "u", "hostport", "httpPort", "httpsPort")
	if err := amu.Need("MatchURL conditions", g04IfConds(cr, mu.Body), "m == nil || u == nil", `u.Port() == ""`); err != nil {
		return err
	}
	for lab, want := range map[string]string{
		`"http"`:  `hostport = fmt.Sprintf("%s:%d", u.Host, httpPort)`,
		`"https"`: `hostport = fmt.Sprintf("%s:%d", u.Host, httpsPort)`,
	} {
		b, err := cr.CaseBody(mu.Body, lab)
		if err != nil {
			return err
		}
		if len(b) != 1 || !amu.Eq(want, cr.Src(b[0])) {
			return fmt.Errorf("MatchURL case %s: body is not %q", lab, want)
		}
	}
	// the two local constants, under whatever name the case bodies use them
	if _, ok := ports[amu.Actual("httpPort")]; !ok {
		return fmt.Errorf("MatchURL: constant for the http port not found")
	}
	if _, ok := ports[amu.Actual("httpsPort")]; !ok {
		return fmt.Errorf("MatchURL: constant for the https port not found")
	}
	w.DefN("cred_http_port", uint64(ports[amu.Actual("httpPort")]))
	w.DefN("cred_https_port", uint64(ports[amu.Actual("httpsPort")]))
	if s := cr.Src(mu.Body); !amu.Contains(s, "switch u.Scheme") || !amu.HasSuffix(s, "return m.Match(hostport) }") ||
		!amu.Contains(s, "hostport := u.Host") {
		return fmt.Errorf("MatchURL: body not in the known shape")
	}

	// ---- NewCredentialsMatcher: partition of the entries
	nm, err := cr.Func("NewCredentialsMatcher")
	if err != nil {
		return err
	}
	var cases []string
	ast.Inspect(nm.Body, func(x ast.Node) bool {
		if cc, ok := x.(*ast.CaseClause); ok {
			if len(cc.List) == 0 {
				cases = append(cases, "default")
			}
			for _, e := range cc.List {
				cases = append(cases, cr.Src(e))
			}
		}
		return true
	})
	anm := newAlpha(nm, "credentials", "log", "m", "i", "hpu", "withRowInfo", "err", "hostport", "ok")
	want := []string{`hpu.Host == "*" && hpu.Port == "0"`, `hpu.Host == "*"`, `hpu.Port == "0"`, "default"}
	if !anm.Eq(strings.Join(want, " | "), strings.Join(cases, " | ")) {
		return fmt.Errorf("NewCredentialsMatcher: switch cases %q, expected %q", cases, want)
	}
	if err := anm.Need("NewCredentialsMatcher", cr.CallsIn(nm.Body), "net.JoinHostPort(hpu.Host, hpu.Port)", "hpu.Validate()"); err != nil {
		return err
	}
	for _, a := range []string{"m.global = hpu.Userinfo", "m.port[hpu.Port] = hpu.Userinfo", "m.host[hpu.Host] = hpu.Userinfo", "m.hostport[hostport] = hpu.Userinfo"} {
		if !anm.Contains(cr.Src(nm.Body), a) {
			return fmt.Errorf("NewCredentialsMatcher: assignment %q not found", a)
		}
	}

	// ---- dialvia/http.go: construction of the CONNECT request header
	dv, err := Parse(repo, "dialvia/http.go")
	if err != nil {
		return err
	}
	dr, err := dv.Func("HTTPProxyDialer.DialContextR")
	if err != nil {
		return err
	}
	adr := newAlpha(dr, "d", "ctx", "network", "addr", "conn", "err", "pbw", "pbr", "req", "u", "pass", "auth", "headers", "cancel", "resCh", "errCh", "res")
	// bind the request variable from its construction
	if s := dv.Src(dr.Body); !adr.Contains(s, "req := http.Request{ Method: http.MethodConnect") {
		return fmt.Errorf("dialvia DialContextR: construction of the CONNECT request not in the known shape")
	}
	var hdrOps []string
	for _, c := range dv.CallsIn(dr.Body) {
		switch {
		case adr.Eq(`req.Header.Add("User-Agent", "")`, c):
			hdrOps = append(hdrOps, "add-user-agent")
		case adr.HasPrefix(c, `req.Header.Add("Proxy-Authorization", "Basic "+base64.StdEncoding.EncodeToString(`):
			hdrOps = append(hdrOps, "add-proxy-authorization")
		case adr.HasPrefix(c, `req.Header.Set("Proxy-Authorization", "Basic "+base64.StdEncoding.EncodeToString(`):
			hdrOps = append(hdrOps, "set-proxy-authorization")
		case adr.Eq("maps.Copy(req.Header, d.ProxyConnectHeader)", c):
			hdrOps = append(hdrOps, "copy-connect-header")
		case adr.Eq("maps.Copy(req.Header, headers)", c):
			hdrOps = append(hdrOps, "copy-dynamic-header")
		case adr.HasPrefix(c, "req.Header.") || adr.HasPrefix(c, "maps.Copy(req.Header"):
			return fmt.Errorf("dialvia DialContextR: unknown header operation %q", c)
		}
	}
	w.DefStrList("dialvia_header_ops", hdrOps)
	if err := adr.Need("dialvia DialContextR conditions", g04IfConds(dv, dr.Body), "u := d.proxyURL.User; u != nil"); err != nil {
		return err
	}

	// ---- proxy_conn.go handle(): requests read from an intercepted TLS session are forced to https;
	//      is that done BEFORE the request modifiers (setBasicAuth looks at req.URL.Scheme)?
	pcf, err := Parse(repo, "internal/martian/proxy_conn.go")
	if err != nil {
		return err
	}
	hf, err := pcf.Func("proxyConn.handle")
	if err != nil {
		return err
	}
	ahf := newAlpha(hf, "p", "req", "err", "ctx")
	forceIdx, modIdx, fixIdx := -1, -1, -1
	for i, st := range hf.Body.List {
		src := pcf.Src(st)
		switch {
		case ahf.Eq("p.fixRequestScheme(req)", src):
			fixIdx = i
		case ahf.HasPrefix(src, "if p.mitm {") && ahf.Contains(src, `req.URL.Scheme = "https"`):
			forceIdx = i
		case ahf.HasPrefix(src, "if err := p.modifyRequest(req); err != nil {"):
			modIdx = i
		}
	}
	if modIdx < 0 || fixIdx < 0 || fixIdx > modIdx {
		return fmt.Errorf("proxyConn.handle: fixRequestScheme / modifyRequest statements not found in the known order (fix=%d modify=%d)", fixIdx, modIdx)
	}
	w.DefBool("mitm_forces_https", forceIdx >= 0)
	w.DefBool("mitm_https_before_modifiers", forceIdx >= 0 && fixIdx < forceIdx && forceIdx < modIdx)

	// ---- proxy_connect.go: what is handed to dialvia
	pcn, err := Parse(repo, "internal/martian/proxy_connect.go")
	if err != nil {
		return err
	}
	ch, err := pcn.Func("Proxy.connectHTTP")
	if err != nil {
		return err
	}
	s := pcn.Src(ch.Body)
	switch {
	case newAlpha(ch, "p", "req", "proxyURL", "res", "conn", "err", "ctx", "d", "tr", "ok").Contains(s, "d.ProxyConnectHeader = req.Header.Clone()"):
		w.DefStr("connect_header_source", "req.Header.Clone()")
	default:
		return fmt.Errorf("connectHTTP: d.ProxyConnectHeader assignment not in the known shape")
	}
	return nil
}
