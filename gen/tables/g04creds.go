package main

// Group g04, credential part (C06): credentials.go lookup order and default
// ports, the CONNECT header construction in dialvia/http.go and
// internal/martian/proxy_connect.go.

import (
	"fmt"
	"go/ast"
	"go/token"
	"strings"
)

func genG04Creds(repo string, w *Out) error {
	cr, err := Parse(repo, "credentials.go")
	if err != nil {
		return err
	}
	// ---- Match: order of the lookups
	mf, err := cr.Func("CredentialsMatcher.Match")
	if err != nil {
		return err
	}
	conds := g04IfConds(cr, mf.Body)
	names := map[string]string{
		"u, ok := m.hostport[hostport]; ok": "hostport",
		"u, ok := m.port[port]; ok":         "port",
		"u, ok := m.host[host]; ok":         "host",
		"m.global != nil":                   "global",
	}
	var order []string
	splitSeen := false
	for _, c := range conds {
		switch {
		case c == "m == nil":
		case c == "err != nil":
			splitSeen = true
			order = append(order, "split")
		default:
			n, ok := names[c]
			if !ok {
				return fmt.Errorf("CredentialsMatcher.Match: condition %q is not a shape the model knows", c)
			}
			order = append(order, n)
		}
	}
	if !splitSeen || !g04Has(cr.CallsIn(mf.Body), "net.SplitHostPort(hostport)") {
		return fmt.Errorf("CredentialsMatcher.Match: net.SplitHostPort(hostport) / err check not found")
	}
	w.DefStrList("cred_lookup_order", order)
	// every lookup branch must return what it found
	if s := cr.Src(mf.Body); strings.Count(s, "return u }") != 3 || !strings.Contains(s, "return m.global }") || !strings.HasSuffix(s, "return nil }") {
		return fmt.Errorf("CredentialsMatcher.Match: return statements not in the known shape")
	}

	// ---- MatchURL: default ports
	mu, err := cr.Func("CredentialsMatcher.MatchURL")
	if err != nil {
		return err
	}
	ports := map[string]int64{}
	ast.Inspect(mu.Body, func(x ast.Node) bool {
		if gd, ok := x.(*ast.GenDecl); ok && gd.Tok == token.CONST {
			for _, sp := range gd.Specs {
				vs := sp.(*ast.ValueSpec)
				for i, n := range vs.Names {
					if i < len(vs.Values) {
						if v, ok := IntLit(vs.Values[i]); ok {
							ports[n.Name] = v
						}
					}
				}
			}
		}
		return true
	})
	if _, ok := ports["httpPort"]; !ok {
		return fmt.Errorf("MatchURL: const httpPort not found")
	}
	if _, ok := ports["httpsPort"]; !ok {
		return fmt.Errorf("MatchURL: const httpsPort not found")
	}
	w.DefN("cred_http_port", uint64(ports["httpPort"]))
	w.DefN("cred_https_port", uint64(ports["httpsPort"]))
	if err := g04Need("MatchURL conditions", g04IfConds(cr, mu.Body), "m == nil || u == nil", `u.Port() == ""`); err != nil {
		return err
	}
	for lab, want := range map[string]string{
		`"http"`:  `hostport = fmt.Sprintf("%s:%d", u.Host, httpPort)`,
		`"https"`: `hostport = fmt.Sprintf("%s:%d", u.Host, httpsPort)`,
	} {
		b, err := cr.CaseBody(mu.Body, lab)
		if err != nil {
			return err
		}
		if len(b) != 1 || cr.Src(b[0]) != want {
			return fmt.Errorf("MatchURL case %s: body is not %q", lab, want)
		}
	}
	if s := cr.Src(mu.Body); !strings.Contains(s, "switch u.Scheme") || !strings.HasSuffix(s, "return m.Match(hostport) }") ||
		!strings.Contains(s, "hostport := u.Host") {
		return fmt.Errorf("MatchURL: body not in the known shape")
	}

	// ---- NewCredentialsMatcher: partition of the entries
	nm, err := cr.Func("NewCredentialsMatcher")
	if err != nil {
		return err
	}
	var cases []string
	ast.Inspect(nm.Body, func(x ast.Node) bool {
		if cc, ok := x.(*ast.CaseClause); ok {
			if len(cc.List) == 0 {
				cases = append(cases, "default")
			}
			for _, e := range cc.List {
				cases = append(cases, cr.Src(e))
			}
		}
		return true
	})
	want := []string{`hpu.Host == "*" && hpu.Port == "0"`, `hpu.Host == "*"`, `hpu.Port == "0"`, "default"}
	if strings.Join(cases, " | ") != strings.Join(want, " | ") {
		return fmt.Errorf("NewCredentialsMatcher: switch cases %q, expected %q", cases, want)
	}
	if err := g04Need("NewCredentialsMatcher", cr.CallsIn(nm.Body), "net.JoinHostPort(hpu.Host, hpu.Port)", "hpu.Validate()"); err != nil {
		return err
	}
	for _, a := range []string{"m.global = hpu.Userinfo", "m.port[hpu.Port] = hpu.Userinfo", "m.host[hpu.Host] = hpu.Userinfo", "m.hostport[hostport] = hpu.Userinfo"} {
		if !strings.Contains(cr.Src(nm.Body), a) {
			return fmt.Errorf("NewCredentialsMatcher: assignment %q not found", a)
		}
	}

	// ---- dialvia/http.go: construction of the CONNECT request header
	dv, err := Parse(repo, "dialvia/http.go")
	if err != nil {
		return err
	}
	dr, err := dv.Func("HTTPProxyDialer.DialContextR")
	if err != nil {
		return err
	}
	var hdrOps []string
	for _, c := range dv.CallsIn(dr.Body) {
		switch {
		case c == `req.Header.Add("User-Agent", "")`:
			hdrOps = append(hdrOps, "add-user-agent")
		case strings.HasPrefix(c, `req.Header.Add("Proxy-Authorization", "Basic "+base64.StdEncoding.EncodeToString(`):
			hdrOps = append(hdrOps, "add-proxy-authorization")
		case strings.HasPrefix(c, `req.Header.Set("Proxy-Authorization", "Basic "+base64.StdEncoding.EncodeToString(`):
			hdrOps = append(hdrOps, "set-proxy-authorization")
		case c == "maps.Copy(req.Header, d.ProxyConnectHeader)":
			hdrOps = append(hdrOps, "copy-connect-header")
		case c == "maps.Copy(req.Header, headers)":
			hdrOps = append(hdrOps, "copy-dynamic-header")
		case strings.HasPrefix(c, "req.Header.") || strings.HasPrefix(c, "maps.Copy(req.Header"):
			return fmt.Errorf("dialvia DialContextR: unknown header operation %q", c)
		}
	}
	w.DefStrList("dialvia_header_ops", hdrOps)
	if err := g04Need("dialvia DialContextR conditions", g04IfConds(dv, dr.Body), "u := d.proxyURL.User; u != nil"); err != nil {
		return err
	}

	// ---- proxy_conn.go handle(): requests read from an intercepted TLS session are forced to https;
	//      is that done BEFORE the request modifiers (setBasicAuth looks at req.URL.Scheme)?
	pcf, err := Parse(repo, "internal/martian/proxy_conn.go")
	if err != nil {
		return err
	}
	hf, err := pcf.Func("proxyConn.handle")
	if err != nil {
		return err
	}
	forceIdx, modIdx, fixIdx := -1, -1, -1
	for i, st := range hf.Body.List {
		src := pcf.Src(st)
		switch {
		case src == "p.fixRequestScheme(req)":
			fixIdx = i
		case strings.HasPrefix(src, "if p.mitm {") && strings.Contains(src, `req.URL.Scheme = "https"`):
			forceIdx = i
		case strings.HasPrefix(src, "if err := p.modifyRequest(req); err != nil {"):
			modIdx = i
		}
	}
	if modIdx < 0 || fixIdx < 0 || fixIdx > modIdx {
		return fmt.Errorf("proxyConn.handle: fixRequestScheme / modifyRequest statements not found in the known order (fix=%d modify=%d)", fixIdx, modIdx)
	}
	w.DefBool("mitm_forces_https", forceIdx >= 0)
	w.DefBool("mitm_https_before_modifiers", forceIdx >= 0 && fixIdx < forceIdx && forceIdx < modIdx)

	// ---- proxy_connect.go: what is handed to dialvia
	pcn, err := Parse(repo, "internal/martian/proxy_connect.go")
	if err != nil {
		return err
	}
	ch, err := pcn.Func("Proxy.connectHTTP")
	if err != nil {
		return err
	}
	s := pcn.Src(ch.Body)
	switch {
	case strings.Contains(s, "d.ProxyConnectHeader = req.Header.Clone()"):
		w.DefStr("connect_header_source", "req.Header.Clone()")
	default:
		return fmt.Errorf("connectHTTP: d.ProxyConnectHeader assignment not in the known shape")
	}
	return nil
}
