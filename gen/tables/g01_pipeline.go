package main

// g01Pipeline: tables for C01 (hop-by-hop list, forwarded modifier shape, middleware order).
func g01Pipeline(repo string, w *Out) error {
	return nil
}
