package main

import (
	"fmt"
	"go/ast"
	"regexp"
	"strings"
)

// g01Locals lists the identifiers a function body defines with := (assignments, if/for init, range),
// in order of first definition.
func g01Locals(body ast.Node) []string {
	var names []string
	seen := map[string]bool{}
	add := func(e ast.Expr) {
		if id, ok := e.(*ast.Ident); ok && id.Name != "_" && !seen[id.Name] {
			seen[id.Name] = true
			names = append(names, id.Name)
		}
	}
	ast.Inspect(body, func(x ast.Node) bool {
		switch s := x.(type) {
		case *ast.AssignStmt:
			if s.Tok.String() == ":=" {
				for _, l := range s.Lhs {
					add(l)
				}
			}
		case *ast.RangeStmt:
			if s.Tok.String() == ":=" {
				if s.Key != nil {
					add(s.Key)
				}
				if s.Value != nil {
					add(s.Value)
				}
			}
		}
		return true
	})
	return names
}

// g01Canon renames the given local identifiers to L1, L2, ... in rendered source text, so that a
// rename of a local variable does not change the shape the translator compares.
func g01Canon(text string, locals []string) string {
	for i, n := range locals {
		text = regexp.MustCompile(`\b`+regexp.QuoteMeta(n)+`\b`).ReplaceAllString(text, fmt.Sprintf("L%d", i+1))
	}
	return text
}

// g01Pipeline: tables for C01 — hop-by-hop list, shapes of the hop-by-hop / forwarded /
// framing modifiers, order of the inner modifier group in middlewareStack, AllowHTTP,
// shapes of fixRequestScheme / upgradeType / setEmptyUserAgent.
func g01Pipeline(repo string, w *Out) error {
	// ---- hop-by-hop
	f, err := Parse(repo, "internal/martian/header/hopbyhop_modifier.go")
	if err != nil {
		return err
	}
	e, err := f.ValueSpec("hopByHopHeaders")
	if err != nil {
		return err
	}
	cl, ok := e.(*ast.CompositeLit)
	if !ok {
		return fmt.Errorf("hopByHopHeaders is not a composite literal")
	}
	var hop []string
	for _, el := range cl.Elts {
		s, ok := StringLit(el)
		if !ok {
			return fmt.Errorf("hopByHopHeaders: element %s is not a string literal", f.Src(el))
		}
		hop = append(hop, s)
	}
	w.DefStrList("hop_by_hop_headers", hop)
	rh, err := f.Func("removeHopByHopHeaders")
	if err != nil {
		return err
	}
	src := g01Canon(f.Src(rh.Body), g01Locals(rh.Body))
	for _, want := range []string{
		`for _, L1 := range header["Connection"] {`,
		`for _, L2 := range strings.Split(L1, ",") {`,
		`L3 := http.CanonicalHeaderKey(strings.TrimSpace(L2))`,
		`header.Del(L3)`,
		`for _, L3 := range hopByHopHeaders { header.Del(L3) }`,
	} {
		if !strings.Contains(src, want) {
			return fmt.Errorf("removeHopByHopHeaders: expected %q in %q", want, src)
		}
	}
	if len(rh.Body.List) != 2 {
		return fmt.Errorf("removeHopByHopHeaders: %d top-level statements, expected the two loops", len(rh.Body.List))
	}
	// request side of the modifier calls removeHopByHopHeaders(req.Header)
	mr, err := f.Func("hopByHopModifier.ModifyRequest")
	if err != nil {
		return err
	}
	if got := f.Src(mr.Body); got != "{ removeHopByHopHeaders(req.Header) return nil }" {
		return fmt.Errorf("hopByHopModifier.ModifyRequest body is %q", got)
	}

	// ---- forwarded
	ff, err := Parse(repo, "internal/martian/header/forwarded_modifier.go")
	if err != nil {
		return err
	}
	nf, err := ff.Func("NewForwardedModifier")
	if err != nil {
		return err
	}
	var lit *ast.FuncLit
	ast.Inspect(nf.Body, func(x ast.Node) bool {
		if fl, ok := x.(*ast.FuncLit); ok && lit == nil {
			lit = fl
		}
		return true
	})
	if lit == nil {
		return fmt.Errorf("NewForwardedModifier: func literal not found")
	}
	var st []string
	fwdLocals := g01Locals(lit.Body)
	for _, s := range lit.Body.List {
		st = append(st, g01Canon(ff.Src(s), fwdLocals))
	}
	norm := func(t string) string { return g01Canon(t, []string{"v", "xff", "err"}) }
	wantF := []string{
		`if req.Method == http.MethodConnect { return nil }`,
		`if v := req.Header.Get("X-Forwarded-Proto"); v == "" { req.Header.Set("X-Forwarded-Proto", req.URL.Scheme) }`,
		`if v := req.Header.Get("X-Forwarded-Host"); v == "" { req.Header.Set("X-Forwarded-Host", req.Host) }`,
		`if v := req.Header.Get("X-Forwarded-Url"); v == "" { req.Header.Set("X-Forwarded-Url", req.URL.String()) }`,
		`xff, _, err := net.SplitHostPort(req.RemoteAddr)`,
		`if err != nil { xff = req.RemoteAddr }`,
		"", // X-Forwarded-For read: two known shapes
		`req.Header.Set("X-Forwarded-For", xff)`,
		`return nil`,
	}
	for i := range wantF {
		wantF[i] = norm(wantF[i])
	}
	if len(st) != len(wantF) {
		return fmt.Errorf("NewForwardedModifier: %d statements, expected %d: %q", len(st), len(wantF), st)
	}
	var fillShapes []bool
	for i := range st {
		if i == 6 {
			switch st[i] {
			case norm(`if v := req.Header.Get("X-Forwarded-For"); v != "" { xff = v + ", " + xff }`):
				w.DefBool("xff_reads_all_lines", false)
			case norm(`if v := strings.Join(req.Header.Values("X-Forwarded-For"), ", "); v != "" { xff = v + ", " + xff }`),
				norm(`if v := strings.Join(req.Header["X-Forwarded-For"], ", "); v != "" { xff = v + ", " + xff }`):
				w.DefBool("xff_reads_all_lines", true)
			default:
				return fmt.Errorf("NewForwardedModifier: X-Forwarded-For read %q is not a shape the model knows", st[i])
			}
			continue
		}
		if i >= 1 && i <= 3 {
			// fill-in test: first field line (Header.Get) or all field lines (strings.Join(Header.Values, ""))
			alt := strings.Replace(wantF[i], `L1 := req.Header.Get(`, `L1 := strings.Join(req.Header.Values(`, 1)
			alt = strings.Replace(alt, `"); L1 == ""`, `"), ""); L1 == ""`, 1)
			switch st[i] {
			case wantF[i]:
				fillShapes = append(fillShapes, false)
			case alt:
				fillShapes = append(fillShapes, true)
			default:
				return fmt.Errorf("NewForwardedModifier: statement %d is %q, expected %q or %q", i, st[i], wantF[i], alt)
			}
			continue
		}
		if st[i] != wantF[i] {
			return fmt.Errorf("NewForwardedModifier: statement %d is %q, expected %q", i, st[i], wantF[i])
		}
	}

	if len(fillShapes) != 3 || fillShapes[0] != fillShapes[1] || fillShapes[1] != fillShapes[2] {
		return fmt.Errorf("NewForwardedModifier: the three fill-in tests do not have the same shape: %v", fillShapes)
	}
	w.DefBool("xfwd_fill_reads_all_lines", fillShapes[0])

	// ---- bad framing
	fr, err := Parse(repo, "internal/martian/header/framing_modifier.go")
	if err != nil {
		return err
	}
	nb, err := fr.Func("NewBadFramingModifier")
	if err != nil {
		return err
	}
	srcB := fr.Src(nb.Body)
	for _, want := range []string{
		`cls := req.Header["Content-Length"]`,
		`for _, l := range strings.Split(ls, ",") {`,
		`if length == "" { length = strings.TrimSpace(l) continue }`,
		`if length != strings.TrimSpace(l) { return fmt.Errorf(`,
		`req.Header.Set("Content-Length", length)`,
		`tes := req.Header["Transfer-Encoding"]`,
		`last := strings.Split(tes[len(tes)-1], ",")`,
		`if strings.TrimSpace(last[len(last)-1]) != "chunked" { return errors.New(`,
		`req.Header.Del("Content-Length")`,
	} {
		if !strings.Contains(srcB, want) {
			return fmt.Errorf("NewBadFramingModifier: expected %q", want)
		}
	}

	// ---- middlewareStack: order of the top group and of the inner group
	hp, err := Parse(repo, "http_proxy.go")
	if err != nil {
		return err
	}
	ms, err := hp.Func("HTTPProxy.middlewareStack")
	if err != nil {
		return err
	}
	var top, inner, stackExtra []string
	stackVar, innerVar := "", ""
	ast.Inspect(ms.Body, func(x ast.Node) bool {
		if as, ok := x.(*ast.AssignStmt); ok && len(as.Rhs) == 1 && strings.HasPrefix(hp.Src(as.Rhs[0]), "httpspec.NewStack(") && len(as.Lhs) == 2 {
			stackVar, innerVar = hp.Src(as.Lhs[0]), hp.Src(as.Lhs[1])
		}
		return true
	})
	if stackVar == "" {
		return fmt.Errorf("middlewareStack: `stack, fg := httpspec.NewStack(…)` not found")
	}
	short := func(arg ast.Expr) string {
		s := hp.Src(arg)
		switch {
		case s == stackVar:
			return "stack"
		case s == "m":
			return "user"
		case strings.HasPrefix(s, "martian.RequestModifierFunc(") && strings.HasSuffix(s, ")"):
			s = strings.TrimSuffix(strings.TrimPrefix(s, "martian.RequestModifierFunc("), ")")
			return strings.TrimPrefix(s, "hp.")
		case strings.HasPrefix(s, "hp.") && strings.Contains(s, "("):
			return strings.TrimPrefix(s[:strings.Index(s, "(")], "hp.")
		}
		return s
	}
	for _, ce := range g01Calls(ms.Body) {
		switch hp.Src(ce.Fun) {
		case "topg.AddRequestModifier":
			top = append(top, short(ce.Args[0]))
		case innerVar + ".AddRequestModifier":
			inner = append(inner, short(ce.Args[0]))
		case stackVar + ".AddRequestModifier":
			stackExtra = append(stackExtra, short(ce.Args[0]))
		}
	}
	if len(top) == 0 || top[len(top)-1] != "stack" {
		return fmt.Errorf("middlewareStack: the httpspec stack is not the last request modifier of the top group: %q", top)
	}
	for _, n := range inner {
		if n != "user" && n != "setBasicAuth" && n != "setEmptyUserAgent" {
			return fmt.Errorf("middlewareStack: inner request modifier %q is not one the model knows", n)
		}
	}
	w.DefStrList("mw_top_order", top)
	w.DefStrList("mw_inner_order", inner)
	w.DefStrList("mw_stack_extra", stackExtra)
	if !strings.Contains(hp.Src(ms.Body), "return topg.ToImmutable(), trace") {
		return fmt.Errorf("middlewareStack: does not return topg.ToImmutable()")
	}
	// setEmptyUserAgent
	su, err := hp.Func("setEmptyUserAgent")
	if err != nil {
		return err
	}
	if got := hp.Src(su.Body); !strings.HasPrefix(got, `{ if _, ok := req.Header["User-Agent"]; !ok {`) ||
		!strings.Contains(got, `req.Header.Set("User-Agent", "")`) {
		return fmt.Errorf("setEmptyUserAgent: body %q is not a shape the model knows", got)
	}
	// setBasicAuth: when does the client count as having sent no Authorization, and what is attached
	sb, err := hp.Func("HTTPProxy.setBasicAuth")
	if err != nil {
		return err
	}
	srcA := g01Canon(hp.Src(sb.Body), g01Locals(sb.Body))
	switch {
	case strings.Contains(srcA, `if _, L1 := req.Header["Authorization"]; !L1 {`):
		w.DefBool("basic_auth_tests_key_presence", true)
	case strings.Contains(srcA, `if req.Header.Get("Authorization") == "" {`):
		w.DefBool("basic_auth_tests_key_presence", false)
	default:
		return fmt.Errorf("setBasicAuth: the test for a client supplied Authorization is not a shape the model knows: %q", srcA)
	}
	if !strings.Contains(srcA, ":= hp.creds.MatchURL(req.URL);") || !strings.Contains(srcA, "req.SetBasicAuth(") {
		return fmt.Errorf("setBasicAuth: not `u := hp.creds.MatchURL(req.URL); … req.SetBasicAuth(u.Username(), p)`: %q", srcA)
	}
	// command/run configureHeadersModifiers: one request modifier appended to config.RequestModifiers that applies the
	// connect rules to CONNECT and the request rules to every other request; header.Headers.ModifyRequest applies in order
	rn, err := Parse(repo, "command/run/run.go")
	if err != nil {
		return err
	}
	ch, err := rn.Func("command.configureHeadersModifiers")
	if err != nil {
		return err
	}
	srcH := rn.Src(ch.Body)
	dispatchOK := strings.Contains(srcH, "if req.Method == http.MethodConnect { return connectHeaders.ModifyRequest(req) } return requestHeaders.ModifyRequest(req)") &&
		strings.Contains(srcH, "c.httpProxyConfig.RequestModifiers = append(c.httpProxyConfig.RequestModifiers, m)") &&
		strings.Contains(srcH, "requestHeaders := header.Headers(c.requestHeaders)") && strings.Contains(srcH, "connectHeaders := header.Headers(c.connectHeaders)")
	w.DefBool("header_rules_dispatch_by_method", dispatchOK)
	hh, err := Parse(repo, "header/header.go")
	if err != nil {
		return err
	}
	hm, err := hh.Func("Headers.ModifyRequest")
	if err != nil {
		return err
	}
	w.DefBool("header_rules_applied_in_order", g01Canon(hh.Src(hm.Body), g01Locals(hm.Body)) == "{ for _, L1 := range s { L1.Apply(req.Header) } return nil }")
	// config.RequestModifiers are added to the inner group in order
	if !strings.Contains(hp.Src(ms.Body), "for _, m := range hp.config.RequestModifiers { "+innerVar+".AddRequestModifier(m) }") {
		return fmt.Errorf("middlewareStack: config.RequestModifiers are not added to the inner group one by one")
	}
	// configureProxy: AllowHTTP and where the stack is installed
	cp, err := hp.Func("HTTPProxy.configureProxy")
	if err != nil {
		return err
	}
	srcC := hp.Src(cp.Body)
	switch {
	case strings.Contains(srcC, "hp.proxy.AllowHTTP = true"):
		w.DefBool("proxy_allow_http", true)
	case strings.Contains(srcC, "hp.proxy.AllowHTTP = false") || !strings.Contains(srcC, "AllowHTTP"):
		w.DefBool("proxy_allow_http", false)
	default:
		return fmt.Errorf("configureProxy: AllowHTTP assignment is not a literal")
	}
	if !strings.Contains(srcC, "mw, trace := hp.middlewareStack()") || !strings.Contains(srcC, "hp.proxy.RequestModifier = mw") {
		return fmt.Errorf("configureProxy: middlewareStack is not installed as hp.proxy.RequestModifier")
	}

	// ---- proxy.go: fixRequestScheme, upgradeType
	pg, err := Parse(repo, "internal/martian/proxy.go")
	if err != nil {
		return err
	}
	fs, err := pg.Func("Proxy.fixRequestScheme")
	if err != nil {
		return err
	}
	srcS := pg.Src(fs.Body)
	for _, want := range []string{
		`if req.URL.Scheme == "" { if proto := req.Header.Get("X-Forwarded-Proto"); proto != "" { req.URL.Scheme = proto } else if req.TLS != nil { req.URL.Scheme = "https" } else { req.URL.Scheme = "http" } }`,
		`if req.URL.Scheme == "http" { if req.TLS != nil && !p.AllowHTTP {`,
		`req.URL.Scheme = "https" } }`,
	} {
		if !strings.Contains(srcS, want) {
			return fmt.Errorf("fixRequestScheme: expected %q in %q", want, srcS)
		}
	}
	ut, err := pg.Func("upgradeType")
	if err != nil {
		return err
	}
	if got := pg.Src(ut.Body); got != `{ if !httpguts.HeaderValuesContainsToken(h["Connection"], "Upgrade") { return "" } return h.Get("Upgrade") }` {
		return fmt.Errorf("upgradeType: body %q is not a shape the model knows", got)
	}
	// ---- proxy_conn.go handle: the re-add block
	pc, err := Parse(repo, "internal/martian/proxy_conn.go")
	if err != nil {
		return err
	}
	hd, err := pc.Func("proxyConn.handle")
	if err != nil {
		return err
	}
	// readRequest: after the head has been read the read deadline is switched from the header deadline to the
	// whole-request deadline (zero = none) whenever the two differ
	rr, err := pc.Func("proxyConn.readRequest")
	if err != nil {
		return err
	}
	adj, readIdx, adjIdx := "", -1, -1
	for i, st := range rr.Body.List {
		txt := pc.Src(st)
		if strings.Contains(txt, "http.ReadRequest(") && readIdx < 0 {
			readIdx = i
		}
		if is, ok := st.(*ast.IfStmt); ok && strings.Contains(pc.Src(is.Body), "p.conn.SetReadDeadline(wholeReqDeadline)") {
			adj, adjIdx = pc.Src(is.Cond), i
		}
	}
	if readIdx < 0 || adjIdx < readIdx {
		return fmt.Errorf("readRequest: deadline adjustment after http.ReadRequest not found (read %d, adjust %d)", readIdx, adjIdx)
	}
	switch adj {
	case "!hdrDeadline.Equal(wholeReqDeadline)":
		w.DefBool("deadline_adjust_requires_whole", false)
	case "!wholeReqDeadline.IsZero() && !hdrDeadline.Equal(wholeReqDeadline)",
		"!hdrDeadline.Equal(wholeReqDeadline) && !wholeReqDeadline.IsZero()":
		w.DefBool("deadline_adjust_requires_whole", true)
	default:
		return fmt.Errorf("readRequest: deadline adjustment condition %q is not a shape the model knows", adj)
	}
	if !strings.Contains(pc.Src(hd.Body), `if reqUpType != "" { req.Header.Set("Connection", "Upgrade") req.Header.Set("Upgrade", reqUpType) }`) {
		return fmt.Errorf(`handle: block if reqUpType != "" { Set Connection: Upgrade; Set Upgrade: reqUpType } not found`)
	}
	return nil
}
