package main

import (
	"fmt"
	"go/ast"
	"strings"
)

func init() { register("g16", genG16) }

// genG16 reads header/header.go.
func genG16(repo string, w *Out) error {
	f, err := Parse(repo, "header/header.go")
	if err != nil {
		return err
	}
	// the two regex literals
	nameRe, err := f.ValueSpec("headerNameRegex")
	if err != nil {
		return err
	}
	lineRe, err := f.ValueSpec("headerLineRegex")
	if err != nil {
		return err
	}
	ns, ok1 := FirstStringArg(nameRe)
	ls, ok2 := FirstStringArg(lineRe)
	if !ok1 || !ok2 {
		return fmt.Errorf("header.go: regex literals are not string constants")
	}
	w.DefStr("header_name_regex", ns)
	w.DefStr("header_line_regex", ls)
	if ns != `^[A-Za-z0-9-]+$` {
		return fmt.Errorf("header.go: headerNameRegex %q is not a shape the model knows", ns)
	}
	switch ls {
	case `^([A-Za-z0-9-]+):\s*(.*)\r?\n?$`:
		w.DefBool("value_excludes_cr", false)
	case `^([A-Za-z0-9-]+):\s*([^\r\n]*)\r?\n?$`:
		w.DefBool("value_excludes_cr", true)
	default:
		return fmt.Errorf("header.go: headerLineRegex %q is not a shape the model knows", ls)
	}
	// ParseHeader: the guard of the "name;" branch
	ph, err := f.Func("ParseHeader")
	if err != nil {
		return err
	}
	var conds []string
	ast.Inspect(ph.Body, func(x ast.Node) bool {
		if is, ok := x.(*ast.IfStmt); ok {
			conds = append(conds, f.Src(is.Cond))
		}
		return true
	})
	wantConds := []string{
		`strings.HasPrefix(val, "-")`, `strings.HasSuffix(val, "*")`, `strings.HasPrefix(val, "%")`,
		"", `m := headerLineRegex.FindStringSubmatch(val); m != nil`, "!headerNameRegex.MatchString(h.Name)",
	}
	if len(conds) != len(wantConds) {
		return fmt.Errorf("ParseHeader: %d if-conditions, expected %d: %q", len(conds), len(wantConds), conds)
	}
	for i, c := range conds {
		if i == 3 {
			switch c {
			case `strings.HasSuffix(val, ";")`:
				w.DefBool("empty_checks_name", false)
			case `strings.HasSuffix(val, ";") && headerNameRegex.MatchString(val[0:len(val)-1])`,
				`strings.HasSuffix(val, ";") && headerNameRegex.MatchString(val[:len(val)-1])`:
				w.DefBool("empty_checks_name", true)
			default:
				return fmt.Errorf("ParseHeader: ';' branch guard %q is not a shape the model knows", c)
			}
			continue
		}
		if i == 4 {
			continue // init statement is not part of Cond; checked below
		}
		if c != wantConds[i] {
			return fmt.Errorf("ParseHeader: condition #%d is %q, expected %q", i, c, wantConds[i])
		}
	}
	// Action enum order
	names, err := f.ConstBlockNames("RemoveByPrefix")
	if err != nil {
		return err
	}
	w.DefStrList("action_order", names)

	// removeHeadersByPrefix: how is the matching key deleted?
	rp, err := f.Func("removeHeadersByPrefix")
	if err != nil {
		return err
	}
	calls := f.CallsIn(rp.Body)
	delCanon, delExact := false, false
	for _, c := range calls {
		if c == "h.Del(k)" {
			delCanon = true
		}
		if c == "delete(h, k)" {
			delExact = true
		}
	}
	if delCanon == delExact {
		return fmt.Errorf("removeHeadersByPrefix: expected exactly one of h.Del(k) / delete(h, k), calls=%v", calls)
	}
	hasFold := false
	for _, c := range calls {
		if c == "strings.EqualFold(k[0:len(prefix)], prefix)" || c == "strings.EqualFold(k[:len(prefix)], prefix)" {
			hasFold = true
		}
	}
	if !hasFold {
		return fmt.Errorf("removeHeadersByPrefix: EqualFold(k[0:len(prefix)], prefix) test not found, calls=%v", calls)
	}
	w.DefBool("prefix_delete_canon", delCanon)

	// Apply: RenameCase branch
	ap, err := f.Func("Header.Apply")
	if err != nil {
		return err
	}
	body, err := f.CaseBody(ap.Body, "RenameCase")
	if err != nil {
		return err
	}
	var ifs *ast.IfStmt
	for _, s := range body {
		if is, ok := s.(*ast.IfStmt); ok {
			ifs = is
		}
	}
	if ifs == nil {
		return fmt.Errorf("Apply/RenameCase: if statement not found")
	}
	cond := f.Src(ifs.Cond)
	guard := false
	switch cond {
	case "ok":
	case "ok && h.Name != canonicalizedName", "ok && canonicalizedName != h.Name":
		guard = true
	default:
		return fmt.Errorf("Apply/RenameCase: condition %q is not a shape the model knows", cond)
	}
	w.DefBool("rename_guard_same", guard)
	var stmts []string
	for _, s := range ifs.Body.List {
		stmts = append(stmts, f.Src(s))
	}
	joined := strings.Join(stmts, " ; ")
	switch joined {
	case "hh[h.Name] = hh[canonicalizedName] ; delete(hh, canonicalizedName)":
		w.DefBool("rename_merges", false)
	case "hh[h.Name] = append(hh[h.Name], hh[canonicalizedName]...) ; delete(hh, canonicalizedName)":
		w.DefBool("rename_merges", true)
	default:
		return fmt.Errorf("Apply/RenameCase: body %q is not a shape the model knows", joined)
	}
	// the other four arms must be the single calls the model transcribes
	want := map[string]string{
		"Remove":         "hh.Del(h.Name)",
		"RemoveByPrefix": "removeHeadersByPrefix(hh, h.Name)",
		"Empty":          `hh.Set(h.Name, "")`,
		"Add":            "hh.Add(h.Name, *h.Value)",
	}
	for lab, exp := range want {
		b, err := f.CaseBody(ap.Body, lab)
		if err != nil {
			return err
		}
		if len(b) != 1 || f.Src(b[0]) != exp {
			return fmt.Errorf("Apply/%s: body is not %q", lab, exp)
		}
	}
	return genG16Wiring(repo, f, w)
}

// genG16Wiring extracts, as rendered source text, the statements that decide which
// rule list reaches which kind of message and in which order rules are applied.
func genG16Wiring(repo string, hf *File, w *Out) error {
	var wiring []string
	for _, fn := range []string{"Headers.ModifyRequest", "Headers.ModifyResponse"} {
		fd, err := hf.Func(fn)
		if err != nil {
			return err
		}
		wiring = append(wiring, fn+": "+hf.Src(fd.Body))
	}
	rf, err := Parse(repo, "command/run/run.go")
	if err != nil {
		return err
	}
	cf, err := rf.Func("command.configureHeadersModifiers")
	if err != nil {
		return err
	}
	wiring = append(wiring, "configureHeadersModifiers: "+rf.Src(cf.Body))
	// flag -> field binding lines in run.go
	var binds []string
	ast.Inspect(rf.AST, func(x ast.Node) bool {
		if ce, ok := x.(*ast.CallExpr); ok {
			src := rf.Src(ce)
			for _, pfx := range []string{"bind.ConnectHeaders(", "bind.RequestHeaders(", "bind.ResponseHeaders(", "bind.ProxyHeaders("} {
				if strings.HasPrefix(src, pfx) {
					binds = append(binds, src)
				}
			}
		}
		return true
	})
	wiring = append(wiring, binds...)
	// flag names in bind/flag.go
	bf, err := Parse(repo, "bind/flag.go")
	if err != nil {
		return err
	}
	for _, fn := range []string{"ConnectHeaders", "RequestHeaders", "ResponseHeaders"} {
		fd, err := bf.Func(fn)
		if err != nil {
			return err
		}
		var name, parser string
		ast.Inspect(fd.Body, func(x ast.Node) bool {
			ce, ok := x.(*ast.CallExpr)
			if !ok {
				return true
			}
			src := bf.Src(ce.Fun)
			if (src == "fs.Var" || src == "fs.VarP") && len(ce.Args) >= 2 {
				if s, ok := StringLit(ce.Args[1]); ok {
					name = s
				}
				if inner, ok := ce.Args[0].(*ast.CallExpr); ok && len(inner.Args) >= 3 {
					parser = bf.Src(inner.Args[2])
				}
			}
			return true
		})
		wiring = append(wiring, fmt.Sprintf("bind.%s: flag %q parsed by %s", fn, name, parser))
	}
	w.DefStrList("wiring", wiring)
	return nil
}
