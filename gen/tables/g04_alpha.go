package main

// Alpha-equivalence for shape matching (group g04).  The translator recognises code shapes by their printed
// form; a renamed local variable (parameter, receiver, :=/var/range/const name inside the function) must not
// make a shape unrecognisable.  An alpha matcher is created per function with the names the locals have in the
// reference shape; in an expected string those names are variables that bind — consistently and injectively over
// all comparisons made for that function — to names declared locally in the actual source.

import (
	"go/ast"
	"go/token"
	"strings"
)

type alphaTok struct {
	text     string
	afterDot bool // a selector's field/method name: never a local
	ident    bool
}

func alphaTokenize(s string) []alphaTok {
	var out []alphaTok
	i := 0
	prevDot := false
	isIdStart := func(c byte) bool { return c == '_' || (c >= 'a' && c <= 'z') || (c >= 'A' && c <= 'Z') || c >= 0x80 }
	isIdPart := func(c byte) bool { return isIdStart(c) || (c >= '0' && c <= '9') }
	for i < len(s) {
		c := s[i]
		switch {
		case c == ' ' || c == '\t' || c == '\n' || c == '\r':
			i++
			continue
		case c == '"':
			j := i + 1
			for j < len(s) && s[j] != '"' {
				if s[j] == '\\' {
					j++
				}
				j++
			}
			if j >= len(s) {
				j = len(s) - 1
			}
			out = append(out, alphaTok{text: s[i : j+1]})
			i = j + 1
		case c == '`':
			j := i + 1
			for j < len(s) && s[j] != '`' {
				j++
			}
			if j >= len(s) {
				j = len(s) - 1
			}
			out = append(out, alphaTok{text: s[i : j+1]})
			i = j + 1
		case isIdStart(c):
			j := i
			for j < len(s) && isIdPart(s[j]) {
				j++
			}
			out = append(out, alphaTok{text: s[i:j], afterDot: prevDot, ident: true})
			i = j
		default:
			out = append(out, alphaTok{text: string(c)})
			i++
		}
		prevDot = c == '.'
	}
	return out
}

type alpha struct {
	ref  map[string]bool   // names of locals in the reference shape
	src  map[string]bool   // names declared locally in the actual function
	bind map[string]string // reference name -> actual name
	rev  map[string]string // actual name -> reference name
}

// newAlpha collects the names declared inside fd (receiver, parameters, results, :=, var/const, range, function
// literal parameters).  refLocals are the names those locals carry in the expected strings.
func newAlpha(fd *ast.FuncDecl, refLocals ...string) *alpha {
	a := &alpha{ref: map[string]bool{}, src: map[string]bool{}, bind: map[string]string{}, rev: map[string]string{}}
	for _, n := range refLocals {
		a.ref[n] = true
	}
	addFields := func(fl *ast.FieldList) {
		if fl == nil {
			return
		}
		for _, f := range fl.List {
			for _, n := range f.Names {
				a.src[n.Name] = true
			}
		}
	}
	if fd == nil {
		return a
	}
	addFields(fd.Recv)
	addFields(fd.Type.Params)
	addFields(fd.Type.Results)
	if fd.Body != nil {
		ast.Inspect(fd.Body, func(x ast.Node) bool {
			switch n := x.(type) {
			case *ast.AssignStmt:
				if n.Tok == token.DEFINE {
					for _, l := range n.Lhs {
						if id, ok := l.(*ast.Ident); ok {
							a.src[id.Name] = true
						}
					}
				}
			case *ast.RangeStmt:
				if n.Tok == token.DEFINE {
					for _, e := range []ast.Expr{n.Key, n.Value} {
						if id, ok := e.(*ast.Ident); ok {
							a.src[id.Name] = true
						}
					}
				}
			case *ast.GenDecl:
				for _, sp := range n.Specs {
					if vs, ok := sp.(*ast.ValueSpec); ok {
						for _, id := range vs.Names {
							a.src[id.Name] = true
						}
					}
				}
			case *ast.FuncLit:
				addFields(n.Type.Params)
				addFields(n.Type.Results)
			}
			return true
		})
	}
	delete(a.src, "_")
	return a
}

// match compares token lists; bindings made are kept only when the whole comparison succeeds.
func (a *alpha) match(exp, src []alphaTok) bool {
	if len(exp) != len(src) {
		return false
	}
	nb, nr := map[string]string{}, map[string]string{}
	get := func(m, over map[string]string, k string) (string, bool) {
		if v, ok := over[k]; ok {
			return v, true
		}
		v, ok := m[k]
		return v, ok
	}
	for i := range exp {
		e, s := exp[i], src[i]
		if e.ident && !e.afterDot && a.ref[e.text] {
			if !s.ident || s.afterDot {
				return false
			}
			if b, ok := get(a.bind, nb, e.text); ok {
				if b != s.text {
					return false
				}
				continue
			}
			// an unbound reference local binds to a local of the actual function not yet taken
			if !a.src[s.text] {
				return false
			}
			if r, ok := get(a.rev, nr, s.text); ok && r != e.text {
				return false
			}
			nb[e.text], nr[s.text] = s.text, e.text
			continue
		}
		if e.text != s.text {
			return false
		}
		// a non-variable identifier of the expectation must not be a local that is bound to some reference name
		// under another spelling (e.g. expected `err` literal while the source's `err` stands for reference `e`)
	}
	for k, v := range nb {
		a.bind[k] = v
	}
	for k, v := range nr {
		a.rev[k] = v
	}
	return true
}

func (a *alpha) Eq(expected, src string) bool { return a.match(alphaTokenize(expected), alphaTokenize(src)) }

func (a *alpha) Contains(src, expected string) bool {
	e, s := alphaTokenize(expected), alphaTokenize(src)
	for i := 0; i+len(e) <= len(s); i++ {
		if a.match(e, s[i:i+len(e)]) {
			return true
		}
	}
	return false
}

func (a *alpha) HasPrefix(src, expected string) bool {
	e, s := alphaTokenize(expected), alphaTokenize(src)
	return len(e) <= len(s) && a.match(e, s[:len(e)])
}

func (a *alpha) HasSuffix(src, expected string) bool {
	e, s := alphaTokenize(expected), alphaTokenize(src)
	return len(e) <= len(s) && a.match(e, s[len(s)-len(e):])
}

// Count counts the (possibly overlapping) occurrences of expected in src, up to renaming.
func (a *alpha) Count(src, expected string) int {
	e, s := alphaTokenize(expected), alphaTokenize(src)
	n := 0
	for i := 0; i+len(e) <= len(s); i++ {
		if a.match(e, s[i:i+len(e)]) {
			n++
		}
	}
	return n
}

// In reports whether some element of list is alpha-equal to expected.
func (a *alpha) In(list []string, expected string) bool {
	for _, s := range list {
		if a.Eq(expected, s) {
			return true
		}
	}
	return false
}

// Need is g04Need with alpha-equivalence.
func (a *alpha) Need(where string, list []string, wants ...string) error {
	for _, w := range wants {
		if !a.In(list, w) {
			return &shapeErr{where + ": expected (up to renaming of locals) " + w + ", found " + strings.Join(list, " | ")}
		}
	}
	return nil
}

// Actual returns the name the reference local has in the actual source (the reference name when unbound).
func (a *alpha) Actual(ref string) string {
	if v, ok := a.bind[ref]; ok {
		return v
	}
	return ref
}

type shapeErr struct{ s string }

func (e *shapeErr) Error() string { return e.s }
