package main

// g05: the parts of the model that transcribe the Go standard library's net/http.Transport are pinned to
// the SOURCE of the toolchain that builds the harness (runtime.GOROOT() of this tool = the cached go1.23.12),
// and forwarder's validation of the static upstream (config.go) is extracted as well.

import (
	"fmt"
	"go/ast"
	"go/parser"
	"go/token"
	"path/filepath"
	"runtime"
	"sort"
	"strings"
)

func g05Stdlib(w *Out) error {
	root := runtime.GOROOT()
	p := filepath.Join(root, "src", "net", "http", "transport.go")
	fset := token.NewFileSet()
	af, err := parser.ParseFile(fset, p, nil, 0)
	if err != nil {
		return fmt.Errorf("standard library source %s: %w", p, err)
	}
	f := &File{Fset: fset, AST: af, Path: "GOROOT/src/net/http/transport.go"}
	w.Linef("(* net/http from %s (%s) *)", comment(root), runtime.Version())
	pm, err := f.ValueSpec("portMap")
	if err != nil {
		return err
	}
	cl, ok := pm.(*ast.CompositeLit)
	if !ok {
		return fmt.Errorf("net/http portMap is not a composite literal")
	}
	var pairs [][2]string
	for _, e := range cl.Elts {
		kv, ok := e.(*ast.KeyValueExpr)
		if !ok {
			return fmt.Errorf("net/http portMap element %s", f.Src(e))
		}
		k, ok1 := StringLit(kv.Key)
		v, ok2 := StringLit(kv.Value)
		if !ok1 || !ok2 {
			return fmt.Errorf("net/http portMap element %s", f.Src(e))
		}
		pairs = append(pairs, [2]string{k, v})
	}
	sort.Slice(pairs, func(i, j int) bool { return pairs[i][0] < pairs[j][0] })
	w.Linef("Definition transport_port_map : list (str * str) := %s. (* %s *)", coqPairList(pairs), comment(fmt.Sprint(pairs)))
	ca, err := f.Func("canonicalAddr")
	if err != nil {
		return err
	}
	if f.Src(ca.Body) != `{ port := url.Port() if port == "" { port = portMap[url.Scheme] } return net.JoinHostPort(idnaASCIIFromURL(url), port) }` {
		return fmt.Errorf("net/http canonicalAddr is not the shape the model transcribes: %s", f.Src(ca.Body))
	}
	dc, err := f.Func("Transport.dialConn")
	if err != nil {
		return err
	}
	src := f.Src(dc.Body)
	if !strings.Contains(src, `conn, err := t.dial(ctx, "tcp", cm.addr())`) || !strings.Contains(src, `if cm.scheme() == "https" { var firstTLSHost string`) {
		return fmt.Errorf("net/http dialConn: t.dial(ctx, \"tcp\", cm.addr()) / TLS iff cm.scheme() == \"https\" not found")
	}
	var sw *ast.SwitchStmt
	for _, s := range dc.Body.List {
		if x, ok := s.(*ast.SwitchStmt); ok && x.Tag == nil && len(x.Body.List) > 0 {
			if cc := x.Body.List[0].(*ast.CaseClause); len(cc.List) == 1 && f.Src(cc.List[0]) == "cm.proxyURL == nil" {
				sw = x
			}
		}
	}
	if sw == nil {
		return fmt.Errorf("net/http dialConn: the proxy-setup switch not found")
	}
	var conds []string
	for _, c := range sw.Body.List {
		cc := c.(*ast.CaseClause)
		if len(cc.List) != 1 {
			return fmt.Errorf("net/http dialConn: proxy-setup arm with %d conditions", len(cc.List))
		}
		conds = append(conds, f.Src(cc.List[0]))
	}
	if len(conds) != 4 || conds[0] != "cm.proxyURL == nil" || conds[2] != `cm.targetScheme == "http"` || conds[3] != `cm.targetScheme == "https"` {
		return fmt.Errorf("net/http dialConn: proxy-setup arms %q are not the shape the model transcribes", conds)
	}
	var socks []string
	for _, part := range strings.Split(conds[1], " || ") {
		const pre = `cm.proxyURL.Scheme == "`
		if !strings.HasPrefix(part, pre) || !strings.HasSuffix(part, `"`) {
			return fmt.Errorf("net/http dialConn: second proxy-setup arm %q is not a disjunction of scheme tests", conds[1])
		}
		socks = append(socks, part[len(pre):len(part)-1])
	}
	w.DefStrList("transport_socks_schemes", socks)
	// the http arm marks the connection as a proxy connection (absolute-form requests), the https arm sends CONNECT
	httpArm := f.Src(sw.Body.List[2])
	httpsArm := f.Src(sw.Body.List[3])
	if !strings.Contains(httpArm, "pconn.isProxy = true") || !strings.Contains(httpsArm, `Method: "CONNECT"`) {
		return fmt.Errorf("net/http dialConn: http arm (isProxy) / https arm (CONNECT) not found")
	}
	cm, err := f.Func("connectMethod.scheme")
	if err != nil {
		return err
	}
	if f.Src(cm.Body) != "{ if cm.proxyURL != nil { return cm.proxyURL.Scheme } return cm.targetScheme }" {
		return fmt.Errorf("net/http connectMethod.scheme: %s", f.Src(cm.Body))
	}
	ad, err := f.Func("connectMethod.addr")
	if err != nil {
		return err
	}
	if f.Src(ad.Body) != "{ if cm.proxyURL != nil { return canonicalAddr(cm.proxyURL) } return cm.targetAddr }" {
		return fmt.Errorf("net/http connectMethod.addr: %s", f.Src(ad.Body))
	}
	// net.JoinHostPort: brackets iff the host contains a colon
	np := filepath.Join(root, "src", "net", "ipsock.go")
	nf, err := parser.ParseFile(fset, np, nil, 0)
	if err != nil {
		return fmt.Errorf("standard library source %s: %w", np, err)
	}
	n := &File{Fset: fset, AST: nf, Path: "GOROOT/src/net/ipsock.go"}
	jh, err := n.Func("JoinHostPort")
	if err != nil {
		return err
	}
	if n.Src(jh.Body) != `{ if bytealg.IndexByteString(host, ':') >= 0 { return "[" + host + "]:" + port } return host + ":" + port }` {
		return fmt.Errorf("net.JoinHostPort is not the shape the model transcribes: %s", n.Src(jh.Body))
	}
	w.DefBool("stdlib_shapes_checked", true)
	return nil
}

// config.go: what a static --proxy URL must look like; newHTTPProxy: static upstream and PAC are exclusive
func g05Config(repo string, w *Out) error {
	f, err := Parse(repo, "config.go")
	if err != nil {
		return err
	}
	v, err := f.Func("validateProxyURL")
	if err != nil {
		return err
	}
	var schemes []string
	found := false
	ast.Inspect(v.Body, func(x ast.Node) bool {
		a, ok := x.(*ast.AssignStmt)
		if !ok || len(a.Lhs) != 1 || f.Src(a.Lhs[0]) != "supportedSchemes" {
			return true
		}
		cl, ok := a.Rhs[0].(*ast.CompositeLit)
		if !ok {
			return true
		}
		for _, e := range cl.Elts {
			if s, ok := StringLit(e); ok {
				schemes = append(schemes, s)
			}
		}
		found = true
		return true
	})
	src := f.Src(v.Body)
	if !found || !strings.Contains(src, "if !slices.Contains(supportedSchemes, u.Scheme) { return fmt.Errorf(") {
		return fmt.Errorf("validateProxyURL: supportedSchemes list and its membership test not found")
	}
	w.DefStrList("upstream_supported_schemes", schemes)
	portChecked := strings.Contains(src, `if u.Port() == "" { return errors.New("port is required") }`) &&
		strings.Contains(src, "p, err := strconv.ParseUint(u.Port(), 10, 16) if err != nil { return fmt.Errorf(")
	w.DefBool("upstream_port_validated", portChecked)
	hp, err := Parse(repo, "http_proxy.go")
	if err != nil {
		return err
	}
	nh, err := hp.Func("newHTTPProxy")
	if err != nil {
		return err
	}
	ns := hp.Src(nh.Body)
	w.DefBool("upstream_validated_at_construction",
		strings.Contains(ns, "if err := cfg.Validate(); err != nil { return nil, err }"))
	w.DefBool("upstream_pac_exclusive",
		strings.Contains(ns, "if cfg.UpstreamProxy != nil && pr != nil { return nil, errors.New("))
	cv, err := hp.Func("HTTPProxyConfig.Validate")
	if err != nil {
		return err
	}
	if !strings.Contains(hp.Src(cv.Body), "if err := validateProxyURL(c.UpstreamProxy); err != nil { return fmt.Errorf(") {
		return fmt.Errorf("HTTPProxyConfig.Validate: validateProxyURL(c.UpstreamProxy) not found")
	}
	return nil
}
