package main

import (
	"fmt"
	"go/ast"
	"regexp"
	"strconv"
	"strings"
)

func init() { register("g08", genG08Both) }

// genG08Both extracts the tables from the sources as they are; only if a shape is not found it tries again with the local
// names alpha-normalised (g08_norm.go), so that merely renamed locals are not a false alarm, while the normalisation
// (which goes by declaration order) cannot itself break a source that matches literally.
func genG08Both(repo string, w *Out) error {
	g08UseNorm = false
	w1 := &Out{}
	err1 := genG08(repo, w1)
	if err1 == nil {
		w.sb.WriteString(w1.String())
		return nil
	}
	g08UseNorm = true
	w2 := &Out{}
	if err2 := genG08(repo, w2); err2 == nil {
		w.sb.WriteString(w2.String())
		return nil
	}
	return err1
}

// g08m matches re against text and returns the numeric sub-matches.
func g08m(what, text, re string) ([]uint64, error) {
	m := regexp.MustCompile(re).FindStringSubmatch(text)
	if m == nil {
		return nil, fmt.Errorf("%s: pattern %q not found", what, re)
	}
	var out []uint64
	for _, s := range m[1:] {
		v, err := strconv.ParseUint(s, 0, 64)
		if err != nil {
			return nil, fmt.Errorf("%s: %q is not a number", what, s)
		}
		out = append(out, v)
	}
	return out, nil
}

func g08count(text, lit string) int { return strings.Count(text, lit) }

func g08NList(vs []uint64) string {
	if len(vs) == 0 {
		return "(@nil N)"
	}
	parts := make([]string, len(vs))
	for i, v := range vs {
		parts[i] = strconv.FormatUint(v, 10)
	}
	return "[" + strings.Join(parts, ";") + "]"
}

// genG08 reads proxyproto/{proxy,v1,v2,net}.go.
func genG08(repo string, w *Out) error {
	// ------------------------------------------------------------ proxy.go
	pf, err := Parse(repo, "proxyproto/proxy.go")
	if err != nil {
		return err
	}
	for _, id := range []struct{ goName, coqName string }{{"V1Identifier", "t_v1_sig"}, {"V2Identifier", "t_v2_sig"}} {
		e, err := pf.ValueSpec(id.goName)
		if err != nil {
			return err
		}
		s, ok := FirstStringArg(e)
		if !ok || !strings.HasPrefix(pf.Src(e), "[]byte(") {
			return fmt.Errorf("proxy.go: %s is not []byte(\"...\")", id.goName)
		}
		w.DefStr(id.coqName, s)
	}
	for _, id := range []struct{ goName, coqName string }{{"v1UnKnownProto", "t_unknown"}, {"cRLF", "t_crlf"}} {
		e, err := pf.ValueSpec(id.goName)
		if err != nil {
			return err
		}
		s, ok := StringLit(e)
		if !ok {
			return fmt.Errorf("proxy.go: const %s is not a string literal", id.goName)
		}
		w.DefStr(id.coqName, s)
	}
	rh, err := pf.NormFunc("ReadHeader", g08Ref["ReadHeader"])
	if err != nil {
		return err
	}
	rhs := pf.Src(rh.Body)
	v, err := g08m("ReadHeader", rhs, `var buf \[(\d+)\]byte`)
	if err != nil {
		return err
	}
	w.DefN("t_buf_len", v[0])
	v, err = g08m("ReadHeader", rhs, `io\.ReadFull\(r, buf\[0:(\d+)\]\)`)
	if err != nil {
		return err
	}
	ident := v[0]
	w.DefN("t_ident_len", ident)
	p2 := strings.Index(rhs, fmt.Sprintf("if bytes.HasPrefix(buf[0:%d], V2Identifier) {", ident))
	p1 := strings.Index(rhs, fmt.Sprintf("if bytes.HasPrefix(buf[0:%d], V1Identifier) {", ident))
	if p1 < 0 || p2 < 0 {
		return fmt.Errorf("ReadHeader: the two bytes.HasPrefix(buf[0:%d], V?Identifier) tests not found", ident)
	}
	w.DefBool("t_v2_first", p2 < p1)
	if g08count(rhs, "readV2Header(buf[0:], r)") != 1 || g08count(rhs, "readV1Header(buf[0:], r)") != 1 {
		return fmt.Errorf("ReadHeader: calls readV2Header(buf[0:], r) / readV1Header(buf[0:], r) not found exactly once")
	}
	v, err = g08m("ReadHeader", rhs, `hex\.Dump\(buf\[0:(\d+)\]\)`)
	if err != nil {
		return err
	}
	w.DefN("t_dump_hi", v[0])

	// ------------------------------------------------------------ v1.go
	f1, err := Parse(repo, "proxyproto/v1.go")
	if err != nil {
		return err
	}
	r1, err := f1.NormFunc("readV1Header", g08Ref["readV1Header"])
	if err != nil {
		return err
	}
	r1s := f1.Src(r1.Body)
	v, err = g08m("readV1Header", r1s, `if bytes\.Equal\(buf\[(\d+):(\d+)\], \[\]byte\(v1UnKnownProto\)\) \{ b, err := readUntilCRLF\(buf, r, (\d+)\)`)
	if err != nil {
		return err
	}
	w.DefN("t_proto_lo", v[0])
	w.DefN("t_unknown_hi", v[1])
	w.DefN("t_unknown_idx", v[2])
	if g08count(r1s, "return &Header{IsLocal: true, Version: 1, Unknown: b}, nil") != 1 {
		return fmt.Errorf("readV1Header: UNKNOWN result literal not found")
	}
	// the two TCP branches, in source order TCP4 then TCP6
	var branches []*ast.IfStmt
	var protos []string
	tcpRe := regexp.MustCompile(`^bytes\.Equal\(buf\[(\d+):(\d+)\], \[\]byte\("(TCP[46])"\)\)$`)
	var tcpLoHi [][]string
	for _, st := range r1.Body.List {
		is, ok := st.(*ast.IfStmt)
		if !ok {
			continue
		}
		if m := tcpRe.FindStringSubmatch(f1.Src(is.Cond)); m != nil {
			branches = append(branches, is)
			protos = append(protos, m[3])
			tcpLoHi = append(tcpLoHi, m[1:3])
		}
	}
	if len(branches) != 2 || protos[0] != "TCP4" || protos[1] != "TCP6" {
		return fmt.Errorf("readV1Header: expected top-level if-branches for TCP4 then TCP6, found %v", protos)
	}
	if tcpLoHi[0][0] != tcpLoHi[1][0] || tcpLoHi[0][1] != tcpLoHi[1][1] || tcpLoHi[0][0] != strconv.FormatUint(v[0], 10) {
		return fmt.Errorf("readV1Header: TCP4/TCP6/UNKNOWN tests slice buf differently: %v", tcpLoHi)
	}
	hi, _ := strconv.ParseUint(tcpLoHi[0][1], 10, 64)
	w.DefN("t_tcp_hi", hi)
	w.DefStr("t_tcp4", "TCP4")
	w.DefStr("t_tcp6", "TCP6")
	for i, pfx := range []string{"t_t4", "t_t6"} {
		bs := f1.Src(branches[i].Body)
		v, err = g08m("readV1Header/"+protos[i], bs, `io\.ReadFull\(r, buf\[(\d+):(\d+)\]\)`)
		if err != nil {
			return err
		}
		if v[0] != ident {
			return fmt.Errorf("readV1Header/%s: optimistic read starts at %d, identifier length is %d", protos[i], v[0], ident)
		}
		w.DefN(pfx+"_read", v[1])
		v, err = g08m("readV1Header/"+protos[i], bs, `if bytes\.Equal\(buf\[(\d+):(\d+)\], \[\]byte\(cRLF\)\) \{ return parseV1Header\(buf\[0:(\d+)\]\) \} idx = (\d+) \}$`)
		if err != nil {
			return err
		}
		w.DefN(pfx+"_crlf_lo", v[0])
		w.DefN(pfx+"_crlf_hi", v[1])
		w.DefN(pfx+"_parse_hi", v[2])
		w.DefN(pfx+"_idx", v[3])
	}
	if !strings.Contains(r1s, `if idx == 0 { return nil, fmt.Errorf(`) ||
		!strings.Contains(r1s, "b, err := readUntilCRLF(buf, r, idx)") || !strings.HasSuffix(r1s, "return parseV1Header(b) }") {
		return fmt.Errorf("readV1Header: tail (idx == 0 test, readUntilCRLF(buf, r, idx), parseV1Header(b)) not in the known shape")
	}
	ru, err := f1.NormFunc("readUntilCRLF", g08Ref["readUntilCRLF"])
	if err != nil {
		return err
	}
	rus := f1.Src(ru.Body)
	v, err = g08m("readUntilCRLF", rus, `^\{ for idx < (\d+) \{ c, err := r\.Read\(buf\[idx : idx\+1\]\) if c != 1 \{`)
	if err != nil {
		return err
	}
	w.DefN("t_v1_cap", v[0])
	if !strings.Contains(rus, "if bytes.Equal(buf[idx-1:idx+1], []byte(cRLF)) { return buf[0 : idx-1], nil } idx++ }") {
		return fmt.Errorf("readUntilCRLF: CRLF test / result slice not in the known shape")
	}
	pv, err := f1.NormFunc("parseV1Header", g08Ref["parseV1Header"])
	if err != nil {
		return err
	}
	pvs := f1.Src(pv.Body)
	v, err = g08m("parseV1Header", pvs, `split\(buf\[(\d+):\], func\(pos int, buf \[\]byte\) error`)
	if err != nil {
		return err
	}
	addrOff := v[0]
	w.DefN("t_addr_off", addrOff)
	nAtoi := g08count(pvs, "port, err := strconv.Atoi(string(buf))")
	nUint := g08count(pvs, "port, err := strconv.ParseUint(string(buf), 10, 16)")
	nStrict := g08count(pvs, "port, err := parsePort(buf)")
	switch {
	case nAtoi == 2 && nUint == 0 && nStrict == 0:
		w.DefN("t_port_parser", 0)
	case nAtoi == 0 && nUint == 2 && nStrict == 0:
		w.DefN("t_port_parser", 1)
	case nAtoi == 0 && nUint == 0 && nStrict == 2:
		pp, err := f1.NormFunc("parsePort", g08Ref["parsePort"])
		if err != nil {
			return err
		}
		want := regexp.MustCompile(`^\{ if len\(buf\) > 1 && buf\[0\] == '0' \{ return 0, (errors\.New|fmt\.Errorf)\("[^"]*"\) \} port, err := strconv\.ParseUint\(string\(buf\), 10, 16\) if err != nil \{ return 0, err \} return int\(port\), nil \}$`)
		if got := f1.Src(pp.Body); !want.MatchString(got) {
			return fmt.Errorf("parsePort is not the shape the model knows: %s", got)
		}
		w.DefN("t_port_parser", 2)
	default:
		return fmt.Errorf("parseV1Header: ports are parsed by neither 2x strconv.Atoi, 2x strconv.ParseUint(.., 10, 16) nor 2x parsePort")
	}
	if g08count(pvs, "ip := net.ParseIP(string(buf))") != 2 {
		return fmt.Errorf("parseV1Header: expected two net.ParseIP(string(buf)) calls")
	}
	// the four positions must be handled in the order ip, ip, port, port
	order := regexp.MustCompile(`switch pos \{ case 0: ip := net\.ParseIP.*? src\.IP = ip case 1: ip := net\.ParseIP.*? dest\.IP = ip case 2: port, err := .*? src\.Port = (int\(port\)|port) case 3: port, err := .*? dest\.Port = (int\(port\)|port) done = true`)
	if !order.MatchString(pvs) {
		return fmt.Errorf("parseV1Header: the switch on pos does not assign src.IP, dest.IP, src.Port, dest.Port in that order")
	}
	w.DefBool("t_v1_sep_check", strings.Contains(pvs, fmt.Sprintf("if buf[%d] != ' ' {", addrOff-1)))
	w.DefBool("t_v1_extra_reject", regexp.MustCompile(`default: return (fmt\.Errorf|errors\.New)\(`).MatchString(pvs))
	famChecks := g08count(pvs, "if bytes.IndexByte(buf, ':') >= 0 != isTCP6 {")
	switch famChecks {
	case 0:
		w.DefBool("t_v1_family_check", false)
	case 2:
		if !strings.Contains(pvs, "isTCP6 := buf[9] == '6'") {
			return fmt.Errorf("parseV1Header: family check present but isTCP6 is not buf[9] == '6'")
		}
		w.DefBool("t_v1_family_check", true)
	default:
		return fmt.Errorf("parseV1Header: family check present on %d of 2 addresses", famChecks)
	}
	if !strings.Contains(pvs, "return &Header{IsLocal: false, Version: 1, Source: &src, Destination: &dest}, nil") {
		return fmt.Errorf("parseV1Header: result literal not in the known shape")
	}

	// ------------------------------------------------------------ v2.go
	f2, err := Parse(repo, "proxyproto/v2.go")
	if err != nil {
		return err
	}
	for _, id := range []struct{ goName, coqName string }{{"ipv4AddressLen", "t_ipv4_len"}, {"ipv6AddressLen", "t_ipv6_len"}} {
		e, err := f2.ValueSpec(id.goName)
		if err != nil {
			return err
		}
		n, ok := IntLit(e)
		if !ok {
			return fmt.Errorf("v2.go: const %s is not an integer literal", id.goName)
		}
		w.DefN(id.coqName, uint64(n))
	}
	r2, err := f2.NormFunc("readV2Header", g08Ref["readV2Header"])
	if err != nil {
		return err
	}
	r2s := f2.Src(r2.Body)
	v, err = g08m("readV2Header", r2s, `io\.ReadFull\(r, buf\[(\d+):(\d+)\]\)`)
	if err != nil {
		return err
	}
	if v[0] != ident {
		return fmt.Errorf("readV2Header: fixed part read starts at %d, identifier length is %d", v[0], ident)
	}
	w.DefN("t_v2_fixed", v[1])
	if !strings.Contains(r2s, "if (buf[12] & 0xF0) != 0x20 {") || !strings.Contains(r2s, "length := binary.BigEndian.Uint16(buf[14:16])") {
		return fmt.Errorf("readV2Header: version test / length decoding not in the known shape")
	}
	v, err = g08m("readV2Header", r2s, `if length > (\d+) \{ return nil,`)
	if err != nil {
		return err
	}
	w.DefN("t_v2_maxlen", v[0])
	if !strings.Contains(r2s, "var tr []byte if length != 0 { tr = make([]byte, length) if _, err := io.ReadFull(r, tr); err != nil {") {
		return fmt.Errorf("readV2Header: body read not in the known shape")
	}
	// the two switches
	var cmdSw, famSw *ast.SwitchStmt
	ast.Inspect(r2.Body, func(x ast.Node) bool {
		if sw, ok := x.(*ast.SwitchStmt); ok && sw.Tag != nil {
			switch f2.Src(sw.Tag) {
			case "buf[12] & 0x0F":
				cmdSw = sw
			case "buf[13]":
				famSw = sw
			}
		}
		return true
	})
	if cmdSw == nil || famSw == nil {
		return fmt.Errorf("readV2Header: switch buf[12] & 0x0F / switch buf[13] not found")
	}
	caseVals := func(cc *ast.CaseClause) ([]uint64, error) {
		var out []uint64
		for _, e := range cc.List {
			n, ok := IntLit(e)
			if !ok {
				return nil, fmt.Errorf("readV2Header: case label %s is not an integer literal", f2.Src(e))
			}
			out = append(out, uint64(n))
		}
		return out, nil
	}
	isReject := func(cc *ast.CaseClause) bool {
		if len(cc.Body) == 0 {
			return false
		}
		rs, ok := cc.Body[len(cc.Body)-1].(*ast.ReturnStmt)
		return ok && len(rs.Results) == 2 && f2.Src(rs.Results[0]) == "nil" && f2.Src(rs.Results[1]) != "nil"
	}
	cmdReject := false
	var gotLocal, gotProxy bool
	for _, st := range cmdSw.Body.List {
		cc := st.(*ast.CaseClause)
		if cc.List == nil {
			if !isReject(cc) {
				return fmt.Errorf("readV2Header: default clause of the command switch does not return (nil, error)")
			}
			cmdReject = true
			continue
		}
		vals, err := caseVals(cc)
		if err != nil {
			return err
		}
		body := ""
		for _, b := range cc.Body {
			body += f2.Src(b) + " "
		}
		switch {
		case strings.HasPrefix(body, "h.IsLocal = true if tr == nil { return &h, nil }") && len(vals) == 1 && !gotLocal:
			w.DefN("t_cmd_local", vals[0])
			gotLocal = true
		case strings.HasPrefix(body, "if tr == nil { return nil, errors.New(") && len(vals) == 1 && !gotProxy && strings.Contains(body, "switch buf[13]"):
			w.DefN("t_cmd_proxy", vals[0])
			gotProxy = true
		default:
			return fmt.Errorf("readV2Header: command case %v is not a shape the model knows", vals)
		}
	}
	if !gotLocal || !gotProxy {
		return fmt.Errorf("readV2Header: LOCAL / PROXY command cases not found")
	}
	w.DefBool("t_v2_cmd_default_reject", cmdReject)
	famReject := false
	var got4, got6, gotU bool
	for _, st := range famSw.Body.List {
		cc := st.(*ast.CaseClause)
		if cc.List == nil {
			if !isReject(cc) {
				return fmt.Errorf("readV2Header: default clause of the family switch does not return (nil, error)")
			}
			famReject = true
			continue
		}
		vals, err := caseVals(cc)
		if err != nil {
			return err
		}
		body := ""
		for _, b := range cc.Body {
			body += f2.Src(b) + " "
		}
		udp := "if (buf[13] & 0x0F) == 0x02 { h.Destination = &net.UDPAddr{IP: dest.IP, Port: dest.Port} h.Source = &net.UDPAddr{IP: src.IP, Port: src.Port} } else { h.Destination = &dest h.Source = &src }"
		switch {
		case !got4 && strings.HasPrefix(body, "if len(tr) < ipv4AddressLen { return nil,") &&
			strings.Contains(body, "src.IP = net.IPv4(tr[0], tr[1], tr[2], tr[3]) dest.IP = net.IPv4(tr[4], tr[5], tr[6], tr[7]) src.Port = int(binary.BigEndian.Uint16(tr[8:10])) dest.Port = int(binary.BigEndian.Uint16(tr[10:12]))") &&
			strings.Contains(body, udp) && strings.HasSuffix(body, "offset = ipv4AddressLen "):
			w.Linef("Definition t_fam_v4 : list N := %s.", g08NList(vals))
			got4 = true
		case !got6 && strings.HasPrefix(body, "if len(tr) < ipv6AddressLen { return nil,") &&
			strings.Contains(body, "src.IP = tr[0:16] dest.IP = tr[16:32] src.Port = int(binary.BigEndian.Uint16(tr[32:34])) dest.Port = int(binary.BigEndian.Uint16(tr[34:36]))") &&
			strings.Contains(body, udp) && strings.HasSuffix(body, "offset = ipv6AddressLen "):
			w.Linef("Definition t_fam_v6 : list N := %s.", g08NList(vals))
			got6 = true
		case !gotU && len(cc.Body) > 0 && regexp.MustCompile(`^return (&h|nil), errors\.New\(`).MatchString(f2.Src(cc.Body[len(cc.Body)-1])):
			w.Linef("Definition t_fam_unix : list N := %s.", g08NList(vals))
			gotU = true
		default:
			return fmt.Errorf("readV2Header: family case %v is not a shape the model knows", vals)
		}
	}
	if !got4 || !got6 {
		return fmt.Errorf("readV2Header: IPv4 / IPv6 family cases not found")
	}
	if !gotU {
		w.Linef("Definition t_fam_unix : list N := (@nil N).")
	}
	w.DefBool("t_v2_fam_default_reject", famReject)
	if !strings.HasSuffix(r2s, "if offset != len(tr) { h.RawTLVs = tr[offset:] } return &h, nil }") {
		return fmt.Errorf("readV2Header: TLV tail not in the known shape")
	}

	// ------------------------------------------------------------ net.go (Conn)
	fn, err := Parse(repo, "proxyproto/net.go")
	if err != nil {
		return err
	}
	fallback := [2]bool{}
	for i, a := range []struct{ fn, sock, field string }{{"Conn.RemoteAddr", "RemoteAddr", "Source"}, {"Conn.LocalAddr", "LocalAddr", "Destination"}} {
		fd, err := fn.NormFunc(a.fn, g08Ref[a.fn])
		if err != nil {
			return err
		}
		s := fn.Src(fd.Body)
		plain := fmt.Sprintf("{ if err := c.readHeader(); err != nil { return c.Conn.%[1]s() } if c.headerErr != nil || c.header.IsLocal { return c.Conn.%[1]s() } return c.header.%[2]s }", a.sock, a.field)
		guarded := fmt.Sprintf("{ if err := c.readHeader(); err != nil { return c.Conn.%[1]s() } if c.headerErr != nil || c.header.IsLocal || c.header.%[2]s == nil { return c.Conn.%[1]s() } return c.header.%[2]s }", a.sock, a.field)
		switch s {
		case plain:
		case guarded:
			fallback[i] = true
		default:
			return fmt.Errorf("net.go: %s is not a shape the model knows: %s", a.fn, s)
		}
	}
	if fallback[0] != fallback[1] {
		return fmt.Errorf("net.go: RemoteAddr and LocalAddr differ in their nil-address handling")
	}
	w.DefBool("t_addr_nil_fallback", fallback[0])
	// readHeaderContext: double-checked locking around the single ReadHeader call (Once.v)
	rc, err := fn.NormFunc("Conn.readHeaderContext", g08Ref["Conn.readHeaderContext"])
	if err != nil {
		return err
	}
	rcs := fn.Src(rc.Body)
	chk := "if c.isHeaderRead.Load() { return c.headerErr }"
	lockS := "c.headerMu.Lock() defer c.headerMu.Unlock()"
	li := strings.Index(rcs, lockS)
	if li < 0 {
		return fmt.Errorf("net.go: readHeaderContext does not take c.headerMu with a deferred unlock")
	}
	w.DefBool("t_once_fast", strings.HasPrefix(rcs, "{ "+chk+" "+lockS))
	w.DefBool("t_once_recheck", strings.HasPrefix(rcs[li:], lockS+" "+chk))
	if g08count(rcs, "ReadHeader(c.Conn)") != 1 {
		return fmt.Errorf("net.go: readHeaderContext does not call ReadHeader(c.Conn) exactly once")
	}
	iStore, iErr, iHdr := strings.Index(rcs, "c.isHeaderRead.Store(true)"), strings.LastIndex(rcs, "c.headerErr = "), strings.LastIndex(rcs, "c.header = *r.header")
	if iStore < 0 || iErr < 0 || iHdr < 0 || iErr > iStore || iHdr > iStore || g08count(rcs, "c.isHeaderRead.Store(") != 1 {
		return fmt.Errorf("net.go: readHeaderContext does not assign c.header and c.headerErr before the single c.isHeaderRead.Store(true)")
	}
	if !strings.HasSuffix(rcs, "c.isHeaderRead.Store(true) return c.headerErr }") {
		return fmt.Errorf("net.go: readHeaderContext does not end with Store(true); return c.headerErr")
	}
	// the deadline of the header read: the configured timeout bounds it whenever it is positive, and on expiry the
	// connection is closed and the error recorded (Timeout.v)
	guard := "if c.readHeaderTimeout > 0 { if d, ok := ctx.Deadline(); !ok || d.Sub(t0) > c.readHeaderTimeout { var cancel context.CancelFunc ctx, cancel = context.WithTimeout(ctx, c.readHeaderTimeout) defer cancel() } }"
	if !strings.Contains(rcs, "t0 := time.Now() "+guard) {
		return fmt.Errorf("net.go: readHeaderContext does not derive the header deadline from c.readHeaderTimeout in the known shape")
	}
	if !strings.Contains(rcs, "select { case <-ctx.Done(): c.Conn.Close() c.headerErr = fmt.Errorf(") || !strings.Contains(rcs, "case r := <-resCh: if r.header != nil { c.header = *r.header } c.headerErr = r.err }") {
		return fmt.Errorf("net.go: readHeaderContext does not close the connection and record the error when the deadline expires")
	}
	w.DefBool("t_timeout_bounds_header_read", true)
	// how Listener.Accept derives the connection's header timeout from the listener's: verbatim (so that zero / unset stays
	// "no limit", as documented for --proxy-protocol-read-header-timeout 0), or through anything else
	pa, err := fn.NormFunc("Listener.Accept", g08Ref["proxyproto.Listener.Accept"])
	if err != nil {
		return err
	}
	pas := fn.Src(pa.Body)
	tm := regexp.MustCompile(`pc := &Conn\{ ?Conn: c, readHeaderTimeout: ([^,}]+),? ?\}`).FindStringSubmatch(pas)
	if tm == nil {
		return fmt.Errorf("net.go: proxyproto.Listener.Accept does not build &Conn{Conn: c, readHeaderTimeout: ...}")
	}
	w.DefBool("t_accept_timeout_verbatim", strings.TrimSpace(tm[1]) == "l.ReadHeaderTimeout")
	w.DefStr("t_accept_timeout_expr", strings.TrimSpace(tm[1]))
	for _, name := range []string{"Conn.ReadFrom", "Conn.WriteTo"} {
		fd, err := fn.NormFunc(name, g08Ref[name])
		if err != nil {
			return err
		}
		if !strings.HasPrefix(fn.Src(fd.Body), "{ if err := c.readHeader(); err != nil { return 0, err } return c.Conn.") {
			return fmt.Errorf("net.go: %s does not start with the readHeader guard", name)
		}
	}
	// forwarder's Listener: the PROXY-protocol listener wraps the raw TCP listener (so the header precedes TLS and
	// everything else), gets its timeout from the configuration, and TLS is applied to the accepted connection
	ff, err := Parse(repo, "net.go")
	if err != nil {
		return err
	}
	ll, err := ff.NormFunc("Listener.Listen", g08Ref["Listener.Listen"])
	if err != nil {
		return err
	}
	lls := ff.Src(ll.Body)
	iRaw := strings.Index(lls, "ll, err := l.listen()")
	iPP := strings.Index(lls, "if l.ProxyProtocolConfig != nil { ll = &proxyproto.Listener{Listener: ll, ReadHeaderTimeout: l.ProxyProtocolConfig.ReadHeaderTimeout} }")
	if iPP < 0 {
		iPP = strings.Index(lls, "if l.ProxyProtocolConfig != nil { ll = &proxyproto.Listener{ Listener: ll, ReadHeaderTimeout: l.ProxyProtocolConfig.ReadHeaderTimeout, } }")
	}
	iRate := strings.Index(lls, "ratelimit.NewListener(ll,")
	if iRaw < 0 || iPP < iRaw || (iRate >= 0 && iRate < iPP) || strings.Contains(lls, "tls.") {
		return fmt.Errorf("net.go: Listener.Listen does not wrap the raw listener in proxyproto.Listener (timeout from the configuration) before anything else")
	}
	la, err := ff.NormFunc("Listener.Accept", g08Ref["Listener.Accept"])
	if err != nil {
		return err
	}
	las := ff.Src(la.Body)
	if !strings.HasPrefix(las, "{ conn, err := l.listener.Accept()") || !strings.Contains(las, "conn = tls.Server(conn, l.TLSConfig)") {
		return fmt.Errorf("net.go: Listener.Accept does not accept from the stacked listener and apply TLS on top")
	}
	w.DefBool("t_pp_wraps_raw_listener", true)
	// connections share nothing: the package-level variables of package proxyproto (non-test files), other than error values
	var pkgVars []string
	for _, rel := range []string{"proxyproto/proxy.go", "proxyproto/v1.go", "proxyproto/v2.go", "proxyproto/net.go"} {
		pf2, err := Parse(repo, rel)
		if err != nil {
			return err
		}
		for _, d := range pf2.AST.Decls {
			gd, ok := d.(*ast.GenDecl)
			if !ok || gd.Tok.String() != "var" {
				continue
			}
			for _, sp := range gd.Specs {
				vs := sp.(*ast.ValueSpec)
				for i, n := range vs.Names {
					if i < len(vs.Values) {
						src := pf2.Src(vs.Values[i])
						if strings.HasPrefix(src, "errors.New(") || strings.HasPrefix(src, "fmt.Errorf(") {
							continue
						}
					}
					if n.Name != "_" {
						pkgVars = append(pkgVars, n.Name)
					}
				}
			}
		}
	}
	w.DefStrList("t_pkg_vars", pkgVars)
	// Read/Write must go through readHeader first
	for _, name := range []string{"Conn.Read", "Conn.Write"} {
		fd, err := fn.NormFunc(name, g08Ref[name])
		if err != nil {
			return err
		}
		if !strings.HasPrefix(fn.Src(fd.Body), "{ if err := c.readHeader(); err != nil { return 0, err } return c.Conn.") {
			return fmt.Errorf("net.go: %s does not start with the readHeader guard", name)
		}
	}
	return nil
}
