package main

// Harmless edits that must not make a shape unrecognisable.
//
// The translators recognise code by its printed form.  Renaming a local variable, a parameter, a named
// result, a receiver or a label, rewording or adding a comment, and rewording the message of a Debug-level
// log call change that printed form without changing the function.  Parse therefore compares every function
// of a parsed source file with the function of the same name in the REFERENCE copy of that file (the source
// of the last accepted tree, committed under gen/tables/ref/<path>.txt and refreshed by bin/refresh-ref):
// when the two are equal up to exactly those edits, the function in the parsed file gets the reference's
// local names, Debug messages and doc comment text back before any group-specific matching runs.  A function
// that differs in anything else is left exactly as the source has it, so a real change is still seen (and a
// stale or missing reference file only means that this normalisation does not apply).

import (
	"go/ast"
	"go/parser"
	"go/printer"
	"go/token"
	"os"
	"path/filepath"
	"strings"
)

func refDir() string {
	if d := os.Getenv("VERIF_TABLES_REF"); d != "" {
		return d
	}
	return "/verif/gen/tables/ref"
}

// recordRef copies a parsed source file into $VERIF_TABLES_RECORD (used by bin/refresh-ref).
func recordRef(repo, rel string) {
	d := os.Getenv("VERIF_TABLES_RECORD")
	if d == "" {
		return
	}
	data, err := os.ReadFile(filepath.Join(repo, rel))
	if err != nil {
		return
	}
	p := filepath.Join(d, rel+".txt")
	os.MkdirAll(filepath.Dir(p), 0o755)
	os.WriteFile(p, data, 0o644)
}

func alphaFuncKey(fd *ast.FuncDecl) string {
	k := fd.Name.Name
	if fd.Recv != nil && len(fd.Recv.List) == 1 {
		t := fd.Recv.List[0].Type
		if s, ok := t.(*ast.StarExpr); ok {
			t = s.X
		}
		if ix, ok := t.(*ast.IndexExpr); ok {
			t = ix.X
		}
		if id, ok := t.(*ast.Ident); ok {
			k = id.Name + "." + k
		}
	}
	return k
}

// alphaLocals: the objects declared inside fd (variables, parameters, results, receiver, labels, local types and
// constants) in order of
// first occurrence, and every identifier bound to each.
func alphaLocals(fd *ast.FuncDecl) ([]*ast.Object, map[*ast.Object][]*ast.Ident) {
	var order []*ast.Object
	uses := map[*ast.Object][]*ast.Ident{}
	inside := func(o *ast.Object) bool {
		n, ok := o.Decl.(ast.Node)
		return ok && n != nil && n.Pos() >= fd.Pos() && n.Pos() < fd.End()
	}
	ast.Inspect(fd, func(x ast.Node) bool {
		id, ok := x.(*ast.Ident)
		if !ok || id.Obj == nil || (id.Obj.Kind != ast.Var && id.Obj.Kind != ast.Lbl && id.Obj.Kind != ast.Typ && id.Obj.Kind != ast.Con) || !inside(id.Obj) {
			return true
		}
		if _, seen := uses[id.Obj]; !seen {
			order = append(order, id.Obj)
		}
		uses[id.Obj] = append(uses[id.Obj], id)
		return true
	})
	return order, uses
}

// alphaDebugLits: string literals that are the message of a Debug-level log call (x.Debug(...), x.Debugf(...),
// x.DebugContext(...)): the first string-literal argument of each such call, in source order.
func alphaDebugLits(fd *ast.FuncDecl) []*ast.BasicLit {
	var out []*ast.BasicLit
	ast.Inspect(fd, func(x ast.Node) bool {
		c, ok := x.(*ast.CallExpr)
		if !ok {
			return true
		}
		sel, ok := c.Fun.(*ast.SelectorExpr)
		if !ok || !strings.HasPrefix(sel.Sel.Name, "Debug") {
			return true
		}
		for _, a := range c.Args {
			if bl, ok := a.(*ast.BasicLit); ok && bl.Kind == token.STRING {
				out = append(out, bl)
				break
			}
		}
		return true
	})
	return out
}

func alphaPrint(fset *token.FileSet, fd *ast.FuncDecl) string {
	doc := fd.Doc
	fd.Doc = nil
	var sb strings.Builder
	printer.Fprint(&sb, fset, fd)
	fd.Doc = doc
	return strings.Join(strings.Fields(sb.String()), " ")
}

func alphaAlignFunc(fset *token.FileSet, fd *ast.FuncDecl, rfset *token.FileSet, r *ast.FuncDecl) bool {
	if fd.Body == nil || r.Body == nil {
		return false
	}
	ao, au := alphaLocals(fd)
	ro, _ := alphaLocals(r)
	al, rl := alphaDebugLits(fd), alphaDebugLits(r)
	if len(ao) != len(ro) || len(al) != len(rl) {
		return false
	}
	// tentatively give fd the reference's names and Debug messages
	oldNames := make([]string, len(ao))
	for i, o := range ao {
		oldNames[i] = o.Name
		for _, id := range au[o] {
			id.Name = ro[i].Name
		}
	}
	oldLits := make([]string, len(al))
	for i, bl := range al {
		oldLits[i] = bl.Value
		bl.Value = rl[i].Value
	}
	if alphaPrint(fset, fd) == alphaPrint(rfset, r) {
		for i, o := range ao {
			o.Name = ro[i].Name
		}
		// doc comment: reworded or added/removed lines are harmless; give the text back where the
		// line count allows it, drop it where the reference has none
		switch {
		case r.Doc == nil:
			fd.Doc = nil
		case fd.Doc != nil && len(fd.Doc.List) == len(r.Doc.List):
			for i := range fd.Doc.List {
				fd.Doc.List[i].Text = r.Doc.List[i].Text
			}
		}
		return true
	}
	for i, o := range ao {
		for _, id := range au[o] {
			id.Name = oldNames[i]
		}
	}
	for i, bl := range al {
		bl.Value = oldLits[i]
	}
	return false
}

// alphaNormalize aligns every function of f with its namesake in the reference copy of rel, where they are
// equal up to the harmless edits above.
func alphaNormalize(repo string, fset *token.FileSet, f *ast.File, rel string) {
	if os.Getenv("VERIF_TABLES_NOALPHA") != "" {
		return
	}
	applyPkgRenames(f, scanPkgRenames(repo, filepath.Dir(rel)))
	data, err := os.ReadFile(filepath.Join(refDir(), rel+".txt"))
	if err != nil {
		return
	}
	rfset := token.NewFileSet()
	rf, err := parser.ParseFile(rfset, rel, data, parser.ParseComments)
	if err != nil {
		return
	}
	ref := map[string]*ast.FuncDecl{}
	for _, d := range rf.Decls {
		if fd, ok := d.(*ast.FuncDecl); ok {
			ref[alphaFuncKey(fd)] = fd
		}
	}
	for _, d := range f.Decls {
		fd, ok := d.(*ast.FuncDecl)
		if !ok {
			continue
		}
		if r := ref[alphaFuncKey(fd)]; r != nil {
			alphaAlignFunc(fset, fd, rfset, r)
		}
	}
}

// ---- renamed unexported package-level identifiers
//
// Renaming an unexported helper function, variable, constant or type is the other routine cosmetic edit.  For
// every directory a parsed file lives in, the reference copies of that directory are compared with the source
// once: a package-level unexported name that exists only in the source is paired with one that exists only in
// the reference when the two declarations are equal up to that name (functions: equal up to the harmless edits
// above as well).  The pairs found are undone in every file of that directory before functions are aligned.
// An unexported method is handled only when its name is declared once in the whole directory (as function, method,
// struct field or interface method): a selector x.m with an unexported m can only denote a member of this package.

var pkgRenames = map[string]map[string]string{} // directory -> name in the source -> name in the reference

type pkgDecl struct {
	kind string // func | value | type
	name *ast.Ident
	fd   *ast.FuncDecl
	spec ast.Spec
}

func pkgDecls(f *ast.File) map[string]pkgDecl {
	out := map[string]pkgDecl{}
	for _, d := range f.Decls {
		switch x := d.(type) {
		case *ast.FuncDecl:
			if x.Recv == nil && !x.Name.IsExported() {
				out[x.Name.Name] = pkgDecl{"func", x.Name, x, nil}
			} else if x.Recv != nil && !x.Name.IsExported() {
				k := alphaFuncKey(x) // "T.name"
				out[k] = pkgDecl{"method:" + strings.TrimSuffix(k, "."+x.Name.Name), x.Name, x, nil}
			}
		case *ast.GenDecl:
			for _, s := range x.Specs {
				switch sp := s.(type) {
				case *ast.ValueSpec:
					if len(sp.Names) == 1 && !sp.Names[0].IsExported() && sp.Names[0].Name != "_" {
						out[sp.Names[0].Name] = pkgDecl{"value", sp.Names[0], nil, sp}
					}
				case *ast.TypeSpec:
					if !sp.Name.IsExported() {
						out[sp.Name.Name] = pkgDecl{"type", sp.Name, nil, sp}
					}
				}
			}
		}
	}
	return out
}

func setObjName(f *ast.File, obj *ast.Object, name string) {
	if obj == nil {
		return
	}
	ast.Inspect(f, func(x ast.Node) bool {
		if id, ok := x.(*ast.Ident); ok && id.Obj == obj {
			id.Name = name
		}
		return true
	})
	obj.Name = name
}

// setSelName renames every selector x.old and every method declaration named old.
func setSelName(f *ast.File, oldN, newN string) {
	ast.Inspect(f, func(x ast.Node) bool {
		switch n := x.(type) {
		case *ast.SelectorExpr:
			if n.Sel.Name == oldN {
				n.Sel.Name = newN
			}
		case *ast.FuncDecl:
			if n.Recv != nil && n.Name.Name == oldN {
				n.Name.Name = newN
			}
		}
		return true
	})
}

func specText(fset *token.FileSet, s ast.Spec) string {
	var doc, cmt *ast.CommentGroup
	switch sp := s.(type) {
	case *ast.ValueSpec:
		doc, cmt, sp.Doc, sp.Comment = sp.Doc, sp.Comment, nil, nil
		defer func() { sp.Doc, sp.Comment = doc, cmt }()
	case *ast.TypeSpec:
		doc, cmt, sp.Doc, sp.Comment = sp.Doc, sp.Comment, nil, nil
		defer func() { sp.Doc, sp.Comment = doc, cmt }()
	}
	var sb strings.Builder
	printer.Fprint(&sb, fset, s)
	return strings.Join(strings.Fields(sb.String()), " ")
}

func detectPkgRenames(afset *token.FileSet, af *ast.File, rfset *token.FileSet, rf *ast.File, out map[string]string, unique func(string) bool) {
	A, R := pkgDecls(af), pkgDecls(rf)
	used := map[string]bool{}
	for progress := true; progress; {
		progress = false
		for an, a := range A {
			if _, both := R[an]; both || out[an] != "" {
				continue
			}
			if strings.HasPrefix(a.kind, "method:") && out["."+a.name.Name] != "" {
				continue
			}
			for rn, r := range R {
				if _, both := A[rn]; both || used[rn] || r.kind != a.kind {
					continue
				}
				if strings.HasPrefix(a.kind, "method:") {
					// an unexported method: its uses are selectors x.name, which can only denote a member
					// declared in this package; undone only if this is the one member of that name
					oldN, newN := a.name.Name, r.name.Name
					if !unique(oldN) {
						continue
					}
					setSelName(af, oldN, newN)
					a.name.Name = newN
					if alphaAlignFunc(afset, a.fd, rfset, r.fd) {
						out["."+oldN], used[rn], progress = newN, true, true
						delete(A, an)
						break
					}
					setSelName(af, newN, oldN)
					a.name.Name = oldN
					continue
				}
				setObjName(af, a.name.Obj, rn)
				ok := false
				if a.kind == "func" {
					ok = alphaAlignFunc(afset, a.fd, rfset, r.fd)
				} else {
					ok = specText(afset, a.spec) == specText(rfset, r.spec)
				}
				if ok {
					out[an], used[rn], progress = rn, true, true
					break
				}
				setObjName(af, a.name.Obj, an)
			}
		}
	}
}

func scanPkgRenames(repo, dir string) map[string]string {
	if m, ok := pkgRenames[dir]; ok {
		return m
	}
	m := map[string]string{}
	pkgRenames[dir] = m
	// how often a member name (function, method, struct field, interface method) is declared in the directory
	memberCount := map[string]int{}
	srcs, _ := filepath.Glob(filepath.Join(repo, dir, "*.go"))
	for _, sp := range srcs {
		if strings.HasSuffix(sp, "_test.go") {
			continue
		}
		sf, err := parser.ParseFile(token.NewFileSet(), sp, nil, parser.SkipObjectResolution)
		if err != nil {
			continue
		}
		ast.Inspect(sf, func(x ast.Node) bool {
			switch n := x.(type) {
			case *ast.FuncDecl:
				memberCount[n.Name.Name]++
			case *ast.Field:
				for _, id := range n.Names {
					memberCount[id.Name]++
				}
			}
			return true
		})
	}
	unique := func(name string) bool { return memberCount[name] == 1 }
	refs, _ := filepath.Glob(filepath.Join(refDir(), dir, "*.go.txt"))
	for _, rp := range refs {
		rel := filepath.Join(dir, strings.TrimSuffix(filepath.Base(rp), ".txt"))
		rdata, err := os.ReadFile(rp)
		if err != nil {
			continue
		}
		afset, rfset := token.NewFileSet(), token.NewFileSet()
		af, err := parser.ParseFile(afset, filepath.Join(repo, rel), nil, parser.ParseComments)
		if err != nil {
			continue
		}
		rf, err := parser.ParseFile(rfset, rel, rdata, parser.ParseComments)
		if err != nil {
			continue
		}
		detectPkgRenames(afset, af, rfset, rf, m, unique)
	}
	return m
}

// applyPkgRenames gives renamed package-level identifiers of this directory their reference names back.
func applyPkgRenames(f *ast.File, ren map[string]string) {
	if len(ren) == 0 {
		return
	}
	for k, n := range ren {
		if strings.HasPrefix(k, ".") {
			setSelName(f, k[1:], n)
		}
	}
	for _, id := range f.Unresolved {
		if n, ok := ren[id.Name]; ok {
			id.Name = n
		}
	}
	type todo struct {
		id *ast.Ident
		n  string
	}
	var todos []todo
	ast.Inspect(f, func(x ast.Node) bool {
		id, ok := x.(*ast.Ident)
		if !ok || id.Obj == nil || f.Scope == nil {
			return true
		}
		if n, ok := ren[id.Name]; ok && f.Scope.Lookup(id.Name) == id.Obj {
			todos = append(todos, todo{id, n})
		}
		return true
	})
	for _, t := range todos {
		t.id.Name = t.n
	}
	for old, n := range ren {
		if strings.HasPrefix(old, ".") || f.Scope == nil {
			continue
		}
		if o := f.Scope.Lookup(old); o != nil {
			o.Name = n
		}
	}
}
