package main

import (
	"fmt"
	"go/ast"
	"go/parser"
	"go/token"
	"os"
)

// Renaming local variables (parameters, receivers, := / var / range / type-switch variables, labels) of a
// transcribed function is a harmless refactor.  Before the shapes are matched, every function of the
// source file that is equal to the function of the same name in the reference text UP TO such a renaming
// gets the reference's names back, so the textual matching below sees the text it knows.

// g09Locals lists, in order of first occurrence, the local objects of fd and all identifiers bound to them.
func g09Locals(fd *ast.FuncDecl) ([]*ast.Object, map[*ast.Object][]*ast.Ident) {
	var order []*ast.Object
	uses := map[*ast.Object][]*ast.Ident{}
	inside := func(o *ast.Object) bool {
		n, ok := o.Decl.(ast.Node)
		return ok && n != nil && n.Pos() >= fd.Pos() && n.Pos() < fd.End()
	}
	ast.Inspect(fd, func(x ast.Node) bool {
		id, ok := x.(*ast.Ident)
		if !ok || id.Obj == nil || (id.Obj.Kind != ast.Var && id.Obj.Kind != ast.Lbl) || !inside(id.Obj) {
			return true
		}
		if _, seen := uses[id.Obj]; !seen {
			order = append(order, id.Obj)
		}
		uses[id.Obj] = append(uses[id.Obj], id)
		return true
	})
	return order, uses
}

func g09Key(fd *ast.FuncDecl) string {
	k := fd.Name.Name
	if fd.Recv != nil && len(fd.Recv.List) == 1 {
		t := fd.Recv.List[0].Type
		if s, ok := t.(*ast.StarExpr); ok {
			t = s.X
		}
		if id, ok := t.(*ast.Ident); ok {
			k = id.Name + "." + k
		}
	}
	return k
}

// g09Unrename restores the reference's local names in every function of f that differs from the reference
// by a renaming of locals only.  It returns the names of the functions it changed.
func g09Unrename(f *File, refText string) []string {
	fset := token.NewFileSet()
	ref, err := parser.ParseFile(fset, "ref.go", refText, 0)
	if err != nil {
		return nil
	}
	rf := &File{Fset: fset, AST: ref, Path: "ref"}
	refs := map[string]*ast.FuncDecl{}
	for _, d := range ref.Decls {
		if fd, ok := d.(*ast.FuncDecl); ok {
			refs[g09Key(fd)] = fd
		}
	}
	var changed []string
	src := func(x *File, fd *ast.FuncDecl) string { // without the doc comment
		c := *fd
		c.Doc = nil
		return x.Src(&c)
	}
	for _, d := range f.AST.Decls {
		fd, ok := d.(*ast.FuncDecl)
		if !ok || fd.Body == nil {
			continue
		}
		r := refs[g09Key(fd)]
		if r == nil || r.Body == nil || src(f, fd) == src(rf, r) {
			continue
		}
		ao, au := g09Locals(fd)
		ro, ru := g09Locals(r)
		if len(ao) != len(ro) {
			if os.Getenv("G09_ALPHA_DEBUG") != "" {
				fmt.Fprintf(os.Stderr, "alpha: %s: %d vs %d locals\n", g09Key(fd), len(ao), len(ro))
			}
			continue
		}
		set := func(objs []*ast.Object, uses map[*ast.Object][]*ast.Ident, name func(i int) string) {
			for i, o := range objs {
				for _, id := range uses[o] {
					id.Name = name(i)
				}
			}
		}
		aNames, rNames := make([]string, len(ao)), make([]string, len(ro))
		for i := range ao {
			aNames[i], rNames[i] = ao[i].Name, ro[i].Name
		}
		canon := func(i int) string { return "v" + string(rune('A'+i/26)) + string(rune('a'+i%26)) }
		set(ao, au, canon)
		set(ro, ru, canon)
		same := src(f, fd) == src(rf, r)
		if !same && os.Getenv("G09_ALPHA_DEBUG") != "" {
			fmt.Fprintf(os.Stderr, "alpha: %s differs:\n%s\n%s\n", g09Key(fd), src(f, fd), src(rf, r))
		}
		set(ro, ru, func(i int) string { return rNames[i] })
		if same {
			set(ao, au, func(i int) string { return rNames[i] })
			changed = append(changed, g09Key(fd))
		} else {
			set(ao, au, func(i int) string { return aNames[i] })
		}
	}
	return changed
}
