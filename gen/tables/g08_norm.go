package main

import (
	"fmt"
	"go/ast"
	"os"
	"strings"
)

// Alpha-normalisation of local names (parameters, receivers, results, := / var / range variables, also inside function
// literals): a function whose locals were merely renamed has the same sequence of local declarations, so the i-th
// declared local is given the i-th name of the reference sequence (the names the translator's shapes are written in)
// before the body is rendered.  When the number of declarations differs nothing is renamed and the shapes decide.

// g08UseNorm: set by genG08Both for the second attempt.
var g08UseNorm bool

func g08LocalObjs(fd *ast.FuncDecl) []*ast.Object {
	var objs []*ast.Object
	seen := map[*ast.Object]bool{}
	visit := func(n ast.Node) {
		ast.Inspect(n, func(x ast.Node) bool {
			id, ok := x.(*ast.Ident)
			if !ok || id.Obj == nil || id.Obj.Kind != ast.Var || seen[id.Obj] {
				return true
			}
			if p := id.Obj.Pos(); p < fd.Pos() || p > fd.End() {
				return true // a package-level variable
			}
			seen[id.Obj] = true
			objs = append(objs, id.Obj)
			return true
		})
	}
	if fd.Recv != nil {
		visit(fd.Recv)
	}
	visit(fd.Type)
	if fd.Body != nil {
		visit(fd.Body)
	}
	return objs
}

// g08Norm renames the locals of fd to the reference names (in declaration order) when the counts agree.
func g08Norm(fd *ast.FuncDecl, ref []string) {
	objs := g08LocalObjs(fd)
	if os.Getenv("G08_DUMP_LOCALS") != "" {
		var names []string
		for _, o := range objs {
			names = append(names, fmt.Sprintf("%q", o.Name))
		}
		fmt.Fprintf(os.Stderr, "locals %s: []string{%s}\n", fd.Name.Name, strings.Join(names, ", "))
	}
	if !g08UseNorm || len(objs) != len(ref) {
		return
	}
	newName := map[*ast.Object]string{}
	for i, o := range objs {
		if o.Name != "_" && ref[i] != "_" {
			newName[o] = ref[i]
		}
	}
	ast.Inspect(fd, func(x ast.Node) bool {
		if id, ok := x.(*ast.Ident); ok && id.Obj != nil {
			if n, ok := newName[id.Obj]; ok {
				id.Name = n
			}
		}
		return true
	})
	for o, n := range newName {
		o.Name = n
	}
}

// NormFunc finds a function and alpha-normalises it against the reference names.
func (f *File) NormFunc(name string, ref []string) (*ast.FuncDecl, error) {
	fd, err := f.Func(name)
	if err != nil {
		return nil, err
	}
	g08Norm(fd, ref)
	return fd, nil
}
