package main

import (
	"fmt"
	"go/ast"
	"go/token"
	"os"
	"path/filepath"
	"regexp"
	"strconv"
	"strings"
)

func init() { register("g19", genG19) }

// g19Strings collects the string literals of an expression (a concatenation of literals and identifiers).
func g19Strings(f *File, e ast.Expr) (lits []string, idents []string) {
	ast.Inspect(e, func(n ast.Node) bool {
		switch x := n.(type) {
		case *ast.BasicLit:
			if s, ok := StringLit(x); ok {
				lits = append(lits, s)
			}
		case *ast.Ident:
			idents = append(idents, x.Name)
		}
		return true
	})
	return
}

type g19Flag struct {
	name   string
	kind   int
	redact int
	typ    string
	rname  string
}

func g19Kind(typ string, base64Usage bool) int {
	switch typ {
	case "*url.Userinfo":
		return 1
	case "*url.URL":
		return 2
	case "*forwarder.HostPortUser":
		return 3
	case "string":
		if base64Usage {
			return 4
		}
	}
	return 0
}

func g19Redact(name string) int {
	switch name {
	case "":
		return 0
	case "RedactUserinfo":
		return 1
	case "RedactURL":
		return 2
	case "forwarder.RedactHostPortUser":
		return 3
	case "RedactBase64":
		return 4
	}
	return 5
}

// g19FlagName renders the name argument: a literal, or namePrefix+"x" (written "*x").
func g19FlagName(f *File, e ast.Expr) (string, error) {
	if s, ok := StringLit(e); ok {
		return s, nil
	}
	if be, ok := e.(*ast.BinaryExpr); ok && be.Op == token.ADD {
		if id, ok := be.X.(*ast.Ident); ok && id.Name == "namePrefix" {
			if s, ok := StringLit(be.Y); ok {
				return "*" + s, nil
			}
		}
	}
	return "", fmt.Errorf("flag name %q is neither a literal nor namePrefix+literal", f.Src(e))
}

func genG19(repo string, w *Out) error {
	// ---------------------------------------------------------------- bind/redact.go
	rf, err := Parse(repo, "bind/redact.go")
	if err != nil {
		return err
	}
	ru, err := rf.Func("RedactUserinfo")
	if err != nil {
		return err
	}
	body := strings.Join(g07like(rf, ru.Body.List), " ; ")
	const ruPrefix = `if ui == nil { return "" } ; if _, has := ui.Password(); has { return ui.Username() + "`
	const ruSuffix = `" } ; return ui.Username()`
	switch {
	case strings.HasPrefix(body, ruPrefix) && strings.HasSuffix(body, ruSuffix):
		w.DefStr("userinfo_placeholder_suffix", body[len(ruPrefix):len(body)-len(ruSuffix)])
		w.DefBool("redact_userinfo_hides_password", true)
	case body == `if ui == nil { return "" } ; return ui.String()` || body == `return ui.String()`:
		w.DefStr("userinfo_placeholder_suffix", "")
		w.DefBool("redact_userinfo_hides_password", false)
	default:
		return fmt.Errorf("RedactUserinfo: body %q is not a shape the model knows", body)
	}
	rb, err := rf.Func("RedactBase64")
	if err != nil {
		return err
	}
	body = strings.Join(g07like(rf, rb.Body.List), " ; ")
	var pfx, ph string
	foldRe := regexp.MustCompile(`^if len\(s\) >= (\d+) && strings\.EqualFold\(s\[:(\d+)\], ("[^"]*")\) \{ return ("[^"]*") \} ; return s$`)
	if n, _ := fmt.Sscanf(body, `if strings.HasPrefix(s, %q) { return %q } ; return s`, &pfx, &ph); n == 2 {
		w.DefStr("base64_prefix", pfx)
		w.DefStr("base64_placeholder", ph)
		w.DefBool("redact_base64_hides_payload", true)
		w.DefBool("redact_prefix_fold", false)
	} else if m := foldRe.FindStringSubmatch(body); m != nil {
		pfx, _ = strconv.Unquote(m[3])
		ph, _ = strconv.Unquote(m[4])
		if m[1] != strconv.Itoa(len(pfx)) || m[2] != m[1] {
			return fmt.Errorf("RedactBase64: head length %s/%s does not match the prefix %q", m[1], m[2], pfx)
		}
		w.DefStr("base64_prefix", pfx)
		w.DefStr("base64_placeholder", ph)
		w.DefBool("redact_base64_hides_payload", true)
		w.DefBool("redact_prefix_fold", true)
	} else if body == "return s" {
		w.DefBool("redact_prefix_fold", false)
		w.DefStr("base64_prefix", "data:")
		w.DefStr("base64_placeholder", "")
		w.DefBool("redact_base64_hides_payload", false)
	} else {
		return fmt.Errorf("RedactBase64: body %q is not a shape the model knows", body)
	}
	// the accepting side: readurl.go ReadFileOrBase64
	uf, err := Parse(repo, "readurl.go")
	if err != nil {
		return err
	}
	rfb, err := uf.Func("ReadFileOrBase64")
	if err != nil {
		return err
	}
	var first *ast.IfStmt
	for _, st := range rfb.Body.List {
		if is, ok := st.(*ast.IfStmt); ok {
			first = is
			break
		}
	}
	if first == nil {
		return fmt.Errorf("ReadFileOrBase64: no prefix test found")
	}
	cond := uf.Src(first.Cond)
	var rp string
	if n, _ := fmt.Sscanf(cond, `strings.HasPrefix(name, %q)`, &rp); n == 1 {
		w.DefStr("reader_data_prefix", rp)
		w.DefBool("reader_prefix_fold", false)
	} else if cond == "len(name) >= len(scheme) && strings.EqualFold(name[:len(scheme)], scheme)" {
		found := false
		ast.Inspect(rfb.Body, func(n ast.Node) bool {
			if vs, ok := n.(*ast.ValueSpec); ok && len(vs.Names) == 1 && vs.Names[0].Name == "scheme" && len(vs.Values) == 1 {
				if v, ok := StringLit(vs.Values[0]); ok {
					rp, found = v, true
				}
			}
			return true
		})
		if !found {
			return fmt.Errorf("ReadFileOrBase64: constant `scheme` not found")
		}
		w.DefStr("reader_data_prefix", rp)
		w.DefBool("reader_prefix_fold", true)
	} else {
		return fmt.Errorf("ReadFileOrBase64: prefix test %q is not a shape the model knows", cond)
	}
	rurl, err := rf.Func("RedactURL")
	if err != nil {
		return err
	}
	switch body = strings.Join(g07like(rf, rurl.Body.List), " ; "); body {
	case "return u.Redacted()":
		w.DefBool("redact_url_uses_redacted", true)
	case "return u.String()":
		w.DefBool("redact_url_uses_redacted", false)
	default:
		return fmt.Errorf("RedactURL: body %q is not a shape the model knows", body)
	}

	// ---------------------------------------------------------------- host.go RedactHostPortUser
	hf, err := Parse(repo, "host.go")
	if err != nil {
		return err
	}
	rh, err := hf.Func("RedactHostPortUser")
	if err != nil {
		return err
	}
	var fmts []string
	for _, c := range hf.CallsIn(rh.Body) {
		if strings.HasPrefix(c, "fmt.Sprintf(") {
			fmts = append(fmts, c)
		}
	}
	hides := false
	for _, c := range fmts {
		switch c {
		case `fmt.Sprintf("%s@%s:%s", hpu.Username(), hpu.Host, port)`:
		case `fmt.Sprintf("%s:xxxxx@%s:%s", hpu.Username(), hpu.Host, port)`:
			hides = true
		case `fmt.Sprintf("%s:%s@%s:%s", hpu.Username(), p, hpu.Host, port)`:
			return fmt.Errorf("RedactHostPortUser prints the password: %s", c)
		default:
			return fmt.Errorf("RedactHostPortUser: %s is not a shape the model knows", c)
		}
	}
	if len(fmts) != 2 && hides {
		return fmt.Errorf("RedactHostPortUser: %d Sprintf calls, expected 2", len(fmts))
	}
	if !hides {
		// the only other shape the model knows: it returns hpu.String()
		if !strings.Contains(hf.Src(rh.Body), "hpu.String()") {
			return fmt.Errorf("RedactHostPortUser: neither the placeholder format nor hpu.String()")
		}
	}
	w.DefBool("redact_hpu_hides_password", hides)

	// ---------------------------------------------------------------- httplog
	lw, err := Parse(repo, "httplog/logwriter.go")
	if err != nil {
		return err
	}
	sl, err := Parse(repo, "httplog/slog.go")
	if err != nil {
		return err
	}
	ul, err := lw.Func("logWriter.URLLine")
	if err != nil {
		return err
	}
	wu, err := sl.Func("structuredLogBuilder.WithURL")
	if err != nil {
		return err
	}
	urlRedacted := strings.Contains(lw.Src(ul.Body), "e.Request.URL.Redacted()") && !strings.Contains(lw.Src(ul.Body), "URL.String()") &&
		strings.Contains(sl.Src(wu.Body), "e.Request.URL.Redacted()") && !strings.Contains(sl.Src(wu.Body), "URL.String()")
	w.DefBool("log_url_uses_redacted", urlRedacted)
	su, err := lw.Func("logWriter.ShortURLLine")
	if err != nil {
		return err
	}
	bs, err := sl.Func("buildShortURL")
	if err != nil {
		return err
	}
	shortOK := !strings.Contains(lw.Src(su.Body), "User") && !strings.Contains(sl.Src(bs.Body), "User") &&
		!strings.Contains(lw.Src(su.Body), "String()") && !strings.Contains(sl.Src(bs.Body), "String()")
	w.DefBool("log_short_url_omits_userinfo", shortOK)

	// every log record is built in a fresh builder / writer (nothing of an earlier exchange can resurface)
	hl, err := Parse(repo, "httplog/httplog.go")
	if err != nil {
		return err
	}
	fresh := true
	closures := 0
	for _, fn := range []struct{ name, fresh1, fresh2, use string }{
		{"Logger.structuredLogFunc", "var b structuredLogBuilder", "", "b.With"},
		{"Logger.logFunc", "var w logWriter", "w := logWriter{body: true}", "w."},
	} {
		fd, err := hl.Func(fn.name)
		if err != nil {
			return err
		}
		ast.Inspect(fd.Body, func(n ast.Node) bool {
			fl, ok := n.(*ast.FuncLit)
			if !ok {
				return true
			}
			src := hl.Src(fl.Body)
			if !strings.Contains(src, fn.use) {
				return false
			}
			closures++
			if !strings.Contains(src, fn.fresh1) && (fn.fresh2 == "" || !strings.Contains(src, fn.fresh2)) {
				fresh = false
			}
			return false
		})
	}
	if closures < 8 {
		return fmt.Errorf("httplog.go: only %d logging closures found in structuredLogFunc/logFunc", closures)
	}
	for _, rel := range []string{"httplog/httplog.go", "httplog/slog.go", "httplog/logwriter.go"} {
		data, err := os.ReadFile(filepath.Join(repo, rel))
		if err != nil {
			return err
		}
		if strings.Contains(string(data), "sync.Pool") {
			fresh = false
		}
	}
	w.DefBool("log_builders_fresh_per_line", fresh)

	// bind/log.go httplogUpdate: a module named in --log-http is marked as set whenever it is named (not only when
	// its value changes), so that an unnamed default of the same or a later occurrence never overrides it
	blf, err := Parse(repo, "bind/log.go")
	if err != nil {
		return err
	}
	hu, err := blf.Func("httplogUpdate")
	if err != nil {
		return err
	}
	husrc := blf.Src(hu.Body)
	if !strings.Contains(husrc, "if dst[i].Name == src[j].Name {") || !strings.Contains(husrc, "if !changed[i] { *dst[i].Param = defaultMode }") {
		return fmt.Errorf("httplogUpdate: body is not a shape the model knows: %q", husrc)
	}
	w.DefBool("httplog_named_always_marks_changed",
		strings.Contains(husrc, "if dst[i].Name == src[j].Name { *dst[i].Param = *src[j].Param changed[i] = true break }"))

	// ---------------------------------------------------------------- describe.go and its users
	df, err := Parse(repo, "utils/cobrautil/describe.go")
	if err != nil {
		return err
	}
	dd, err := df.Func("FlagsDescriber.DescribeFlags")
	if err != nil {
		return err
	}
	dm, err := df.Func("FlagsDescriber.DescribeFlagsToMap")
	if err != nil {
		return err
	}
	ds, dms := df.Src(dd.Body), df.Src(dm.Body)
	w.DefBool("describe_sorted_name_eq_value",
		strings.Contains(ds, `fmt.Sprintf("%s=%s\n", name, args[name])`) && strings.Contains(ds, `fmt.Sprintf("%s=%s", name, args[name])`) &&
			strings.Contains(ds, `buf.WriteString(", ")`) && strings.Count(ds, "sort.Strings(keys)") == 2 &&
			strings.Contains(dms, "val := f.Value if d.Unredacted { if v, ok := f.Value.(redactedValue); ok { val = v.Unredacted() } }"))
	sites := 0
	err = filepath.Walk(repo, func(p string, info os.FileInfo, err error) error {
		if err != nil {
			return err
		}
		rel, _ := filepath.Rel(repo, p)
		if info.IsDir() {
			if rel == ".git" || rel == "e2e" || rel == "verifhook" {
				return filepath.SkipDir
			}
			return nil
		}
		if !strings.HasSuffix(p, ".go") || strings.HasSuffix(p, "_test.go") || rel == "utils/cobrautil/describe.go" || strings.HasPrefix(filepath.Base(p), "zz_verif") {
			return nil
		}
		data, err := os.ReadFile(p)
		if err != nil {
			return err
		}
		for _, line := range strings.Split(string(data), "\n") {
			t := strings.TrimSpace(line)
			if strings.HasPrefix(t, "//") {
				continue
			}
			if strings.Contains(t, "rv.Unredacted() != f.Value") {
				continue // bind.go: only asks WHETHER the flag has a redact function
			}
			if strings.Contains(t, "Unredacted:") || strings.Contains(t, ".Unredacted =") || strings.Contains(t, ".Unredacted()") {
				sites++
			}
		}
		return nil
	})
	if err != nil {
		return err
	}
	w.DefN("describers_unredacted_sites", uint64(sites))
	// utils/cobrautil/bind.go: a value from the environment / config file that a redacted flag refuses is not echoed
	bf0, err := Parse(repo, "utils/cobrautil/bind.go")
	if err != nil {
		return err
	}
	bv, err := bf0.Func("BindFromViper")
	if err != nil {
		return err
	}
	bsrc := bf0.Src(bv.Body)
	if !strings.Contains(bsrc, `"invalid argument `) {
		return fmt.Errorf("BindFromViper: the `invalid argument` report was not found")
	}
	w.DefBool("bind_error_redacts_value",
		strings.Contains(bsrc, "if rv, ok := f.Value.(redactedValue); ok && rv.Unredacted() != f.Value { shown = `\"xxxxx\"` }") &&
			strings.Contains(bsrc, `"invalid argument %s for %q flag: %v", shown, flagName, err`) && !strings.Contains(bsrc, `"invalid argument %q`))

	// ---------------------------------------------------------------- bind/flag.go: the flag table
	ff, err := Parse(repo, "bind/flag.go")
	if err != nil {
		return err
	}
	var flags []g19Flag
	var walkErr error
	ast.Inspect(ff.AST, func(n ast.Node) bool {
		ce, ok := n.(*ast.CallExpr)
		if !ok || walkErr != nil {
			return true
		}
		se, ok := ce.Fun.(*ast.SelectorExpr)
		if !ok || ff.Src(se.X) != "fs" {
			return true
		}
		m := se.Sel.Name
		if !(strings.HasSuffix(m, "Var") || strings.HasSuffix(m, "VarP")) || len(ce.Args) < 3 {
			return true
		}
		name, err := g19FlagName(ff, ce.Args[1])
		if err != nil {
			walkErr = fmt.Errorf("bind/flag.go: fs.%s: %w", m, err)
			return true
		}
		fl := g19Flag{name: name}
		if m == "Var" || m == "VarP" {
			// the value: anyflag.New[Slice]Value[WithRedact][T](...), possibly wrapped in struct{ pflag.Value }{...}
			var ctor *ast.CallExpr
			ast.Inspect(ce.Args[0], func(x ast.Node) bool {
				if c, ok := x.(*ast.CallExpr); ok && ctor == nil {
					if ie, ok := c.Fun.(*ast.IndexExpr); ok && strings.HasPrefix(ff.Src(ie.X), "anyflag.New") {
						ctor = c
						return false
					}
				}
				return true
			})
			if ctor != nil {
				ie := ctor.Fun.(*ast.IndexExpr)
				fn := ff.Src(ie.X)
				fl.typ = ff.Src(ie.Index)
				if strings.HasSuffix(fn, "WithRedact") {
					fl.rname = ff.Src(ctor.Args[len(ctor.Args)-1])
					if fl.rname == "" {
						walkErr = fmt.Errorf("bind/flag.go: %s: empty redact argument", name)
					}
				} else if fn != "anyflag.NewValue" && fn != "anyflag.NewSliceValue" {
					walkErr = fmt.Errorf("bind/flag.go: %s: constructor %s is not one the model knows", name, fn)
				}
			} else {
				fl.typ = "value:" + ff.Src(ce.Args[0])
			}
		} else {
			fl.typ = m
		}
		lits, idents := g19Strings(ff, ce.Args[len(ce.Args)-1])
		b64 := false
		for _, l := range lits {
			if strings.Contains(l, "path or base64") {
				b64 = true
			}
		}
		for _, id := range idents {
			if id == "pathOrBase64Syntax" {
				b64 = true
			}
		}
		fl.kind = g19Kind(fl.typ, b64)
		fl.redact = g19Redact(fl.rname)
		flags = append(flags, fl)
		return true
	})
	if walkErr != nil {
		return walkErr
	}
	if len(flags) < 40 {
		return fmt.Errorf("bind/flag.go: only %d flag registrations found", len(flags))
	}
	var parts []string
	for _, fl := range flags {
		parts = append(parts, fmt.Sprintf("(%s, %d, %d) (* %s %s %s *)", CoqStr(fl.name), fl.kind, fl.redact, comment(fl.name), comment(fl.typ), comment(fl.rname)))
	}
	w.Linef("Definition flag_table : list (str * N * N) :=\n  [%s].", strings.Join(parts, ";\n   "))
	return nil
}

func g07like(f *File, ss []ast.Stmt) []string {
	out := make([]string, len(ss))
	for i, s := range ss {
		out[i] = f.Src(s)
	}
	return out
}
