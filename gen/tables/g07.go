package main

import (
	"fmt"
	"go/ast"
	"go/token"
	"os"
	"path/filepath"
	"strings"
)

func init() { register("g07", genG07) }

func g07Stmts(f *File, ss []ast.Stmt) []string {
	out := make([]string, len(ss))
	for i, s := range ss {
		out[i] = f.Src(s)
	}
	return out
}

// g07FindIf returns the if statements (in source order, nested ones included) of n.
func g07Ifs(n ast.Node) []*ast.IfStmt {
	var out []*ast.IfStmt
	ast.Inspect(n, func(x ast.Node) bool {
		if is, ok := x.(*ast.IfStmt); ok {
			out = append(out, is)
		}
		return true
	})
	return out
}

// g07CountInTree counts occurrences of needle in the non-test .go files below repo (comment lines skipped).
func g07CountInTree(repo, needle string, skip func(rel, line string) bool) (int, error) {
	n := 0
	err := filepath.Walk(repo, func(p string, info os.FileInfo, err error) error {
		if err != nil {
			return err
		}
		rel, _ := filepath.Rel(repo, p)
		if info.IsDir() {
			if rel == ".git" || rel == "e2e" || rel == "verifhook" || strings.HasSuffix(rel, "/testing") || strings.HasSuffix(rel, "/testdata") {
				return filepath.SkipDir
			}
			return nil
		}
		if !strings.HasSuffix(p, ".go") || strings.HasSuffix(p, "_test.go") || strings.HasPrefix(filepath.Base(p), "zz_verif") {
			return nil
		}
		data, err := os.ReadFile(p)
		if err != nil {
			return err
		}
		for _, line := range strings.Split(string(data), "\n") {
			t := strings.TrimSpace(line)
			if strings.HasPrefix(t, "//") || !strings.Contains(line, needle) {
				continue
			}
			if skip != nil && skip(rel, t) {
				continue
			}
			n++
		}
		return nil
	})
	return n, err
}

// genG07 reads internal/martian/mitm/mitm.go, internal/martian/proxy_conn.go, internal/martian/proxy.go,
// http_proxy.go, http_transport.go, tls.go.
func genG07(repo string, w *Out) error {
	// ---------------------------------------------------------------- fixRequestScheme
	pf, err := Parse(repo, "internal/martian/proxy.go")
	if err != nil {
		return err
	}
	fx, err := pf.Func("Proxy.fixRequestScheme")
	if err != nil {
		return err
	}
	if len(fx.Body.List) != 2 {
		return fmt.Errorf("fixRequestScheme: %d top-level statements, expected 2", len(fx.Body.List))
	}
	if0, ok0 := fx.Body.List[0].(*ast.IfStmt)
	if1, ok1 := fx.Body.List[1].(*ast.IfStmt)
	if !ok0 || !ok1 || pf.Src(if0.Cond) != `req.URL.Scheme == ""` || pf.Src(if1.Cond) != `req.URL.Scheme == "http"` {
		return fmt.Errorf("fixRequestScheme: top-level statements are not `if req.URL.Scheme == \"\"` / `if req.URL.Scheme == \"http\"`")
	}
	// chain inside the first if
	type arm struct{ init, cond, body string }
	var arms []arm
	var cur ast.Stmt
	if len(if0.Body.List) == 1 {
		cur = if0.Body.List[0]
	}
	for cur != nil {
		switch x := cur.(type) {
		case *ast.IfStmt:
			a := arm{cond: pf.Src(x.Cond), body: strings.Join(g07Stmts(pf, x.Body.List), " ; ")}
			if x.Init != nil {
				a.init = pf.Src(x.Init)
			}
			arms = append(arms, a)
			cur = x.Else
		case *ast.BlockStmt:
			arms = append(arms, arm{cond: "else", body: strings.Join(g07Stmts(pf, x.List), " ; ")})
			cur = nil
		default:
			return fmt.Errorf("fixRequestScheme: unexpected statement %q", pf.Src(cur))
		}
	}
	hdrArm := arm{`proto := req.Header.Get("X-Forwarded-Proto")`, `proto != ""`, `req.URL.Scheme = proto`}
	tlsArm := arm{"", `req.TLS != nil`, `req.URL.Scheme = "https"`}
	elseArm := arm{"", "else", `req.URL.Scheme = "http"`}
	switch {
	case len(arms) == 3 && arms[0] == hdrArm && arms[1] == tlsArm && arms[2] == elseArm:
		w.DefBool("fix_scheme_header_before_tls", true)
	case len(arms) == 3 && arms[0] == tlsArm && arms[1] == hdrArm && arms[2] == elseArm:
		w.DefBool("fix_scheme_header_before_tls", false)
	default:
		return fmt.Errorf("fixRequestScheme: scheme cascade %v is not a shape the model knows", arms)
	}
	if len(if1.Body.List) != 1 {
		return fmt.Errorf("fixRequestScheme: body of `if req.URL.Scheme == \"http\"` is not a single statement")
	}
	in1, ok := if1.Body.List[0].(*ast.IfStmt)
	if !ok || in1.Else != nil {
		return fmt.Errorf("fixRequestScheme: force-https branch not found")
	}
	forceBody := g07Stmts(pf, in1.Body.List)
	if len(forceBody) == 0 || forceBody[len(forceBody)-1] != `req.URL.Scheme = "https"` {
		return fmt.Errorf("fixRequestScheme: force-https branch body %q", forceBody)
	}
	switch pf.Src(in1.Cond) {
	case "req.TLS != nil && !p.AllowHTTP":
		w.DefBool("fix_scheme_force_needs_not_allow_http", true)
	case "req.TLS != nil":
		w.DefBool("fix_scheme_force_needs_not_allow_http", false)
	default:
		return fmt.Errorf("fixRequestScheme: force-https condition %q is not a shape the model knows", pf.Src(in1.Cond))
	}

	// ---------------------------------------------------------------- shouldMITM, roundTrip
	sm, err := pf.Func("Proxy.shouldMITM")
	if err != nil {
		return err
	}
	got := strings.Join(g07Stmts(pf, sm.Body.List), " ; ")
	if got != "if p.MITMConfig == nil { return false } ; if p.MITMFilter != nil { return p.MITMFilter(req) } ; return true" {
		return fmt.Errorf("shouldMITM: body %q is not a shape the model knows", got)
	}
	w.DefBool("should_mitm_config_then_filter", true)
	rt, err := pf.Func("Proxy.roundTrip")
	if err != nil {
		return err
	}
	var rts []string
	for _, c := range pf.CallsIn(rt.Body) {
		if strings.Contains(c, "RoundTrip(") {
			rts = append(rts, c)
		}
	}
	if len(rts) != 1 || rts[0] != "p.rt.RoundTrip(req)" {
		return fmt.Errorf("roundTrip: RoundTrip calls %q, expected exactly p.rt.RoundTrip(req)", rts)
	}
	w.DefBool("roundtrip_single_transport", true)

	// ---------------------------------------------------------------- proxy_conn.go
	cf, err := Parse(repo, "internal/martian/proxy_conn.go")
	if err != nil {
		return err
	}
	hm, err := cf.Func("proxyConn.handleMITM")
	if err != nil {
		return err
	}
	passesHost, handshakeByte, marksSecure, marksMitm := false, false, false, false
	for _, c := range cf.CallsIn(hm.Body) {
		if c == "p.MITMConfig.TLSForHost(req.Context(), req.Host)" {
			passesHost = true
		}
	}
	var tlsBlock *ast.IfStmt
	for _, is := range g07Ifs(hm.Body) {
		if cf.Src(is.Cond) == "len(b) > 0 && b[0] == 22" {
			handshakeByte = true
			tlsBlock = is
		}
	}
	if !passesHost {
		return fmt.Errorf("handleMITM: p.MITMConfig.TLSForHost(req.Context(), req.Host) not found")
	}
	if tlsBlock == nil {
		return fmt.Errorf("handleMITM: `if len(b) > 0 && b[0] == 22` not found")
	}
	mitmAssigns := 0
	ast.Inspect(hm.Body, func(n ast.Node) bool {
		as, ok := n.(*ast.AssignStmt)
		if !ok {
			return true
		}
		if cf.Src(as) == "p.mitm = true" {
			mitmAssigns++
		}
		return true
	})
	for _, s := range tlsBlock.Body.List {
		switch cf.Src(s) {
		case "p.secure = true":
			marksSecure = true
		case "p.mitm = true":
			marksMitm = true
		}
	}
	if mitmAssigns > 0 && !marksMitm {
		return fmt.Errorf("handleMITM: p.mitm is set outside the TLS branch")
	}
	w.DefBool("mitm_passes_req_host", passesHost)
	w.DefBool("mitm_tls_only_on_handshake_byte", handshakeByte)
	w.DefBool("mitm_marks_secure_after_handshake", marksSecure)

	hc, err := cf.Func("proxyConn.handleConnectRequest")
	if err != nil {
		return err
	}
	posMITM, posConnect := token.NoPos, token.NoPos
	ast.Inspect(hc.Body, func(n ast.Node) bool {
		switch x := n.(type) {
		case *ast.IfStmt:
			if cf.Src(x.Cond) == "p.shouldMITM(req)" && len(x.Body.List) == 1 && cf.Src(x.Body.List[0]) == "return p.handleMITM(req)" && posMITM == token.NoPos {
				posMITM = x.Pos()
			}
		case *ast.CallExpr:
			if strings.HasPrefix(cf.Src(x), "p.Connect(") && posConnect == token.NoPos {
				posConnect = x.Pos()
			}
		}
		return true
	})
	if posMITM == token.NoPos || posConnect == token.NoPos {
		return fmt.Errorf("handleConnectRequest: `if p.shouldMITM(req) { return p.handleMITM(req) }` or p.Connect(...) not found")
	}
	w.DefBool("connect_checks_mitm_before_dial", posMITM < posConnect)

	hd, err := cf.Func("proxyConn.handle")
	if err != nil {
		return err
	}
	posFix, posRT, posForce := token.NoPos, token.NoPos, token.NoPos
	for _, s := range hd.Body.List {
		src := cf.Src(s)
		switch {
		case src == "p.fixRequestScheme(req)":
			posFix = s.Pos()
		case strings.Contains(src, "p.roundTrip(req)") && posRT == token.NoPos:
			posRT = s.Pos()
		}
		if is, ok := s.(*ast.IfStmt); ok && cf.Src(is.Cond) == "p.mitm" {
			if is.Init != nil || is.Else != nil || len(is.Body.List) != 1 || cf.Src(is.Body.List[0]) != `req.URL.Scheme = "https"` {
				return fmt.Errorf("handle: `if p.mitm` block %q is not a shape the model knows", src)
			}
			posForce = s.Pos()
		}
	}
	if posFix == token.NoPos || posRT == token.NoPos {
		return fmt.Errorf("handle: p.fixRequestScheme(req) / p.roundTrip(req) not found at top level")
	}
	w.DefBool("handle_fixes_scheme_before_roundtrip", posFix < posRT)
	forces := posForce != token.NoPos && posFix < posForce && posForce < posRT && marksMitm
	if (posForce != token.NoPos) != marksMitm {
		return fmt.Errorf("handle/handleMITM: `if p.mitm { req.URL.Scheme = \"https\" }` and `p.mitm = true` must come together")
	}
	w.DefBool("mitm_session_forces_https", forces)

	// ---------------------------------------------------------------- mitm.go
	mf, err := Parse(repo, "internal/martian/mitm/mitm.go")
	if err != nil {
		return err
	}
	tfh, err := mf.Func("Config.TLSForHost")
	if err != nil {
		return err
	}
	var getCert *ast.FuncLit
	ast.Inspect(tfh.Body, func(n ast.Node) bool {
		if kv, ok := n.(*ast.KeyValueExpr); ok && mf.Src(kv.Key) == "GetCertificate" {
			getCert, _ = kv.Value.(*ast.FuncLit)
		}
		return true
	})
	if getCert == nil {
		return fmt.Errorf("TLSForHost: GetCertificate function literal not found")
	}
	switch strings.Join(g07Stmts(mf, getCert.Body.List), " ; ") {
	case `host := clientHello.ServerName ; if host == "" { host = hostname } ; return c.cert(ctx, host)`:
		w.DefBool("tls_for_host_sni_first", true)
	case `return c.cert(ctx, hostname)`:
		w.DefBool("tls_for_host_sni_first", false)
	default:
		return fmt.Errorf("TLSForHost: GetCertificate body %q is not a shape the model knows", g07Stmts(mf, getCert.Body.List))
	}
	ce, err := mf.Func("Config.cert")
	if err != nil {
		return err
	}
	body := g07Stmts(mf, ce.Body.List)
	if len(body) < 4 {
		return fmt.Errorf("cert: body too short")
	}
	idx := 0
	if body[0] == "host, _, err := net.SplitHostPort(hostname)" && body[1] == "if err == nil { hostname = host }" {
		w.DefBool("cert_strips_port", true)
		idx = 2
	} else {
		w.DefBool("cert_strips_port", false)
	}
	if body[idx] != "tlsc, ok := c.certs.Get(hostname)" {
		return fmt.Errorf("cert: statement %q, expected `tlsc, ok := c.certs.Get(hostname)`", body[idx])
	}
	hit, ok := ce.Body.List[idx+1].(*ast.IfStmt)
	if !ok || mf.Src(hit.Cond) != "ok" || hit.Else != nil {
		return fmt.Errorf("cert: `if ok { ... }` not found after the cache lookup")
	}
	reval, checks, direct := false, false, false
	for _, s := range hit.Body.List {
		switch x := s.(type) {
		case *ast.ReturnStmt:
			if mf.Src(x) == "return tlsc, nil" {
				direct = true
			}
		case *ast.IfStmt:
			if x.Init == nil || mf.Src(x.Cond) != "err == nil" || len(x.Body.List) != 1 || mf.Src(x.Body.List[0]) != "return tlsc, nil" {
				continue
			}
			init := mf.Src(x.Init)
			if !strings.HasPrefix(init, "_, err := tlsc.Leaf.Verify(x509.VerifyOptions{") {
				return fmt.Errorf("cert: cache-hit check %q is not tlsc.Leaf.Verify(x509.VerifyOptions{...})", init)
			}
			reval = true
			opts := map[string]string{}
			ast.Inspect(x.Init, func(n ast.Node) bool {
				if kv, ok := n.(*ast.KeyValueExpr); ok {
					opts[mf.Src(kv.Key)] = mf.Src(kv.Value)
				}
				return true
			})
			_, hasTime := opts["CurrentTime"]
			_, hasKU := opts["KeyUsages"]
			checks = opts["DNSName"] == "hostname" && opts["Roots"] == "c.roots" && !hasTime && !hasKU && len(opts) == 2
		}
	}
	if direct && reval {
		return fmt.Errorf("cert: cache hit is both returned directly and re-validated")
	}
	if !direct && !reval {
		return fmt.Errorf("cert: cache hit is never returned: not a shape the model knows")
	}
	w.DefBool("cert_revalidates_cache_hit", reval)
	w.DefBool("cert_verify_checks_name_and_roots", checks || !reval)
	rest := strings.Join(body[idx+2:], " ; ")
	w.DefBool("cert_ip_san_for_ip_literal",
		strings.Contains(rest, "if ip := net.ParseIP(hostname); ip != nil { tmpl.IPAddresses = []net.IP{ip} } else { tmpl.DNSNames = []string{hostname} }"))
	w.DefBool("cert_window_symmetric_validity",
		strings.Contains(rest, "NotBefore: time.Now().Add(-c.validity)") && strings.Contains(rest, "NotAfter: time.Now().Add(c.validity)"))
	w.DefBool("cert_chain_includes_ca",
		strings.Contains(rest, "x509.CreateCertificate(rand.Reader, tmpl, c.ca, c.priv.Public(), c.capriv)") &&
			strings.Contains(rest, "Certificate: [][]byte{raw, c.ca.Raw}") && strings.Contains(rest, "Leaf: x509c"))
	if !strings.Contains(rest, "c.certs.Add(hostname, tlsc)") {
		return fmt.Errorf("cert: c.certs.Add(hostname, tlsc) not found")
	}

	// ---------------------------------------------------------------- http_proxy.go
	hf, err := Parse(repo, "http_proxy.go")
	if err != nil {
		return err
	}
	cp, err := hf.Func("HTTPProxy.configureProxy")
	if err != nil {
		return err
	}
	allow, filterHost, rtAssign := "", false, false
	ast.Inspect(cp.Body, func(n ast.Node) bool {
		as, ok := n.(*ast.AssignStmt)
		if !ok || len(as.Lhs) != 1 || len(as.Rhs) != 1 {
			return true
		}
		switch hf.Src(as.Lhs[0]) {
		case "hp.proxy.AllowHTTP":
			allow = hf.Src(as.Rhs[0])
		case "hp.proxy.RoundTripper":
			rtAssign = hf.Src(as.Rhs[0]) == "hp.transport"
		case "hp.proxy.MITMFilter":
			if fl, ok := as.Rhs[0].(*ast.FuncLit); ok && len(fl.Body.List) == 1 &&
				hf.Src(fl.Body.List[0]) == "return hp.config.MITMDomains.Match(req.URL.Hostname())" {
				filterHost = true
			}
		}
		return true
	})
	switch allow {
	case "true":
		w.DefBool("forwarder_allow_http", true)
	case "false", "":
		w.DefBool("forwarder_allow_http", false)
	default:
		return fmt.Errorf("configureProxy: hp.proxy.AllowHTTP = %s is not a literal", allow)
	}
	if !rtAssign {
		return fmt.Errorf("configureProxy: hp.proxy.RoundTripper = hp.transport not found")
	}
	w.DefBool("mitm_filter_uses_url_hostname", filterHost)

	n, err := g07CountInTree(repo, ".SetH2Config(", func(rel, line string) bool {
		return strings.HasPrefix(line, "func (c *Config) SetH2Config(")
	})
	if err != nil {
		return err
	}
	w.DefN("set_h2_config_call_sites", uint64(n))

	// the upstream dialer (dialvia.HTTPSProxy writes ServerName/NextProtos into the config it is given) and the
	// TLS-terminating CONNECT get a private copy of the Transport's tls.Config
	pcf, err := Parse(repo, "internal/martian/proxy_connect.go")
	if err != nil {
		return err
	}
	ctc, err := pcf.Func("Proxy.clientTLSConfig")
	if err != nil {
		return err
	}
	csrc := pcf.Src(ctc.Body)
	cloned := strings.Contains(csrc, "return tr.TLSClientConfig.Clone()")
	if !cloned && !strings.Contains(csrc, "return tr.TLSClientConfig") {
		return fmt.Errorf("clientTLSConfig: body %q is not a shape the model knows", csrc)
	}
	w.DefBool("upstream_dialer_gets_tls_clone", cloned)

	// mitm.go (forwarder): the CA the proxy generates for itself keeps certutil's own lifetime, it is not derived
	// from the leaf validity
	mg, err := Parse(repo, "mitm.go")
	if err != nil {
		return err
	}
	lca, err := mg.Func("MITMConfig.loadCACertificate")
	if err != nil {
		return err
	}
	lcasrc := mg.Src(lca.Body)
	if !strings.Contains(lcasrc, "tmpl := certutil.ECDSASelfSignedCert()") || !strings.Contains(lcasrc, "return tmpl.Gen()") {
		return fmt.Errorf("loadCACertificate: generated-CA branch is not a shape the model knows: %q", lcasrc)
	}
	w.DefBool("generated_ca_lifetime_not_from_validity",
		!strings.Contains(lcasrc, "Validity") && !strings.Contains(lcasrc, "ValidFor") && !strings.Contains(lcasrc, "ValidFrom"))

	// ---------------------------------------------------------------- http_transport.go, tls.go
	tf, err := Parse(repo, "http_transport.go")
	if err != nil {
		return err
	}
	nt, err := tf.Func("NewHTTPTransport")
	if err != nil {
		return err
	}
	src := tf.Src(nt.Body)
	w.DefBool("transport_tls_from_client_config",
		strings.Contains(src, "tlsCfg := new(tls.Config)") && strings.Contains(src, "cfg.ConfigureTLSConfig(tlsCfg)") &&
			strings.Contains(src, "TLSClientConfig: tlsCfg"))
	sites, err := g07CountInTree(repo, "InsecureSkipVerify", nil)
	if err != nil {
		return err
	}
	w.DefN("insecure_skip_verify_sites", uint64(sites))
	lf, err := Parse(repo, "tls.go")
	if err != nil {
		return err
	}
	ct, err := lf.Func("TLSClientConfig.ConfigureTLSConfig")
	if err != nil {
		return err
	}
	under := false
	for _, is := range g07Ifs(ct.Body) {
		if lf.Src(is.Cond) == "c.Insecure" {
			for _, s := range is.Body.List {
				if lf.Src(s) == "tlsCfg.InsecureSkipVerify = true" {
					under = true
				}
			}
		}
	}
	w.DefBool("insecure_only_under_flag", under && sites == 1)
	// the root pool of a client configuration is built for that configuration alone: a fresh copy of the
	// system pool per call, the configured CA files appended to it, nothing shared at package level
	lr, err := lf.Func("TLSClientConfig.loadRootCAs")
	if err != nil {
		return err
	}
	lsrc := strings.Join(g07Stmts(lf, lr.Body.List), " ; ")
	freshPool := strings.Contains(lsrc, "rootCAs, err := x509.SystemCertPool()") && strings.Contains(lsrc, "rootCAs.AppendCertsFromPEM(b)") &&
		strings.HasSuffix(lsrc, "tlsCfg.RootCAs = rootCAs ; return nil")
	pkgPools := 0
	for _, d := range lf.AST.Decls {
		gd, ok := d.(*ast.GenDecl)
		if !ok || gd.Tok != token.VAR {
			continue
		}
		if strings.Contains(lf.Src(gd), "CertPool") {
			pkgPools++
		}
	}
	if !freshPool && pkgPools == 0 && !strings.Contains(lsrc, ".Clone()") {
		return fmt.Errorf("loadRootCAs: body %q is not a shape the model knows", lsrc)
	}
	w.DefBool("root_pool_fresh_per_config", (freshPool || strings.Contains(lsrc, ".Clone()")) && pkgPools == 0)
	return nil
}
