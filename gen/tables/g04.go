package main

// Group g04 (C04 access control, C06 credential confinement): constants, lists,
// orders of calls and code shapes read from the forwarder sources.

import (
	"fmt"
	"go/ast"
	"go/token"
	"strings"
)

func init() { register("g04", genG04) }

var g04StatusCodes = map[string]uint64{
	"http.StatusProxyAuthRequired":            407,
	"http.StatusForbidden":                    403,
	"http.StatusUnavailableForLegalReasons":   451,
	"http.StatusUnauthorized":                 401,
	"http.StatusBadRequest":                   400,
	"http.StatusBadGateway":                   502,
	"http.StatusInternalServerError":          500,
	"http.StatusServiceUnavailable":           503,
	"http.StatusGatewayTimeout":               504,
	"http.StatusOK":                           200,
	"http.StatusNotFound":                     404,
	"http.StatusMethodNotAllowed":             405,
	"http.StatusTooManyRequests":              429,
	"http.StatusLocked":                       423,
	"http.StatusPaymentRequired":              402,
	"http.StatusNetworkAuthenticationRequired": 511,
}

// ifConds lists the rendered conditions (with init statement, if any) of every if statement in n.
func g04IfConds(f *File, n ast.Node) []string {
	var out []string
	ast.Inspect(n, func(x ast.Node) bool {
		if is, ok := x.(*ast.IfStmt); ok {
			c := f.Src(is.Cond)
			if is.Init != nil {
				c = f.Src(is.Init) + "; " + c
			}
			out = append(out, c)
		}
		return true
	})
	return out
}

func g04Has(list []string, want string) bool {
	for _, s := range list {
		if s == want {
			return true
		}
	}
	return false
}

func g04Need(where string, list []string, wants ...string) error {
	for _, w := range wants {
		if !g04Has(list, w) {
			return fmt.Errorf("%s: expected %q, found %q", where, w, list)
		}
	}
	return nil
}

// stringList evaluates a []string{...} composite literal of string literals.
func g04StringList(e ast.Expr) ([]string, bool) {
	cl, ok := e.(*ast.CompositeLit)
	if !ok {
		return nil, false
	}
	var out []string
	for _, el := range cl.Elts {
		s, ok := StringLit(el)
		if !ok {
			return nil, false
		}
		out = append(out, s)
	}
	return out, true
}

// addCalls lists, in source order, (receiver.Method, rendered argument, innermost enclosing if-condition)
// for calls recv.AddRequestModifier / recv.AddResponseModifier inside fn.
type g04Add struct{ recv, kind, arg, guard string }

func g04AddCalls(f *File, body *ast.BlockStmt) []g04Add {
	var out []g04Add
	var walk func(n ast.Node, guard string)
	walk = func(n ast.Node, guard string) {
		switch x := n.(type) {
		case *ast.IfStmt:
			g := f.Src(x.Cond)
			walk(x.Body, g)
			if x.Else != nil {
				walk(x.Else, "else:"+g)
			}
			return
		case *ast.BlockStmt:
			for _, s := range x.List {
				walk(s, guard)
			}
			return
		case *ast.ForStmt:
			walk(x.Body, guard)
			return
		case *ast.RangeStmt:
			walk(x.Body, guard+"|range "+f.Src(x.X))
			return
		case *ast.ExprStmt:
			if ce, ok := x.X.(*ast.CallExpr); ok {
				if se, ok := ce.Fun.(*ast.SelectorExpr); ok && len(ce.Args) == 1 {
					if se.Sel.Name == "AddRequestModifier" || se.Sel.Name == "AddResponseModifier" {
						out = append(out, g04Add{f.Src(se.X), se.Sel.Name, f.Src(ce.Args[0]), guard})
					}
				}
			}
		}
	}
	walk(body, "")
	return out
}

// returnedErr finds `return ErrXxx` inside the function literal of a modifier constructor
// together with the condition of the if statement that guards it.
func g04ReturnedErr(f *File, fd *ast.FuncDecl) (errName, cond string, err error) {
	ast.Inspect(fd.Body, func(x ast.Node) bool {
		is, ok := x.(*ast.IfStmt)
		if !ok {
			return true
		}
		for _, s := range is.Body.List {
			if rs, ok := s.(*ast.ReturnStmt); ok && len(rs.Results) == 1 {
				if id, ok := rs.Results[0].(*ast.Ident); ok && strings.HasPrefix(id.Name, "Err") {
					errName, cond = id.Name, f.Src(is.Cond)
					if is.Init != nil {
						cond = f.Src(is.Init) + "; " + cond
					}
				}
			}
		}
		return true
	})
	if errName == "" {
		return "", "", fmt.Errorf("%s: no `if cond { return ErrXxx }` found", fd.Name.Name)
	}
	return errName, cond, nil
}

// callOrder returns the names (selector) of method calls on receiver `p` inside fd, in source order,
// restricted to the given set.
func g04CallOrder(f *File, fd *ast.FuncDecl, keep map[string]bool) []string {
	var out []string
	ast.Inspect(fd.Body, func(x ast.Node) bool {
		ce, ok := x.(*ast.CallExpr)
		if !ok {
			return true
		}
		if se, ok := ce.Fun.(*ast.SelectorExpr); ok {
			if id, ok := se.X.(*ast.Ident); ok && id.Name == g04RecvName(fd) && keep[se.Sel.Name] {
				out = append(out, se.Sel.Name)
			}
		}
		return true
	})
	return out
}

func g04RecvName(fd *ast.FuncDecl) string {
	if fd.Recv != nil && len(fd.Recv.List) == 1 && len(fd.Recv.List[0].Names) == 1 {
		return fd.Recv.List[0].Names[0].Name
	}
	return ""
}

// errorReturnShape checks `if err := p.modifyRequest(req); err != nil { ...; return p.writeErrorResponse(req, err) }`
// (conn) or `{ ...; p.writeErrorResponse(rw, req, err); return }` (handler).
func g04ModifyRequestAborts(f *File, fd *ast.FuncDecl) bool {
	al := newAlpha(fd, "p", "req", "err", "rw", "ctx")
	found := false
	ast.Inspect(fd.Body, func(x ast.Node) bool {
		is, ok := x.(*ast.IfStmt)
		if !ok || is.Init == nil {
			return true
		}
		if !al.Eq("err := p.modifyRequest(req)", f.Src(is.Init)) || !al.Eq("err != nil", f.Src(is.Cond)) {
			return true
		}
		n := len(is.Body.List)
		if n == 0 {
			return true
		}
		last := f.Src(is.Body.List[n-1])
		if al.Eq("return p.writeErrorResponse(req, err)", last) {
			found = true
		}
		if last == "return" && n >= 2 && al.Eq("p.writeErrorResponse(rw, req, err)", f.Src(is.Body.List[n-2])) {
			found = true
		}
		return true
	})
	return found
}

// writeErrorShape: does writeErrorResponse run a locally generated response through
// p.modifyErrorResponse (challenge kept) or through p.modifyResponse (challenge stripped)?
func g04WriteErrorShape(f *File, fd *ast.FuncDecl) (keeps bool, err error) {
	al := newAlpha(fd, "p", "rw", "req", "err", "res", "modify")
	calls := f.CallsIn(fd.Body)
	var stmts []string
	for _, s := range fd.Body.List {
		stmts = append(stmts, f.Src(s))
	}
	joined := strings.Join(stmts, " ;; ")
	hasMaybe := false
	for _, c := range calls {
		if strings.HasPrefix(c, "maybeConnectErrorResponse(") {
			hasMaybe = true
		}
	}
	if !hasMaybe || !al.In(calls, "p.errorResponse(req, err)") {
		return false, fmt.Errorf("%s writeErrorResponse: maybeConnectErrorResponse/errorResponse calls not found: %q", f.Path, calls)
	}
	switch {
	case al.In(calls, "p.modifyResponse(res)") && !strings.Contains(joined, "modifyErrorResponse"):
		return false, nil
	case al.Contains(joined, "modify := p.modifyResponse") &&
		al.Contains(joined, "if res == nil { res = p.errorResponse(req, err) modify = p.modifyErrorResponse }") &&
		al.In(calls, "modify(res)"):
		return true, nil
	}
	return false, fmt.Errorf("%s writeErrorResponse: not a shape the model knows: %s", f.Path, joined)
}

func genG04(repo string, w *Out) error {
	// ------------------------------------------------------------ middleware/basic_auth.go
	ba, err := Parse(repo, "middleware/basic_auth.go")
	if err != nil {
		return err
	}
	pah, err := ba.ValueSpec("ProxyAuthorizationHeader")
	if err != nil {
		return err
	}
	pahs, ok := StringLit(pah)
	if !ok {
		return fmt.Errorf("basic_auth.go: ProxyAuthorizationHeader is not a string literal")
	}
	w.DefStr("auth_header", pahs)
	// the BasicAuth struct: its fields (the model's AuthenticatedRequest is a pure function of header map and
	// configured credentials: any further field is state the model does not know)
	var baFields []string
	for _, d := range ba.AST.Decls {
		gd, ok := d.(*ast.GenDecl)
		if !ok || gd.Tok != token.TYPE {
			continue
		}
		for _, sp := range gd.Specs {
			ts := sp.(*ast.TypeSpec)
			if st, ok := ts.Type.(*ast.StructType); ok && ts.Name.Name == "BasicAuth" {
				for _, f := range st.Fields.List {
					if len(f.Names) == 0 {
						baFields = append(baFields, ba.Src(f.Type))
					}
					for _, n := range f.Names {
						baFields = append(baFields, n.Name+" "+ba.Src(f.Type))
					}
				}
			}
		}
	}
	w.DefStrList("basic_auth_struct_fields", baFields)
	npba, err := ba.Func("NewProxyBasicAuth")
	if err != nil {
		return err
	}
	if s := ba.Src(npba.Body); !strings.Contains(s, "&BasicAuth{header: ProxyAuthorizationHeader}") {
		return fmt.Errorf("NewProxyBasicAuth: body %q", s)
	}
	pba, err := ba.Func("parseBasicAuth")
	if err != nil {
		return err
	}
	prefix := ""
	ast.Inspect(pba.Body, func(x ast.Node) bool {
		if gd, ok := x.(*ast.GenDecl); ok && gd.Tok == token.CONST {
			for _, sp := range gd.Specs {
				vs := sp.(*ast.ValueSpec)
				if len(vs.Names) == 1 && len(vs.Values) == 1 && prefix == "" {
					prefix, _ = StringLit(vs.Values[0]) // the only constant of the function, whatever its name
				}
			}
		}
		return true
	})
	if prefix == "" {
		return fmt.Errorf("parseBasicAuth: const prefix not found")
	}
	w.DefStr("basic_prefix", prefix)
	apba := newAlpha(pba, "auth", "prefix", "c", "err", "cs", "username", "password", "ok")
	if err := apba.Need("parseBasicAuth conditions", g04IfConds(ba, pba.Body),
		"len(auth) < len(prefix) || !strings.EqualFold(auth[:len(prefix)], prefix)", "err != nil", "!ok"); err != nil {
		return err
	}
	if err := apba.Need("parseBasicAuth calls", ba.CallsIn(pba.Body),
		"base64.StdEncoding.DecodeString(auth[len(prefix):])", `strings.Cut(cs, ":")`); err != nil {
		return err
	}
	bam, err := ba.Func("BasicAuth.BasicAuth")
	if err != nil {
		return err
	}
	abam := newAlpha(bam, "ba", "r", "auth", "username", "password", "ok")
	if err := abam.Need("BasicAuth.BasicAuth calls", ba.CallsIn(bam.Body), "r.Header.Get(ba.header)", "parseBasicAuth(auth)"); err != nil {
		return err
	}
	if err := abam.Need("BasicAuth.BasicAuth conditions", g04IfConds(ba, bam.Body), `auth == ""`); err != nil {
		return err
	}
	ar, err := ba.Func("BasicAuth.AuthenticatedRequest")
	if err != nil {
		return err
	}
	if n := len(ar.Body.List); n != 3 {
		return fmt.Errorf("AuthenticatedRequest: %d statements, the model transcribes 3 (parse, compare, return true)", n)
	}
	if err := newAlpha(ar, "ba", "r", "expectedUser", "expectedPass", "user", "pass", "ok").Need("AuthenticatedRequest conditions", g04IfConds(ba, ar.Body),
		"!ok || subtle.ConstantTimeCompare([]byte(user), []byte(expectedUser)) != 1 || subtle.ConstantTimeCompare([]byte(pass), []byte(expectedPass)) != 1"); err != nil {
		return err
	}

	// ------------------------------------------------------------ ruleset/timeframe.go, middleware/time_frame_allow.go
	tf, err := Parse(repo, "ruleset/timeframe.go")
	if err != nil {
		return err
	}
	tfm, err := tf.Func("TimeFrameEntry.Match")
	if err != nil {
		return err
	}
	atf := newAlpha(tfm, "t", "timeToMatch", "localTime")
	conds := g04IfConds(tf, tfm.Body)
	if len(conds) != 2 || !atf.Eq("localTime.Weekday() != t.Weekday", conds[0]) {
		return fmt.Errorf("TimeFrameEntry.Match: conditions %q", conds)
	}
	var startIncl, endExcl bool
	switch {
	case atf.HasPrefix(conds[1], "localTime.Hour() >= t.HourStart && "):
		startIncl = true
	case atf.HasPrefix(conds[1], "localTime.Hour() > t.HourStart && "):
		startIncl = false
	default:
		return fmt.Errorf("TimeFrameEntry.Match: hour condition %q", conds[1])
	}
	switch {
	case atf.HasSuffix(conds[1], " && localTime.Hour() < t.HourEnd"):
		endExcl = true
	case atf.HasSuffix(conds[1], " && localTime.Hour() <= t.HourEnd"):
		endExcl = false
	default:
		return fmt.Errorf("TimeFrameEntry.Match: hour condition %q", conds[1])
	}
	// ParseTimeFrameEntry: the weekday names of the switch
	ptf, err := tf.Func("ParseTimeFrameEntry")
	if err != nil {
		return err
	}
	weekdays := map[string]int{"time.Sunday": 0, "time.Monday": 1, "time.Tuesday": 2, "time.Wednesday": 3, "time.Thursday": 4, "time.Friday": 5, "time.Saturday": 6}
	var wdNames []string
	var wdVals []int
	aptf := newAlpha(ptf, "repr", "newEntry", "split", "weekdayName", "hourStartHourEnd", "hourStart", "hourEnd", "err")
	ast.Inspect(ptf.Body, func(x ast.Node) bool {
		cc, ok := x.(*ast.CaseClause)
		if !ok || len(cc.Body) != 1 {
			return true
		}
		as, ok := cc.Body[0].(*ast.AssignStmt)
		if !ok || len(as.Lhs) != 1 || !aptf.Eq("newEntry.Weekday", tf.Src(as.Lhs[0])) {
			return true
		}
		v, ok := weekdays[tf.Src(as.Rhs[0])]
		if !ok {
			return true
		}
		for _, e := range cc.List {
			if n, ok := StringLit(e); ok {
				wdNames = append(wdNames, n)
				wdVals = append(wdVals, v)
			}
		}
		return true
	})
	if len(wdNames) == 0 {
		return fmt.Errorf("ParseTimeFrameEntry: weekday switch not found")
	}
	{
		var parts []string
		for i, n := range wdNames {
			parts = append(parts, fmt.Sprintf("(%s, %d)", CoqStr(n), wdVals[i]))
		}
		w.Linef("Definition weekday_names : list (str * N) := [%s]. (* %s *)", strings.Join(parts, "; "), comment(fmt.Sprintf("%q", wdNames)))
	}
	if err := aptf.Need("ParseTimeFrameEntry calls", tf.CallsIn(ptf.Body), `strings.Split(repr, "/")`, "strings.ToLower(strings.TrimSpace(split[0]))",
		`strings.Split(split[1], "-")`, "strconv.Atoi(hourStartHourEnd[0])", "strconv.Atoi(hourStartHourEnd[1])", "newEntry.Validate()"); err != nil {
		return err
	}
	if err := aptf.Need("ParseTimeFrameEntry conditions", g04IfConds(tf, ptf.Body), `len(split) != 2 || strings.TrimSpace(split[1]) == ""`,
		"len(hourStartHourEnd) != 2"); err != nil {
		return err
	}
	vfd, err := tf.Func("TimeFrameEntry.Validate")
	if err != nil {
		return err
	}
	if err := newAlpha(vfd, "t").Need("TimeFrameEntry.Validate conditions", g04IfConds(tf, vfd.Body), "t.Weekday < 0 || t.Weekday > 6",
		"t.HourStart < 0 || t.HourStart > 24", "t.HourEnd < 0 || t.HourEnd > 24", "t.HourEnd < t.HourStart"); err != nil {
		return err
	}
	w.DefBool("tf_start_inclusive", startIncl)
	w.DefBool("tf_end_exclusive", endExcl)
	tfa, err := Parse(repo, "middleware/time_frame_allow.go")
	if err != nil {
		return err
	}
	tfaf, err := tfa.Func("TimeFrameAllows")
	if err != nil {
		return err
	}
	atfa := newAlpha(tfaf, "allowRules", "currentTime", "rule")
	if err := atfa.Need("TimeFrameAllows", tfa.CallsIn(tfaf.Body), "getCurrentTime()", "rule.Match(currentTime)"); err != nil {
		return err
	}
	if s := tfa.Src(tfaf.Body); !atfa.Contains(s, "if rule.Match(currentTime) { return true }") || !strings.HasSuffix(s, "return false }") {
		return fmt.Errorf("TimeFrameAllows: body %q", s)
	}

	// ------------------------------------------------------------ http_proxy.go
	hp, err := Parse(repo, "http_proxy.go")
	if err != nil {
		return err
	}
	nhp, err := hp.Func("newHTTPProxy")
	if err != nil {
		return err
	}
	var seed []string
	ast.Inspect(nhp.Body, func(x ast.Node) bool {
		if kv, ok := x.(*ast.KeyValueExpr); ok {
			if id, ok := kv.Key.(*ast.Ident); ok && id.Name == "localhost" {
				if l, ok := g04StringList(kv.Value); ok {
					seed = l
				}
			}
		}
		return true
	})
	if seed == nil {
		return fmt.Errorf("newHTTPProxy: localhost: []string{...} not found")
	}
	w.DefStrList("localhost_seed", seed)
	nhpp, err := hp.Func("NewHTTPProxy")
	if err != nil {
		return err
	}
	anh := newAlpha(nhpp, "hp", "lh", "i", "err", "ll", "l")
	if s := hp.Src(nhpp.Body); !anh.Contains(s, "for i := range lh { lh[i] = strings.ToLower(lh[i]) }") ||
		!anh.Contains(s, "hp.localhost = append(hp.localhost, lh...)") ||
		!strings.Contains(s, "hostsfile.LocalhostAliases()") {
		return fmt.Errorf("NewHTTPProxy: hosts-file alias loading not in the known shape")
	}
	il, err := hp.Func("HTTPProxy.isLocalhost")
	if err != nil {
		return err
	}
	if len(il.Body.List) == 0 {
		return fmt.Errorf("isLocalhost: empty body")
	}
	ail := newAlpha(il, "hp", "host", "ip")
	mapsIDNA := false
	stripsDot := false
	switch first := hp.Src(il.Body.List[0]); {
	case ail.Eq("host = strings.ToLower(host)", first):
	case ail.Eq("host = strings.ToLower(asciiHostname(host))", first):
		mapsIDNA = true
	case ail.Eq(`host = strings.TrimSuffix(strings.ToLower(asciiHostname(host)), ".")`, first):
		mapsIDNA, stripsDot = true, true
	default:
		return fmt.Errorf("isLocalhost: first statement %q is not a shape the model knows", hp.Src(il.Body.List[0]))
	}
	w.DefBool("localhost_maps_idna", mapsIDNA)
	w.DefBool("localhost_strips_dot", stripsDot)
	ilc := g04IfConds(hp, il.Body)
	if len(ilc) != 2 || !ail.Eq("slices.Contains(hp.localhost, host)", ilc[0]) {
		return fmt.Errorf("isLocalhost: conditions %q", ilc)
	}
	// a zone cut off between the name lookup and net.ParseIP?
	stripsZone := false
	for i, st := range il.Body.List {
		if ail.Eq(`host, _, _ = strings.Cut(host, "%")`, hp.Src(st)) {
			if i != 2 {
				return fmt.Errorf("isLocalhost: zone is cut off at statement %d, expected between the name lookup and net.ParseIP", i)
			}
			stripsZone = true
		}
	}
	w.DefBool("localhost_strips_zone", stripsZone)
	if want := 4 + map[bool]int{false: 0, true: 1}[stripsZone]; len(il.Body.List) != want {
		return fmt.Errorf("isLocalhost: %d statements, expected %d", len(il.Body.List), want)
	}
	switch {
	case ail.Eq("ip := net.ParseIP(host); ip != nil && ip.IsLoopback()", ilc[1]):
		w.DefBool("localhost_checks_unspecified", false)
	case ail.Eq("ip := net.ParseIP(host); ip != nil && (ip.IsLoopback() || ip.IsUnspecified())", ilc[1]),
		ail.Eq("ip := net.ParseIP(host); ip != nil && (ip.IsUnspecified() || ip.IsLoopback())", ilc[1]):
		w.DefBool("localhost_checks_unspecified", true)
	default:
		return fmt.Errorf("isLocalhost: IP condition %q is not a shape the model knows", ilc[1])
	}
	if mapsIDNA {
		ah, err := hp.Func("asciiHostname")
		if err != nil {
			return err
		}
		if s := hp.Src(ah.Body); !newAlpha(ah, "host", "i", "a", "err").Eq("{ for i := 0; i < len(host); i++ { if host[i] >= utf8.RuneSelf { if a, err := idna.Lookup.ToASCII(host); err == nil { return a } break } } return host }", s) {
			return fmt.Errorf("asciiHostname: body is not the shape the model knows: %s", s)
		}
	}
	if s := hp.Src(il.Body); !strings.HasSuffix(s, "return false }") {
		return fmt.Errorf("isLocalhost: does not end in return false")
	}

	ms, err := hp.Func("HTTPProxy.middlewareStack")
	if err != nil {
		return err
	}
	adds := g04AddCalls(hp, ms.Body)
	type known struct{ name, guard string }
	topKnown := map[string]known{
		"hp.allowWithinTimeFrame()":            {"timeframe", "len(hp.config.AllowTimeFrame) > 0"},
		"hp.basicAuth(hp.config.BasicAuth)":    {"basicauth", "hp.config.BasicAuth != nil"},
		"hp.denyLocalhost()":                   {"localhost", "hp.config.ProxyLocalhost == DenyProxyLocalhost"},
		"hp.denyDomains(hp.config.DenyDomains)": {"denydomains", "hp.config.DenyDomains != nil"},
		"stack":                                {"stack", ""},
	}
	ams := newAlpha(ms, "hp", "topg", "stack", "fg", "trace", "m", "entry", "currentTime", "lf", "p", "info")
	// bind the group variables first, from their construction
	if s := hp.Src(ms.Body); !ams.Contains(s, "topg := fifo.NewGroup()") || !ams.Contains(s, "stack, fg := httpspec.NewStack(hp.config.Name)") ||
		!ams.Contains(s, "return topg.ToImmutable(), trace") {
		return fmt.Errorf("middlewareStack: group construction not in the known shape")
	}
	w.DefBool("timeframe_list_reassigned", strings.Contains(hp.Src(ms.Body), "hp.config.AllowTimeFrame =") ||
		strings.Contains(hp.Src(ms.Body), "hp.config.AllowTimeFrame :="))
	var order, fgOrder, topRes []string
	for _, a := range adds {
		switch {
		case ams.Eq("topg", a.recv) && a.kind == "AddRequestModifier":
			found := false
			for arg, k := range topKnown {
				if ams.Eq(arg, a.arg) {
					if !ams.Eq(k.guard, a.guard) {
						return fmt.Errorf("middlewareStack: modifier %q is guarded by %q, expected %q", a.arg, a.guard, k.guard)
					}
					order = append(order, k.name)
					found = true
					break
				}
			}
			if !found {
				return fmt.Errorf("middlewareStack: unknown request modifier %q on the top group", a.arg)
			}
		case ams.Eq("topg", a.recv) && a.kind == "AddResponseModifier":
			if ams.Eq("stack", a.arg) {
				topRes = append(topRes, "stack")
			} else {
				topRes = append(topRes, a.arg)
			}
		case ams.Eq("fg", a.recv) && a.kind == "AddRequestModifier":
			switch {
			case ams.Eq("m", a.arg):
				fgOrder = append(fgOrder, "user")
			case ams.Eq("martian.RequestModifierFunc(hp.setBasicAuth)", a.arg):
				fgOrder = append(fgOrder, "setBasicAuth")
			case ams.Eq("martian.RequestModifierFunc(setEmptyUserAgent)", a.arg):
				fgOrder = append(fgOrder, "setEmptyUserAgent")
			default:
				return fmt.Errorf("middlewareStack: unknown inner request modifier %q", a.arg)
			}
		}
	}
	w.DefStrList("middleware_order", order)
	w.DefStrList("top_response_order", topRes)
	w.DefStrList("inner_request_order", fgOrder)
	if strings.Contains(hp.Src(ms.Body), "SetAggregateErrors") {
		return fmt.Errorf("middlewareStack: error aggregation is switched on (the model aborts on the first error)")
	}
	cp, err := hp.Func("HTTPProxy.configureProxy")
	if err != nil {
		return err
	}
	acp := newAlpha(cp, "hp", "mw", "trace")
	if s := hp.Src(cp.Body); !acp.Contains(s, "mw, trace := hp.middlewareStack() hp.proxy.RequestModifier = mw hp.proxy.ResponseModifier = mw") ||
		!acp.Contains(s, "hp.proxy.ErrorResponse = hp.errorResponse") {
		return fmt.Errorf("configureProxy: modifier / error response wiring not in the known shape")
	}

	// which error each security modifier returns, and on which condition
	type modSpec struct{ fn, key, cond string }
	for _, m := range []modSpec{
		{"HTTPProxy.allowWithinTimeFrame", "timeframe", "!middleware.TimeFrameAllows(hp.config.AllowTimeFrame)"},
		{"HTTPProxy.basicAuth", "basicauth", "!ba.AuthenticatedRequest(req, user, pass)"},
		{"HTTPProxy.denyLocalhost", "localhost", "hp.isLocalhost(req.URL.Hostname())"},
		{"HTTPProxy.denyDomains", "denydomains", "r.Match(req.URL.Hostname())@@h := req.URL.Hostname(); r.Match(h) || r.Match(asciiHostname(h))@@matchesAnyForm(r, req.URL.Hostname())"},
	} {
		fd, err := hp.Func(m.fn)
		if err != nil {
			return err
		}
		en, cond, err := g04ReturnedErr(hp, fd)
		if err != nil {
			return err
		}
		am := newAlpha(fd, "hp", "u", "user", "pass", "ba", "req", "r", "h")
		alts := strings.Split(m.cond, "@@")
		switch {
		case am.Eq(alts[0], cond):
			if m.key == "denydomains" {
				w.DefBool("deny_matches_ascii_form", false)
				w.DefBool("deny_matches_undotted_form", false)
			}
		case len(alts) >= 2 && am.Eq(alts[1], cond):
			w.DefBool("deny_matches_ascii_form", true)
			w.DefBool("deny_matches_undotted_form", false)
		case len(alts) >= 3 && am.Eq(alts[2], cond):
			maf, err := hp.Func("matchesAnyForm")
			if err != nil {
				return err
			}
			if s := hp.Src(maf.Body); !newAlpha(maf, "r", "host", "ascii").Eq(`{ ascii := asciiHostname(host) return r.Match(host) || r.Match(ascii) || r.Match(strings.TrimSuffix(host, ".")) || r.Match(strings.TrimSuffix(ascii, ".")) }`, s) {
				return fmt.Errorf("matchesAnyForm: body is not the shape the model knows: %s", s)
			}
			w.DefBool("deny_matches_ascii_form", true)
			w.DefBool("deny_matches_undotted_form", true)
		default:
			return fmt.Errorf("%s: guard is %q, expected %q", m.fn, cond, m.cond)
		}
		w.DefStr("errname_"+m.key, en)
	}
	bafd, _ := hp.Func("HTTPProxy.basicAuth")
	aba := newAlpha(bafd, "hp", "u", "user", "pass", "ba", "req")
	for _, st := range []string{"user := u.Username()", "pass, _ := u.Password()", "ba := middleware.NewProxyBasicAuth()"} {
		if s := hp.Src(bafd.Body); !aba.Contains(s, st) {
			return fmt.Errorf("basicAuth: statement %q not found", st)
		}
	}

	// setBasicAuth (C06): when are site credentials attached?
	sba, err := hp.Func("HTTPProxy.setBasicAuth")
	if err != nil {
		return err
	}
	asb := newAlpha(sba, "hp", "req", "u", "p", "ok")
	sbc := g04IfConds(hp, sba.Body)
	if len(sbc) != 2 || !asb.Eq("u := hp.creds.MatchURL(req.URL); u != nil", sbc[1]) {
		return fmt.Errorf("setBasicAuth: conditions %q", sbc)
	}
	switch {
	case asb.Eq(`req.Header.Get("Authorization") == ""`, sbc[0]):
		w.DefBool("site_auth_checks_all_lines", false)
	case asb.Eq(`len(req.Header.Values("Authorization")) == 0`, sbc[0]), asb.Eq(`len(req.Header["Authorization"]) == 0`, sbc[0]),
		asb.Eq(`_, ok := req.Header["Authorization"]; !ok`, sbc[0]):
		w.DefBool("site_auth_checks_all_lines", true)
	default:
		return fmt.Errorf("setBasicAuth: guard %q is not a shape the model knows", sbc[0])
	}
	if err := asb.Need("setBasicAuth calls", hp.CallsIn(sba.Body), "req.SetBasicAuth(u.Username(), p)"); err != nil {
		return err
	}
	// upstreamProxyURL / pacProxy (C06)
	upu, err := hp.Func("HTTPProxy.upstreamProxyURL")
	if err != nil {
		return err
	}
	if err := newAlpha(upu, "hp", "proxyURL", "u").Need("upstreamProxyURL conditions", g04IfConds(hp, upu.Body),
		"proxyURL.User == nil", "u := hp.creds.MatchURL(proxyURL); u != nil"); err != nil {
		return err
	}
	pp, err := hp.Func("HTTPProxy.pacProxy")
	if err != nil {
		return err
	}
	if err := newAlpha(pp, "hp", "r", "s", "err", "p", "proxyURL", "u").Need("pacProxy conditions", g04IfConds(hp, pp.Body), "u := hp.creds.MatchURL(proxyURL); u != nil"); err != nil {
		return err
	}

	// ------------------------------------------------------------ http_proxy_errors.go
	he, err := Parse(repo, "http_proxy_errors.go")
	if err != nil {
		return err
	}
	errClass := map[string]string{}
	errText := map[string]string{}
	for _, name := range []string{"ErrProxyAuthentication", "ErrProxyLocalhost", "ErrProxyDenied", "ErrProxyOutsideAllowedTimeframe"} {
		v, err := he.ValueSpec(name)
		if err != nil {
			return err
		}
		switch x := v.(type) {
		case *ast.CallExpr: // errors.New("...")
			if he.Src(x.Fun) != "errors.New" {
				return fmt.Errorf("%s: not errors.New(...)", name)
			}
			t, ok := FirstStringArg(x)
			if !ok {
				return fmt.Errorf("%s: message is not a literal", name)
			}
			errClass[name], errText[name] = "error", t
		case *ast.CompositeLit: // denyError{errors.New("...")}
			if len(x.Elts) != 1 {
				return fmt.Errorf("%s: composite literal shape", name)
			}
			t, ok := FirstStringArg(x.Elts[0])
			if !ok {
				return fmt.Errorf("%s: message is not a literal", name)
			}
			errClass[name], errText[name] = he.Src(x.Type), t
		default:
			return fmt.Errorf("%s: value shape not known", name)
		}
	}
	// handler -> (matching rule, status)
	type hspec struct{ fn, class, match string }
	codes := map[string]uint64{}
	for _, h := range []hspec{
		{"handleAuthenticationError", "error", "errors.Is(err, ErrProxyAuthentication)"},
		{"handleDenyError", "denyError", "errors.As(err, &denyErr)"},
		{"handleProhibitedError", "prohibitedError", "errors.As(err, &currentErr)"},
	} {
		fd, err := he.Func(h.fn)
		if err != nil {
			return err
		}
		ah := newAlpha(fd, "req", "err", "code", "msg", "label", "denyErr", "currentErr")
		if c := g04IfConds(he, fd.Body); len(c) != 1 || !ah.Eq(h.match, c[0]) {
			return fmt.Errorf("%s: condition %q, expected %q", h.fn, c, h.match)
		}
		if h.class != "error" {
			if s := he.Src(fd.Body); !strings.Contains(s, " "+h.class+" ") {
				return fmt.Errorf("%s: variable of type %s not declared", h.fn, h.class)
			}
		}
		code := ""
		ast.Inspect(fd.Body, func(x ast.Node) bool {
			if as, ok := x.(*ast.AssignStmt); ok && len(as.Lhs) == 1 && ah.Eq("code", he.Src(as.Lhs[0])) {
				code = he.Src(as.Rhs[0])
			}
			return true
		})
		n, ok := g04StatusCodes[code]
		if !ok {
			return fmt.Errorf("%s: status %q not known to the translator", h.fn, code)
		}
		codes[h.class] = n
	}
	w.DefN("code_auth", codes["error"])
	w.DefN("code_deny", codes["denyError"])
	w.DefN("code_prohibited", codes["prohibitedError"])
	// the handler list and its order
	er, err := he.Func("HTTPProxy.errorResponse")
	if err != nil {
		return err
	}
	var handlers []string
	ast.Inspect(er.Body, func(x ast.Node) bool {
		if cl, ok := x.(*ast.CompositeLit); ok && he.Src(cl.Type) == "[]errorHandler" {
			for _, el := range cl.Elts {
				handlers = append(handlers, he.Src(el))
			}
		}
		return true
	})
	w.DefStrList("error_handlers", handlers)
	if err := g04Need("errorResponse handlers", handlers, "handleAuthenticationError", "handleDenyError", "handleProhibitedError"); err != nil {
		return err
	}
	// handlers that come before ours must be the type-directed ones that cannot match our error values
	early := map[string]bool{"handleWindowsNetError": true, "handleNetError": true, "handleTLSRecordHeader": true,
		"handleTLSCertificateError": true, "handleTLSECHRejectionError": true, "handleTLSAlertError": true,
		"handleMartianErrorStatus": true, "handleAuthenticationError": true, "handleDenyError": true, "handleProhibitedError": true}
	// handlers registered before ours that the translator does not know: recorded (the end-to-end run
	// shows whether one of them captures an access-control error: the status would change)
	early["handleTimeoutError"] = true
	var unknownEarly []string
	for _, h := range handlers {
		if h == "handleProhibitedError" {
			break
		}
		if !early[h] {
			unknownEarly = append(unknownEarly, h)
		}
	}
	w.DefStrList("unknown_early_error_handlers", unknownEarly)
	for _, k := range []struct{ key, en string }{{"timeframe", "ErrProxyOutsideAllowedTimeframe"}, {"basicauth", "ErrProxyAuthentication"},
		{"localhost", "ErrProxyLocalhost"}, {"denydomains", "ErrProxyDenied"}} {
		w.DefStr("errclass_"+k.key, errClass[k.en])
		w.DefStr("errtext_"+k.key, errText[k.en])
	}
	// challenge
	aer := newAlpha(er, "hp", "req", "err", "handlers", "code", "msg", "label", "h", "body", "resp")
	var chCond, chCall string
	ast.Inspect(er.Body, func(x ast.Node) bool {
		if is, ok := x.(*ast.IfStmt); ok && aer.HasPrefix(he.Src(is.Cond), "code == http.") && len(is.Body.List) == 1 {
			chCond, chCall = he.Src(is.Cond), he.Src(is.Body.List[0])
		}
		return true
	})
	if i := strings.Index(chCond, "== "); i >= 0 {
		chCond = chCond[i+3:]
	}
	cc, ok := g04StatusCodes[chCond]
	if !ok {
		return fmt.Errorf("errorResponse: challenge condition %q", chCond)
	}
	w.DefN("code_challenge", cc)
	const chWant = `resp.Header.Set("Proxy-Authenticate", fmt.Sprintf("Basic realm=%q", hp.config.Name))`
	if !aer.Eq(chWant, chCall) {
		return fmt.Errorf("errorResponse: challenge statement %q, expected %q", chCall, chWant)
	}
	w.DefStr("challenge_header", "Proxy-Authenticate")
	w.DefStr("challenge_prefix", "Basic realm=")
	eh, err := he.ValueSpec("ErrorHeader")
	if err != nil {
		return err
	}
	ehs, _ := StringLit(eh)
	w.DefStr("error_header", ehs)
	if err := aer.Need("errorResponse calls", he.CallsIn(er.Body),
		`resp.Header.Set(ErrorHeader, hp.config.Name+" "+err.Error())`,
		`resp.Header.Set("Content-Type", "text/plain; charset=utf-8")`,
		"proxyutil.NewResponse(code, &body, req)"); err != nil {
		return err
	}

	// ------------------------------------------------------------ hop-by-hop
	hb, err := Parse(repo, "internal/martian/header/hopbyhop_modifier.go")
	if err != nil {
		return err
	}
	hbl, err := hb.ValueSpec("hopByHopHeaders")
	if err != nil {
		return err
	}
	hbs, ok := g04StringList(hbl)
	if !ok {
		return fmt.Errorf("hopByHopHeaders: not a list of string literals")
	}
	w.DefStrList("hop_by_hop_headers", hbs)
	rh, err := hb.Func("removeHopByHopHeaders")
	if err != nil {
		return err
	}
	if s := hb.Src(rh.Body); !newAlpha(rh, "header", "vs", "v", "k").Eq(`{ for _, vs := range header["Connection"] { for _, v := range strings.Split(vs, ",") { k := http.CanonicalHeaderKey(strings.TrimSpace(v)) header.Del(k) } } for _, k := range hopByHopHeaders { header.Del(k) } }`, s) {
		return fmt.Errorf("removeHopByHopHeaders: body is not the shape the model transcribes: %s", s)
	}
	for _, fn := range []string{"hopByHopModifier.ModifyRequest", "hopByHopModifier.ModifyResponse"} {
		fd, err := hb.Func(fn)
		if err != nil {
			return err
		}
		if s := hb.Src(fd.Body); !strings.HasPrefix(s, "{ removeHopByHopHeaders(") || !strings.Contains(s, ".Header) return nil }") {
			return fmt.Errorf("%s: body %q", fn, s)
		}
	}

	// ------------------------------------------------------------ httpspec.NewStack
	hs, err := Parse(repo, "internal/martian/httpspec/httpspec.go")
	if err != nil {
		return err
	}
	ns, err := hs.Func("NewStack")
	if err != nil {
		return err
	}
	stackNames := map[string]string{"hbhm": "hbhm", "header.NewForwardedModifier()": "forwarded",
		"header.NewBadFramingModifier()": "badframing", "vm": "via", "inner": "inner"}
	ans := newAlpha(ns, "via", "outer", "inner", "hbhm", "vm")
	if s := hs.Src(ns.Body); !ans.Contains(s, "outer = fifo.NewGroup()") || !ans.Contains(s, "hbhm := header.NewHopByHopModifier()") ||
		!ans.Contains(s, "vm := header.NewViaModifier(via)") || !ans.Contains(s, "inner = fifo.NewGroup()") {
		return fmt.Errorf("httpspec.NewStack: construction not in the known shape")
	}
	var sreq, sres []string
	for _, a := range g04AddCalls(hs, ns.Body) {
		if !ans.Eq("outer", a.recv) {
			continue
		}
		n, ok := "", false
		for arg, nm := range stackNames {
			if ans.Eq(arg, a.arg) {
				n, ok = nm, true
			}
		}
		if !ok {
			return fmt.Errorf("httpspec.NewStack: unknown modifier %q", a.arg)
		}
		if a.kind == "AddRequestModifier" {
			sreq = append(sreq, n)
		} else {
			sres = append(sres, n)
		}
	}
	w.DefStrList("stack_request_order", sreq)
	w.DefStrList("stack_response_order", sres)

	// ------------------------------------------------------------ fifo group: first error aborts
	fg, err := Parse(repo, "internal/martian/fifo/fifo_group.go")
	if err != nil {
		return err
	}
	gm, err := fg.Func("group.ModifyRequest")
	if err != nil {
		return err
	}
	if s := fg.Src(gm.Body); !newAlpha(gm, "g", "req", "merr", "reqmod", "err").Eq("{ var merr error for _, reqmod := range g.reqmods { if err := reqmod.ModifyRequest(req); err != nil { if g.aggregateErrors { merr = multierr.Append(merr, err) continue } return err } } return merr }", s) {
		return fmt.Errorf("fifo group.ModifyRequest: body is not the shape the model transcribes: %s", s)
	}

	// ------------------------------------------------------------ proxy_conn.go / proxy_handler.go path shapes
	keep := map[string]bool{"modifyRequest": true, "shouldMITM": true, "Connect": true, "roundTrip": true,
		"modifyResponse": true, "writeResponse": true}
	pc, err := Parse(repo, "internal/martian/proxy_conn.go")
	if err != nil {
		return err
	}
	for _, x := range []struct{ fn, def string }{{"proxyConn.handle", "handle_steps"}, {"proxyConn.handleConnectRequest", "connect_steps"}} {
		fd, err := pc.Func(x.fn)
		if err != nil {
			return err
		}
		w.DefStrList(x.def, g04CallOrder(pc, fd, keep))
		if !g04ModifyRequestAborts(pc, fd) {
			return fmt.Errorf("%s: `if err := p.modifyRequest(req); err != nil { ...; return p.writeErrorResponse(req, err) }` not found", x.fn)
		}
	}
	wer, err := pc.Func("proxyConn.writeErrorResponse")
	if err != nil {
		return err
	}
	keepsConn, err := g04WriteErrorShape(pc, wer)
	if err != nil {
		return err
	}
	ph, err := Parse(repo, "internal/martian/proxy_handler.go")
	if err != nil {
		return err
	}
	for _, x := range []struct{ fn, def string }{{"proxyHandler.handleRequest", "handler_handle_steps"}, {"proxyHandler.handleConnectRequest", "handler_connect_steps"}} {
		fd, err := ph.Func(x.fn)
		if err != nil {
			return err
		}
		w.DefStrList(x.def, g04CallOrder(ph, fd, keep))
		if !g04ModifyRequestAborts(ph, fd) {
			return fmt.Errorf("%s: `if err := p.modifyRequest(req); err != nil { ...; p.writeErrorResponse(rw, req, err); return }` not found", x.fn)
		}
	}
	wer2, err := ph.Func("proxyHandler.writeErrorResponse")
	if err != nil {
		return err
	}
	keepsHandler, err := g04WriteErrorShape(ph, wer2)
	if err != nil {
		return err
	}
	if keepsConn || keepsHandler {
		px, err := Parse(repo, "internal/martian/proxy.go")
		if err != nil {
			return err
		}
		mer, err := px.Func("Proxy.modifyErrorResponse")
		if err != nil {
			return err
		}
		if s := px.Src(mer.Body); !newAlpha(mer, "p", "res", "challenge", "err").Eq(`{ challenge := res.Header.Values("Proxy-Authenticate") err := p.modifyResponse(res) if len(challenge) > 0 { res.Header["Proxy-Authenticate"] = challenge } return err }`, s) {
			return fmt.Errorf("Proxy.modifyErrorResponse: body is not the shape the model transcribes: %s", s)
		}
	}
	// ---- a MITM'd tunnel: after handleMITM switched the connection to the TLS session, the SAME loop keeps calling
	//      handle(), i.e. every request read from the session goes through modifyRequest like any other
	reenters := true
	if px, err := Parse(repo, "internal/martian/proxy.go"); err != nil {
		return err
	} else if hl, err := px.Func("Proxy.handleLoop"); err != nil {
		return err
	} else {
		ahl := newAlpha(hl, "p", "conn", "pc", "err", "errorsN", "start")
		if s := px.Src(hl.Body); !ahl.Contains(s, "pc := newProxyConn(p, conn)") || !ahl.Contains(s, "for { if err := pc.handle(); err != nil {") {
			reenters = false
		}
	}
	if hm, err := pc.Func("proxyConn.handleMITM"); err != nil {
		return err
	} else {
		ahm := newAlpha(hm, "p", "req", "tlsconn", "cs", "buf", "b", "err", "ctx", "res")
		if s := pc.Src(hm.Body); !ahm.Contains(s, "p.conn = tlsconn") || !ahm.Contains(s, "p.secure = true") ||
			!ahm.Contains(s, "p.brw.Writer.Reset(tlsconn)") {
			reenters = false
		}
	}
	if hc, err := pc.Func("proxyConn.handleConnectRequest"); err != nil {
		return err
	} else if s := pc.Src(hc.Body); !newAlpha(hc, "p", "req").Contains(s, "if p.shouldMITM(req) { return p.handleMITM(req) }") {
		reenters = false
	}
	if hh, err := pc.Func("proxyConn.handle"); err != nil {
		return err
	} else if s := pc.Src(hh.Body); !newAlpha(hh, "p", "req").Contains(s, "if req.Method == http.MethodConnect { return p.handleConnectRequest(req) }") {
		reenters = false
	}
	w.DefBool("mitm_session_reenters_handle", reenters)

	// ---- http.Handler variant: where (if at all) is an empty req.URL.Host completed from the Host field,
	//      relative to modifyRequest?  (the connection handler does it in readRequest, see below)
	fixBefore, fixAfter := false, false
	{
		sh, err := ph.Func("proxyHandler.ServeHTTP")
		if err != nil {
			return err
		}
		ash := newAlpha(sh, "p", "rw", "req", "outreq")
		callIdx, fixIdx := -1, -1
		for i, st := range sh.Body.List {
			src := ph.Src(st)
			if ash.Eq("p.handleRequest(rw, outreq)", src) {
				callIdx = i
			}
			if ash.Eq(`if outreq.URL.Host == "" { outreq.URL.Host = outreq.Host }`, src) {
				fixIdx = i
			}
		}
		if callIdx < 0 {
			return fmt.Errorf("proxyHandler.ServeHTTP: call of handleRequest not found")
		}
		if fixIdx >= 0 && fixIdx < callIdx {
			fixBefore = true
		} else if fixIdx >= 0 {
			return fmt.Errorf("proxyHandler.ServeHTTP: URL.Host is completed after the request was handled")
		}
		hr, err := ph.Func("proxyHandler.handleRequest")
		if err != nil {
			return err
		}
		ahr := newAlpha(hr, "p", "rw", "req", "err", "ctx")
		modIdx := -1
		for i, st := range hr.Body.List {
			src := ph.Src(st)
			if ahr.HasPrefix(src, "if err := p.modifyRequest(req); err != nil {") {
				modIdx = i
			}
			if ahr.Eq(`if req.URL.Host == "" { req.URL.Host = req.Host }`, src) {
				if modIdx < 0 {
					fixBefore = true
				} else {
					fixAfter = true
				}
			}
		}
		if modIdx < 0 {
			return fmt.Errorf("proxyHandler.handleRequest: modifyRequest statement not found")
		}
		// any other assignment to URL.Host in the two functions is a shape the model does not know
		for _, fd := range []*ast.FuncDecl{sh, hr} {
			n := strings.Count(ph.Src(fd.Body), ".URL.Host = ")
			want := 0
			if fd == sh && fixIdx >= 0 {
				want = 1
			}
			if fd == hr && (fixBefore && fixIdx < 0 || fixAfter) {
				want = 1
			}
			if n != want {
				return fmt.Errorf("%s: %d assignments to URL.Host, the model knows %d", fd.Name.Name, n, want)
			}
		}
	}
	w.DefBool("handler_host_fixup_before", fixBefore)
	w.DefBool("handler_host_fixup_after", fixAfter)
	// connection handler: readRequest completes URL.Host right after parsing
	if rr, err := pc.Func("proxyConn.readRequest"); err != nil {
		return err
	} else if s := pc.Src(rr.Body); !newAlpha(rr, "p", "req", "err").Contains(s, `if req.URL.Host == "" { req.URL.Host = req.Host }`) {
		return fmt.Errorf("proxyConn.readRequest: completion of URL.Host from the Host field not found")
	}
	w.DefBool("error_response_keeps_challenge", keepsConn)
	w.DefBool("handler_error_response_keeps_challenge", keepsHandler)

	return genG04Creds(repo, w)
}
