package main

import (
	"fmt"
	"go/ast"
	"os"
	"path/filepath"
	"regexp"
	"sort"
	"strconv"
	"strings"
)

func init() { register("g14", genG14) }

// ---------------------------------------------------------------- JavaScript source (text level)

// g14JSFunc returns the parameter list and the white-space-normalised body of
// `function name(params) { body }` in src.
func g14JSFunc(src, name string) (params, body string, err error) {
	re := regexp.MustCompile(`(?m)^function ` + regexp.QuoteMeta(name) + `\(([^)]*)\)\s*\{`)
	loc := re.FindStringSubmatchIndex(src)
	if loc == nil {
		return "", "", fmt.Errorf("ascii_pac_utils.js: function %s not found", name)
	}
	params = strings.Join(strings.Fields(src[loc[2]:loc[3]]), " ")
	depth, i := 1, loc[1]
	for ; i < len(src) && depth > 0; i++ {
		switch src[i] {
		case '{':
			depth++
		case '}':
			depth--
		}
	}
	if depth != 0 {
		return "", "", fmt.Errorf("ascii_pac_utils.js: function %s: unbalanced braces", name)
	}
	body = strings.Join(strings.Fields(src[loc[1]:i-1]), " ")
	return params, body, nil
}

// ---------------------------------------------------------------- Go source helpers (group-local)

// g14Alpha renames, in place, every variable declared inside fd to v1, v2, ...
func g14Alpha(fd *ast.FuncDecl) {
	names := map[*ast.Object]string{}
	keys := map[*ast.Ident]bool{}
	ast.Inspect(fd, func(x ast.Node) bool {
		if cl, ok := x.(*ast.CompositeLit); ok {
			keyed := len(cl.Elts) > 0
			for _, el := range cl.Elts {
				if kv, ok := el.(*ast.KeyValueExpr); ok {
					if id, ok := kv.Key.(*ast.Ident); ok {
						keys[id] = true
						continue
					}
				}
				keyed = false
			}
			if keyed { // the order of keyed fields is irrelevant
				sort.SliceStable(cl.Elts, func(i, j int) bool {
					return cl.Elts[i].(*ast.KeyValueExpr).Key.(*ast.Ident).Name < cl.Elts[j].(*ast.KeyValueExpr).Key.(*ast.Ident).Name
				})
			}
		}
		return true
	})
	ast.Inspect(fd, func(x ast.Node) bool {
		id, ok := x.(*ast.Ident)
		if !ok || keys[id] || id.Obj == nil || id.Obj.Kind != ast.Var || id.Name == "_" {
			return true
		}
		if id.Obj.Pos() < fd.Pos() || id.Obj.Pos() > fd.End() {
			return true
		}
		if _, seen := names[id.Obj]; !seen {
			names[id.Obj] = fmt.Sprintf("v%d", len(names)+1)
		}
		return true
	})
	ast.Inspect(fd, func(x ast.Node) bool {
		if id, ok := x.(*ast.Ident); ok && id.Obj != nil && !keys[id] {
			if n, ok := names[id.Obj]; ok {
				id.Name = n
			}
		}
		return true
	})
}

// g14Body: the statements of a function after alpha-renaming, joined with " ; ".
func g14Body(f *File, name string) (string, *ast.FuncDecl, error) {
	fd, err := f.Func(name)
	if err != nil {
		return "", nil, err
	}
	g14Alpha(fd)
	var parts []string
	for _, s := range fd.Body.List {
		parts = append(parts, f.Src(s))
	}
	b := strings.Join(parts, " ; ")
	// keyed composite literals print the same whether written on one line or several
	b = regexp.MustCompile(`(\w)\{ (\w+:)`).ReplaceAllString(b, "$1{$2")
	b = strings.ReplaceAll(b, ", }", "}")
	return b, fd, nil
}

func g14PairList(ps [][2]string) string {
	if len(ps) == 0 {
		return "(@nil (str * str))"
	}
	parts := make([]string, len(ps))
	for i, p := range ps {
		parts[i] = "(" + CoqStr(p[0]) + ", " + CoqStr(p[1]) + ")"
	}
	return "[" + strings.Join(parts, "; ") + "]"
}

// genG14 reads pac/ascii_pac_utils.js (text) and pac/*.go (AST).
func genG14(repo string, w *Out) error {
	raw, err := os.ReadFile(filepath.Join(repo, "pac/ascii_pac_utils.js"))
	if err != nil {
		return err
	}
	js := string(raw)

	// ---- shExpMatch: the ordered textual rewrites and the anchoring
	params, body, err := g14JSFunc(js, "shExpMatch")
	if err != nil {
		return err
	}
	if params != "url, pattern" {
		return fmt.Errorf("shExpMatch: parameters %q", params)
	}
	stmts := strings.Split(strings.TrimSuffix(body, ";"), ";")
	reRepl := regexp.MustCompile(`^pattern = pattern\.replace\(/\\(.)/g, ("(?:[^"\\]|\\.)*")\)$`)
	var rewrites []string
	anchoredKnown, anchored, tested := false, false, false
	for _, st := range stmts {
		st = strings.TrimSpace(st)
		if m := reRepl.FindStringSubmatch(st); m != nil {
			if anchoredKnown {
				return fmt.Errorf("shExpMatch: a replace follows the RegExp construction")
			}
			rep, err := strconv.Unquote(m[2])
			if err != nil {
				return fmt.Errorf("shExpMatch: replacement %s: %v", m[2], err)
			}
			rewrites = append(rewrites, fmt.Sprintf("(%d, %s)", m[1][0], CoqStr(rep)))
			continue
		}
		switch st {
		case `var newRe = new RegExp("^" + pattern + "$")`:
			anchoredKnown, anchored = true, true
		case `var newRe = new RegExp(pattern)`:
			anchoredKnown, anchored = true, false
		case `return newRe.test(url)`:
			tested = true
		default:
			return fmt.Errorf("shExpMatch: statement %q is not a shape the model knows", st)
		}
	}
	if !anchoredKnown || !tested {
		return fmt.Errorf("shExpMatch: RegExp construction / test not found in %q", body)
	}
	rw := "(@nil (N * str))"
	if len(rewrites) > 0 {
		rw = "[" + strings.Join(rewrites, "; ") + "]"
	}
	w.Linef("Definition shexp_rewrites : list (N * str) := %s. (* %s *)", rw, comment(body))
	w.DefBool("shexp_anchored", anchored)

	// ---- isValidIpAddress: the regular expression and the octet bound
	_, body, err = g14JSFunc(js, "isValidIpAddress")
	if err != nil {
		return err
	}
	if !strings.HasPrefix(body, `var matches = /^(\d{1,3})\.(\d{1,3})\.(\d{1,3})\.(\d{1,3})$/.exec(ipchars);`) {
		return fmt.Errorf("isValidIpAddress: the regular expression is not the one the model resolves by hand: %q", body)
	}
	bounds := regexp.MustCompile(`matches\[(\d)\] > (\d+)`).FindAllStringSubmatch(body, -1)
	if len(bounds) != 4 {
		return fmt.Errorf("isValidIpAddress: expected four `matches[i] > N` tests, found %d", len(bounds))
	}
	for i, bnd := range bounds {
		if bnd[1] != strconv.Itoa(i+1) || bnd[2] != bounds[0][2] {
			return fmt.Errorf("isValidIpAddress: octet tests %v are not uniform over groups 1..4", bounds)
		}
	}
	wantValid := `var matches = /^(\d{1,3})\.(\d{1,3})\.(\d{1,3})\.(\d{1,3})$/.exec(ipchars); if (matches == null) { return false; } else if ( matches[1] > N || matches[2] > N || matches[3] > N || matches[4] > N ) { return false; } return true;`
	if strings.ReplaceAll(body, bounds[0][2], "N") != strings.ReplaceAll(wantValid, "N", "N") {
		return fmt.Errorf("isValidIpAddress: body %q is not the shape the model knows", body)
	}
	mx, _ := strconv.ParseUint(bounds[0][2], 10, 32)
	w.DefN("ip_octet_max", mx)

	// ---- convert_addr: shifts and byte mask
	_, body, err = g14JSFunc(js, "convert_addr")
	if err != nil {
		return err
	}
	terms := regexp.MustCompile(`\(bytes\[(\d)\] & 0x([0-9a-fA-F]+)\)(?: << (\d+))?`).FindAllStringSubmatch(body, -1)
	if len(terms) != 4 {
		return fmt.Errorf("convert_addr: expected four (bytes[i] & 0x..) terms, found %d in %q", len(terms), body)
	}
	var shifts []string
	for i, t := range terms {
		if t[1] != strconv.Itoa(i) || t[2] != terms[0][2] {
			return fmt.Errorf("convert_addr: terms %v are not bytes[0..3] with one mask", terms)
		}
		sh := t[3]
		if sh == "" {
			sh = "0"
		}
		shifts = append(shifts, sh)
	}
	skeleton := regexp.MustCompile(`\(bytes\[\d\] & 0x[0-9a-fA-F]+\)(?: << \d+)?`).ReplaceAllString(body, "T")
	if skeleton != `var bytes = ipchars.split("."); var result = (T) | (T) | (T) | T; return result;` {
		return fmt.Errorf("convert_addr: body %q is not the shape the model knows", body)
	}
	mask, _ := strconv.ParseUint(terms[0][2], 16, 32)
	w.DefN("convert_byte_mask", mask)
	w.Linef("Definition convert_shifts : list N := [%s].", strings.Join(shifts, "; "))

	var pinned []string
	// ---- the other JavaScript bodies, pinned as text
	for _, name := range []string{"dnsDomainIs", "dnsDomainLevels", "isInNet", "isPlainHostName", "isResolvable", "localHostOrDomainIs"} {
		params, body, err := g14JSFunc(js, name)
		if err != nil {
			return err
		}
		w.DefStr("js_"+name, "("+params+") "+body)
		pinned = append(pinned, "js "+name+": ("+params+") "+body)
	}

	// ---- Go helpers
	f4, err := Parse(repo, "pac/pac_ipv4.go")
	if err != nil {
		return err
	}
	f6, err := Parse(repo, "pac/pac_ipv6.go")
	if err != nil {
		return err
	}
	fu, err := Parse(repo, "pac/utils.go")
	if err != nil {
		return err
	}
	fp, err := Parse(repo, "pac/pac.go")
	if err != nil {
		return err
	}
	fx, err := Parse(repo, "pac/proxy.go")
	if err != nil {
		return err
	}
	fl, err := Parse(repo, "pac/pool.go")
	if err != nil {
		return err
	}
	for _, it := range []struct {
		f    *File
		name string
		def  string
	}{
		{f4, "ProxyResolver.dnsResolve", "go_dnsResolve"}, {f4, "ProxyResolver.myIPAddress", "go_myIPAddress"},
		{f6, "ProxyResolver.isResolvableEx", "go_isResolvableEx"}, {f6, "ProxyResolver.isInNetEx", "go_isInNetEx"},
		{f6, "ProxyResolver.dnsResolveEx", "go_dnsResolveEx"}, {f6, "ProxyResolver.myIPAddressEx", "go_myIPAddressEx"},
		{f6, "ProxyResolver.sortIPAddressList", "go_sortIPAddressList"}, {f6, "ProxyResolver.getClientVersion", "go_getClientVersion"},
		{fu, "asSlice", "go_asSlice"}, {fu, "asString", "go_asString"}, {fu, "isNullOrUndefined", "go_isNullOrUndefined"},
		{fu, "semicolonDelimitedString", "go_semicolonDelimitedString"},
		{fp, "ProxyResolver.FindProxyForURL", "go_FindProxyForURL"}, {fp, "ProxyResolver.entryPoint", "go_entryPoint"},
		{fl, "ProxyResolverPool.FindProxyForURL", "go_pool_FindProxyForURL"}, {fl, "ProxyResolverPool.get", "go_pool_get"},
		{fx, "Proxies.First", "go_First"}, {fx, "Proxies.All", "go_All"}, {fx, "parseProxy", "go_parseProxy"}, {fx, "Proxy.URL", "go_URL"},
	} {
		b, _, err := g14Body(it.f, it.name)
		if err != nil {
			return err
		}
		w.DefStr(it.def, b)
		pinned = append(pinned, it.def+": "+b)
	}


	// the pool: the resolver is put back after the evaluation (or before it)
	bpool, _, _ := g14Body(fl, "ProxyResolverPool.FindProxyForURL")
	iEval, iPut := strings.Index(bpool, ".FindProxyForURL("), strings.Index(bpool, ".pool.Put(")
	if iEval < 0 || iPut < 0 || !strings.Contains(bpool, ":= v1.get()") {
		return fmt.Errorf("ProxyResolverPool.FindProxyForURL: get / evaluate / Put not found in %q", bpool)
	}
	w.DefBool("pool_put_after_eval", iEval < iPut && !strings.Contains(bpool, "defer"))
	// values the model reads out of those bodies
	b4, _, _ := g14Body(f4, "ProxyResolver.myIPAddress")
	m := regexp.MustCompile(`if len\(v\d+\) == 0 \{ return v1\.vm\.ToValue\(("(?:[^"\\]|\\.)*")\) \}`).FindStringSubmatch(b4)
	if m == nil {
		return fmt.Errorf("myIPAddress: default address for an empty list not found in %q", b4)
	}
	def, _ := strconv.Unquote(m[1])
	w.DefStr("my_ip_default", def)
	bv, _, _ := g14Body(f6, "ProxyResolver.getClientVersion")
	m = regexp.MustCompile(`^return v1\.vm\.ToValue\(("(?:[^"\\]|\\.)*")\)$`).FindStringSubmatch(bv)
	if m == nil {
		return fmt.Errorf("getClientVersion: body %q", bv)
	}
	ver, _ := strconv.Unquote(m[1])
	w.DefStr("client_version", ver)
	bs, _, _ := g14Body(f6, "ProxyResolver.sortIPAddressList")
	cm := regexp.MustCompile(`sort\.Slice\((v\d+), func\((v\d+), (v\d+) int\) bool \{ if \((v\d+)\[(v\d+)\]\.To4\(\) != nil\) == \((v\d+)\[(v\d+)\]\.To4\(\) != nil\) \{ return bytes\.Compare\((v\d+)\[(v\d+)\]\.IP, (v\d+)\[(v\d+)\]\.IP\) < 0 \} return (v\d+)\[(v\d+)\]\.To4\(\) (==|!=) nil \}\)`).FindStringSubmatch(bs)
	if cm == nil || cm[4] != cm[1] || cm[6] != cm[1] || cm[8] != cm[1] || cm[10] != cm[1] || cm[12] != cm[1] ||
		cm[5] != cm[2] || cm[7] != cm[3] || cm[9] != cm[2] || cm[11] != cm[3] || cm[13] != cm[2] {
		return fmt.Errorf("sortIPAddressList: the comparator is not a shape the model knows: %q", bs)
	}
	w.DefBool("sort_ipv6_first", cm[14] == "==")

	// ---- pac.go: result checks and the entry-point rule
	bf, _, _ := g14Body(fp, "ProxyResolver.FindProxyForURL")
	w.DefBool("result_string_checked", regexp.MustCompile(`(v\d+), (v\d+) := asString\(v\d+\) ; if !(v\d+) \{ return "", fmt\.Errorf\(`).MatchString(bf))
	w.DefBool("result_ascii_checked", regexp.MustCompile(`if !utf8string\.NewString\(v\d+\)\.IsASCII\(\) \{ return "", fmt\.Errorf\(`).MatchString(bf))
	bn, _, err := g14Body(fp, "NewProxyResolver")
	if err != nil {
		return err
	}
	// the helper library is evaluated before the script (standard: the script is loaded INTO the helper environment)
	iLib, iScript := strings.Index(bn, ".vm.RunString(asciiPacUtilsScript)"), strings.Index(bn, ".config.Script)")
	if iLib < 0 || iScript < 0 {
		return fmt.Errorf("NewProxyResolver: evaluation of the helper library / of the script not found in %q", bn)
	}
	w.DefBool("library_before_script", iLib < iScript)
	pinned = append(pinned, "go_NewProxyResolver: "+bn)
	em := regexp.MustCompile(`(v\d+), (v\d+) := (v\d+)\.entryPoint\(\)`).FindStringSubmatch(bn)
	if em == nil {
		return fmt.Errorf("NewProxyResolver: the call of entryPoint was not found in %q", bn)
	}
	fnx, fn, prv := em[1], em[2], em[3]
	if !strings.Contains(bn, fmt.Sprintf("if %s == nil && %s == nil { return nil, errors.New(", fnx, fn)) {
		return fmt.Errorf("NewProxyResolver: the missing-entry-point check was not found in %q", bn)
	}
	w.DefBool("entry_both_is_error", strings.Contains(bn, fmt.Sprintf("if %s != nil && %s != nil { return nil, errors.New(", fnx, fn)))
	if !strings.HasSuffix(bn, fmt.Sprintf("if %s != nil { %s.fn = %s } else { %s.fn = %s } ; return %s, nil", fnx, prv, fnx, prv, fn, prv)) {
		return fmt.Errorf("NewProxyResolver: the choice of the entry point is not the shape the model knows: %q", bn)
	}
	be, _, _ := g14Body(fp, "ProxyResolver.entryPoint")
	if be != `v2, _ = goja.AssertFunction(v1.vm.Get("FindProxyForURLEx")) ; v3, _ = goja.AssertFunction(v1.vm.Get("FindProxyForURL")) ; return` {
		return fmt.Errorf("entryPoint: body %q is not the shape the model knows", be)
	}
	// registered helper names, in order
	rf, err := fp.Func("ProxyResolver.registerFunctions")
	if err != nil {
		return err
	}
	var helpers []string
	ast.Inspect(rf.Body, func(x ast.Node) bool {
		cl, ok := x.(*ast.CompositeLit)
		if !ok || len(cl.Elts) != 2 || cl.Type != nil {
			return true
		}
		if name, ok := StringLit(cl.Elts[0]); ok {
			helpers = append(helpers, name+"="+fp.Src(cl.Elts[1]))
		}
		return true
	})
	w.DefStrList("registered_helpers", helpers)

	// ---- proxy.go: Mode constants, parseMode arms, parseProxy shape, URL scheme mapping
	consts, err := fx.ConstBlockNames("DIRECT")
	if err != nil {
		return err
	}
	w.DefStrList("mode_consts", consts)
	if len(consts) == 0 {
		return fmt.Errorf("proxy.go: empty Mode const block")
	}
	w.DefStr("mode_direct", "DIRECT")
	pm, err := fx.Func("parseMode")
	if err != nil {
		return err
	}
	var sw *ast.SwitchStmt
	for _, s := range pm.Body.List {
		if x, ok := s.(*ast.SwitchStmt); ok {
			sw = x
		}
	}
	if sw == nil || sw.Tag == nil {
		return fmt.Errorf("parseMode: expected a switch on the parameter")
	}
	var arms [][2]string
	defArm := ""
	for _, c := range sw.Body.List {
		cc := c.(*ast.CaseClause)
		if len(cc.Body) != 1 {
			return fmt.Errorf("parseMode: arm body is not a single return")
		}
		r, ok := cc.Body[0].(*ast.ReturnStmt)
		if !ok || len(r.Results) < 1 {
			return fmt.Errorf("parseMode: arm body is not a single return")
		}
		id, ok := r.Results[0].(*ast.Ident)
		if !ok {
			return fmt.Errorf("parseMode: arm returns %s, not a Mode constant", fx.Src(r.Results[0]))
		}
		if cc.List == nil {
			if len(r.Results) == 1 {
				defArm = id.Name
			}
			continue
		}
		for _, e := range cc.List {
			s, ok := StringLit(e)
			if !ok {
				return fmt.Errorf("parseMode: case label %s is not a string literal", fx.Src(e))
			}
			arms = append(arms, [2]string{s, id.Name})
		}
	}
	w.Linef("Definition parse_mode_arms : list (str * str) := %s. (* %s *)", g14PairList(arms), comment(fmt.Sprint(arms)))
	w.DefBool("parse_mode_has_default", defArm != "")
	w.DefStr("parse_mode_default", defArm)
	bp, _, _ := g14Body(fx, "parseProxy")
	w.DefBool("parse_proxy_trims", strings.HasPrefix(bp, "v1 = strings.TrimSpace(v1) ; "))
	w.DefBool("parse_proxy_has_direct_literal", strings.Contains(bp, `if v1 == "DIRECT" { return Proxy{Mode: DIRECT}, nil }`))
	w.DefBool("parse_proxy_validates_port", strings.Contains(bp, `strconv.ParseUint(v6, 10, 16); v8 != nil { return noProxy,`))
	validatesHost := strings.Contains(bp, `if v5 == "" || strings.ContainsFunc(v5, isBlankOrControl) { return noProxy,`)
	if validatesHost {
		bb, _, err := g14Body(fx, "isBlankOrControl")
		if err != nil {
			return err
		}
		if bb != "return v1 <= ' ' || v1 == 0x7f" {
			return fmt.Errorf("isBlankOrControl: body %q is not the shape the model knows", bb)
		}
	} else if strings.Contains(bp, "isBlankOrControl") || strings.Contains(bp, `v5 == ""`) {
		return fmt.Errorf("parseProxy: a host check that is not the shape the model knows: %q", bp)
	}
	w.DefBool("parse_proxy_validates_host", validatesHost)
	if !strings.Contains(bp, `v2, v3, v4 := strings.Cut(v1, " ") ; if !v4 { return noProxy, errors.New(`) ||
		!strings.Contains(bp, `v5, v6, v7 := net.SplitHostPort(v3) ; if v7 != nil { return noProxy, fmt.Errorf(`) ||
		!strings.Contains(bp, `if v1 == "" { return noProxy, nil }`) {
		return fmt.Errorf("parseProxy: body %q is not the shape the model knows", bp)
	}
	// URL: which modes read as another mode's scheme
	burl, _, _ := g14Body(fx, "Proxy.URL")
	var alias [][2]string
	for _, mm := range regexp.MustCompile(`if v2 == (\w+) \{ v2 = (\w+) \}`).FindAllStringSubmatch(burl, -1) {
		alias = append(alias, [2]string{mm[1], mm[2]})
	}
	sort.Slice(alias, func(i, j int) bool { return alias[i][0] < alias[j][0] })
	w.Linef("Definition url_mode_alias : list (str * str) := %s.", g14PairList(alias))
	if !strings.HasPrefix(burl, "if v1.Mode == DIRECT { return nil } ; v2 := v1.Mode ; ") ||
		!strings.HasSuffix(burl, "return &url.URL{Host: net.JoinHostPort(v1.Host, v1.Port), Scheme: strings.ToLower(v2.String())}") {
		return fmt.Errorf("Proxy.URL: body %q is not the shape the model knows", burl)
	}
	// Mode.String(): names by constant order
	fm, err := Parse(repo, "pac/mode_string.go")
	if err != nil {
		return err
	}
	nameE, err := fm.ValueSpec("_Mode_name")
	if err != nil {
		return err
	}
	names, _ := StringLit(nameE)
	idxE, err := fm.ValueSpec("_Mode_index")
	if err != nil {
		return err
	}
	var mstr []string
	if cl, ok := idxE.(*ast.CompositeLit); ok {
		var idx []int64
		for _, e := range cl.Elts {
			v, ok := IntLit(e)
			if !ok {
				return fmt.Errorf("mode_string.go: _Mode_index element %s", fm.Src(e))
			}
			idx = append(idx, v)
		}
		for i := 0; i+1 < len(idx); i++ {
			if idx[i] > idx[i+1] || idx[i+1] > int64(len(names)) {
				return fmt.Errorf("mode_string.go: _Mode_index not monotone within _Mode_name")
			}
			mstr = append(mstr, names[idx[i]:idx[i+1]])
		}
	}
	w.DefStrList("mode_strings", mstr)
	w.DefStrList("pinned", pinned)
	return nil
}
