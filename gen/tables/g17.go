package main

import (
	"fmt"
	"go/ast"
	"strings"
)

func init() { register("g17", genG17) }

// stmtsOf renders the statements of a block, one string per statement.
func stmtsOf(f *File, b *ast.BlockStmt) []string {
	var out []string
	for _, s := range b.List {
		out = append(out, f.Src(s))
	}
	return out
}

// structFieldTypes returns field name -> rendered type of a struct type declaration.
func structFieldTypes(f *File, name string) (map[string]string, error) {
	for _, d := range f.AST.Decls {
		gd, ok := d.(*ast.GenDecl)
		if !ok {
			continue
		}
		for _, s := range gd.Specs {
			ts, ok := s.(*ast.TypeSpec)
			if !ok || ts.Name.Name != name {
				continue
			}
			st, ok := ts.Type.(*ast.StructType)
			if !ok {
				return nil, fmt.Errorf("%s: type %s is not a struct", f.Path, name)
			}
			m := map[string]string{}
			for _, fl := range st.Fields.List {
				for _, n := range fl.Names {
					m[n.Name] = f.Src(fl.Type)
				}
			}
			return m, nil
		}
	}
	return nil, fmt.Errorf("%s: type %s not found", f.Path, name)
}

// litKV renders a (possibly &-prefixed) keyed composite literal as "T{k: v, k: v}"
// independent of line breaks and trailing commas.
func litKV(f *File, e ast.Expr) string {
	amp := ""
	if u, ok := e.(*ast.UnaryExpr); ok {
		amp = u.Op.String()
		e = u.X
	}
	cl, ok := e.(*ast.CompositeLit)
	if !ok {
		return f.Src(e)
	}
	var parts []string
	for _, el := range cl.Elts {
		parts = append(parts, f.Src(el))
	}
	return amp + f.Src(cl.Type) + "{" + strings.Join(parts, ", ") + "}"
}

// lastReturn renders the results of the last statement of a block if it is a return.
func lastReturn(f *File, b *ast.BlockStmt) string {
	if len(b.List) == 0 {
		return ""
	}
	rs, ok := b.List[len(b.List)-1].(*ast.ReturnStmt)
	if !ok {
		return ""
	}
	var parts []string
	for _, r := range rs.Results {
		parts = append(parts, litKV(f, r))
	}
	return "return " + strings.Join(parts, ", ")
}

// genG17 reads ruleset/regexp.go: how the rules of one side are combined
// (joined bare / joined with each rule in a non-capturing group / evaluated one
// by one), the guard for an empty joined text, the evaluation order of
// exclude and include, inversion, the '-' prefix and the list partition.
func genG17(repo string, w *Out) error {
	f, err := Parse(repo, "ruleset/regexp.go")
	if err != nil {
		return err
	}
	fields, err := structFieldTypes(f, "RegexpMatcher")
	if err != nil {
		return err
	}
	nm, err := f.Func("NewRegexpMatcher")
	if err != nil {
		return err
	}
	first := stmtsOf(f, nm.Body)
	if len(first) == 0 || first[0] != "if len(include) == 0 { return nil, ErrNoIncludeRules }" {
		return fmt.Errorf("NewRegexpMatcher: first statement is not the empty-include check: %q", first)
	}
	// arguments of every WriteString call, and compile calls, in source order
	var writes, compiles []string
	guard := false
	ast.Inspect(nm.Body, func(x ast.Node) bool {
		switch n := x.(type) {
		case *ast.CallExpr:
			src := f.Src(n.Fun)
			if strings.HasSuffix(src, ".WriteString") && len(n.Args) == 1 {
				writes = append(writes, f.Src(n.Args[0]))
			}
			if src == "regexp.MustCompile" || src == "regexp.Compile" {
				compiles = append(compiles, f.Src(n))
			}
		case *ast.IfStmt:
			if n.Init != nil && f.Src(n.Init) == "s := regex.String()" && f.Src(n.Cond) == `s != ""` {
				guard = true
			}
		}
		return true
	})
	ret := lastReturn(f, nm.Body)
	matchFn, err := f.Func("RegexpMatcher.match")
	if err != nil {
		return err
	}
	matchBody := strings.Join(stmtsOf(f, matchFn.Body), " ; ")

	joinedFields := fields["include"] == "*regexp.Regexp" && fields["exclude"] == "*regexp.Regexp"
	listFields := fields["include"] == "[]*regexp.Regexp" && fields["exclude"] == "[]*regexp.Regexp"
	joinedRet := ret == "return &RegexpMatcher{include: build(include), exclude: build(exclude)}, nil"
	const joinedMatch = `if r.exclude != nil && r.exclude.MatchString(s) { return false } ; return r.include != nil && r.include.MatchString(s)`
	const joinedMatchInclFirst = `if r.include == nil || !r.include.MatchString(s) { return false } ; return r.exclude == nil || !r.exclude.MatchString(s)`
	const eachMatch = `if matchAny(r.exclude, s) { return false } ; return matchAny(r.include, s)`
	const eachMatchInclFirst = `if !matchAny(r.include, s) { return false } ; return !matchAny(r.exclude, s)`

	ws := strings.Join(writes, " , ")
	shape := -1
	switch {
	case joinedFields && joinedRet && len(compiles) == 1 && compiles[0] == "regexp.MustCompile(s)" &&
		ws == `"|" , rules[i].String()`:
		shape = 0
	case joinedFields && joinedRet && len(compiles) == 1 && compiles[0] == "regexp.MustCompile(s)" &&
		(ws == `"|" , "(?:" , rules[i].String() , ")"` || ws == `"|" , "(?:" + rules[i].String() + ")"`):
		shape = 1
	case listFields && len(writes) == 0 && len(compiles) == 0 &&
		(ret == "return &RegexpMatcher{include: slices.Clone(include), exclude: slices.Clone(exclude)}, nil" ||
			ret == "return &RegexpMatcher{include: include, exclude: exclude}, nil"):
		shape = 2
	}
	if shape < 0 {
		return fmt.Errorf("NewRegexpMatcher: the way rules are combined is not a shape the model knows "+
			"(fields=%v writes=[%s] compiles=%v return=%q)", fields, ws, compiles, ret)
	}
	w.Linef("(* 0 = rule texts joined with '|'; 1 = joined, each rule wrapped in (?:...); 2 = rules evaluated one by one *)")
	w.DefN("join_shape", uint64(shape))
	if shape == 2 {
		// matchAny must be the plain existential loop
		ma, err := f.Func("matchAny")
		if err != nil {
			return err
		}
		body := strings.Join(stmtsOf(f, ma.Body), " ; ")
		if body != "for _, re := range rules { if re.MatchString(s) { return true } } ; return false" {
			return fmt.Errorf("matchAny: body %q is not the existential loop the model knows", body)
		}
		w.DefBool("empty_joined_is_nil", true) // not used by this shape
		switch matchBody {
		case eachMatch, eachMatchInclFirst:
		default:
			return fmt.Errorf("RegexpMatcher.match: body %q is not a shape the model knows", matchBody)
		}
	} else {
		w.DefBool("empty_joined_is_nil", guard)
		switch matchBody {
		case joinedMatch, joinedMatchInclFirst:
		default:
			return fmt.Errorf("RegexpMatcher.match: body %q is not a shape the model knows", matchBody)
		}
	}
	w.DefStr("match_body", matchBody)

	// Match: inversion applied to the result of match
	mf, err := f.Func("RegexpMatcher.Match")
	if err != nil {
		return err
	}
	mb := strings.Join(stmtsOf(f, mf.Body), " ; ")
	if mb != "m := r.match(s) ; if r.inverse { m = !m } ; return m" {
		return fmt.Errorf("RegexpMatcher.Match: body %q is not the shape the model knows", mb)
	}
	// Inverse: toggles or sets
	iv, err := f.Func("RegexpMatcher.Inverse")
	if err != nil {
		return err
	}
	ib := lastReturn(f, iv.Body)
	if len(iv.Body.List) != 1 {
		return fmt.Errorf("RegexpMatcher.Inverse: more than one statement")
	}
	switch ib {
	case "return &RegexpMatcher{include: r.include, exclude: r.exclude, inverse: !r.inverse}":
		w.DefBool("inverse_toggles", true)
	case "return &RegexpMatcher{include: r.include, exclude: r.exclude, inverse: true}":
		w.DefBool("inverse_toggles", false)
	default:
		return fmt.Errorf("RegexpMatcher.Inverse: body %q is not a shape the model knows", ib)
	}
	// ParseRegexpListItem: the exclusion prefix
	pi, err := f.Func("ParseRegexpListItem")
	if err != nil {
		return err
	}
	pb := stmtsOf(f, pi.Body)
	prefix, found := "", false
	ast.Inspect(pi.Body, func(x ast.Node) bool {
		if ce, ok := x.(*ast.CallExpr); ok && f.Src(ce.Fun) == "strings.CutPrefix" && len(ce.Args) == 2 && f.Src(ce.Args[0]) == "val" {
			if s, ok := StringLit(ce.Args[1]); ok {
				prefix, found = s, true
			}
		}
		return true
	})
	if !found || len(pb) != 4 || pb[0] != fmt.Sprintf("val, exclude := strings.CutPrefix(val, %q)", prefix) ||
		pb[1] != "r, err := regexp.Compile(val)" || pb[3] != "return RegexpListItem{r, exclude}, nil" {
		return fmt.Errorf("ParseRegexpListItem: body %q is not the shape the model knows", pb)
	}
	w.DefStr("exclude_prefix", prefix)
	// NewRegexpMatcherFromList: partition by the Exclude mark
	fl, err := f.Func("NewRegexpMatcherFromList")
	if err != nil {
		return err
	}
	lb := strings.Join(stmtsOf(f, fl.Body), " ; ")
	wantLB := "var include, exclude []*regexp.Regexp ; " +
		"for i := range l { if l[i].Exclude { exclude = append(exclude, l[i].Regexp) } else { include = append(include, l[i].Regexp) } } ; " +
		"return NewRegexpMatcher(include, exclude)"
	if lb != wantLB {
		return fmt.Errorf("NewRegexpMatcherFromList: body %q is not the shape the model knows", lb)
	}
	// which side is consulted first / wins
	w.DefBool("exclude_checked_first", matchBody == joinedMatch || matchBody == eachMatch)
	return nil
}
