package main

import (
	"fmt"
	"go/ast"
	"sort"
	"strings"
)

func init() { register("g17", genG17) }

// stmtsOf renders the statements of a block, one string per statement.
func stmtsOf(f *File, b *ast.BlockStmt) []string {
	var out []string
	for _, s := range b.List {
		out = append(out, f.Src(s))
	}
	return out
}

// structFieldTypes returns field name -> rendered type of a struct type declaration.
func structFieldTypes(f *File, name string) (map[string]string, error) {
	for _, d := range f.AST.Decls {
		gd, ok := d.(*ast.GenDecl)
		if !ok {
			continue
		}
		for _, s := range gd.Specs {
			ts, ok := s.(*ast.TypeSpec)
			if !ok || ts.Name.Name != name {
				continue
			}
			st, ok := ts.Type.(*ast.StructType)
			if !ok {
				return nil, fmt.Errorf("%s: type %s is not a struct", f.Path, name)
			}
			m := map[string]string{}
			for _, fl := range st.Fields.List {
				for _, n := range fl.Names {
					m[n.Name] = f.Src(fl.Type)
				}
			}
			return m, nil
		}
	}
	return nil, fmt.Errorf("%s: type %s not found", f.Path, name)
}

// g17Alpha renames, in place, every identifier declared inside fd (receiver,
// parameters, := and range variables) to v1, v2, ... in order of declaration,
// so that renaming a local does not change the rendered shape.
func g17Alpha(fd *ast.FuncDecl) {
	names := map[*ast.Object]string{}
	keys := map[*ast.Ident]bool{} // field keys of composite literals are not variables
	ast.Inspect(fd, func(x ast.Node) bool {
		if cl, ok := x.(*ast.CompositeLit); ok {
			for _, el := range cl.Elts {
				if kv, ok := el.(*ast.KeyValueExpr); ok {
					if id, ok := kv.Key.(*ast.Ident); ok {
						keys[id] = true
					}
				}
			}
		}
		return true
	})
	ast.Inspect(fd, func(x ast.Node) bool {
		id, ok := x.(*ast.Ident)
		if !ok || keys[id] || id.Obj == nil || id.Obj.Kind != ast.Var || id.Name == "_" {
			return true
		}
		if id.Obj.Pos() < fd.Pos() || id.Obj.Pos() > fd.End() {
			return true
		}
		if _, seen := names[id.Obj]; !seen {
			names[id.Obj] = fmt.Sprintf("v%d", len(names)+1)
		}
		return true
	})
	ast.Inspect(fd, func(x ast.Node) bool {
		if id, ok := x.(*ast.Ident); ok && id.Obj != nil && !keys[id] {
			if n, ok := names[id.Obj]; ok {
				id.Name = n
			}
		}
		return true
	})
}

// litKV renders a (possibly &-prefixed) keyed composite literal as "T{k: v, k: v}"
// independent of line breaks and trailing commas.
func litKV(f *File, e ast.Expr) string {
	amp := ""
	if u, ok := e.(*ast.UnaryExpr); ok {
		amp = u.Op.String()
		e = u.X
	}
	cl, ok := e.(*ast.CompositeLit)
	if !ok {
		return f.Src(e)
	}
	var parts []string
	for _, el := range cl.Elts {
		parts = append(parts, f.Src(el))
	}
	sort.Strings(parts) // the order of keyed fields is irrelevant
	return amp + f.Src(cl.Type) + "{" + strings.Join(parts, ", ") + "}"
}

// lastReturn renders the results of the last statement of a block if it is a return.
func lastReturn(f *File, b *ast.BlockStmt) string {
	if len(b.List) == 0 {
		return ""
	}
	rs, ok := b.List[len(b.List)-1].(*ast.ReturnStmt)
	if !ok {
		return ""
	}
	var parts []string
	for _, r := range rs.Results {
		parts = append(parts, litKV(f, r))
	}
	return "return " + strings.Join(parts, ", ")
}

// genG17 reads ruleset/regexp.go: how the rules of one side are combined
// (joined bare / joined with each rule in a non-capturing group / evaluated one
// by one), the guard for an empty joined text, the evaluation order of
// exclude and include, inversion, the '-' prefix and the list partition.
// Function bodies are compared after renaming locals to v1, v2, ... (receiver
// and parameters first), so renaming a variable is not a change of shape.
func genG17(repo string, w *Out) error {
	f, err := Parse(repo, "ruleset/regexp.go")
	if err != nil {
		return err
	}
	fields, err := structFieldTypes(f, "RegexpMatcher")
	if err != nil {
		return err
	}
	fn := func(name string) (*ast.FuncDecl, error) {
		fd, err := f.Func(name)
		if err != nil {
			return nil, err
		}
		g17Alpha(fd)
		return fd, nil
	}
	// ---- NewRegexpMatcher(v1 include, v2 exclude)
	nm, err := fn("NewRegexpMatcher")
	if err != nil {
		return err
	}
	first := stmtsOf(f, nm.Body)
	if len(first) == 0 || first[0] != "if len(v1) == 0 { return nil, ErrNoIncludeRules }" {
		return fmt.Errorf("NewRegexpMatcher: first statement is not the empty-include check: %q", first)
	}
	var writes, compiles []string
	guard := false
	ast.Inspect(nm.Body, func(x ast.Node) bool {
		switch n := x.(type) {
		case *ast.CallExpr:
			src := f.Src(n.Fun)
			if strings.HasSuffix(src, ".WriteString") && len(n.Args) == 1 {
				writes = append(writes, f.Src(n.Args[0]))
			}
			if src == "regexp.MustCompile" || src == "regexp.Compile" {
				compiles = append(compiles, f.Src(n))
			}
		case *ast.IfStmt:
			if n.Init != nil && len(n.Body.List) == 1 {
				as, ok := n.Init.(*ast.AssignStmt)
				if ok && len(as.Lhs) == 1 && len(as.Rhs) == 1 && strings.HasSuffix(f.Src(as.Rhs[0]), ".String()") &&
					f.Src(n.Cond) == f.Src(as.Lhs[0])+` != ""` {
					guard = true
				}
			}
		}
		return true
	})
	ret := lastReturn(f, nm.Body)
	matchFn, err := fn("RegexpMatcher.match") // (v1 r) match(v2 s)
	if err != nil {
		return err
	}
	matchBody := strings.Join(stmtsOf(f, matchFn.Body), " ; ")

	joinedFields := fields["include"] == "*regexp.Regexp" && fields["exclude"] == "*regexp.Regexp"
	listFields := fields["include"] == "[]*regexp.Regexp" && fields["exclude"] == "[]*regexp.Regexp"
	// build := func(v4 rules) { var v5 regex; for v6 i := range v4 {...}; if v7 s := ...}: the closure is v3
	joinedRet := ret == "return &RegexpMatcher{exclude: v3(v2), include: v3(v1)}, nil"
	const joinedMatch = `if v1.exclude != nil && v1.exclude.MatchString(v2) { return false } ; return v1.include != nil && v1.include.MatchString(v2)`
	const joinedMatchInclFirst = `if v1.include == nil || !v1.include.MatchString(v2) { return false } ; return v1.exclude == nil || !v1.exclude.MatchString(v2)`
	const eachMatch = `if matchAny(v1.exclude, v2) { return false } ; return matchAny(v1.include, v2)`
	const eachMatchInclFirst = `if !matchAny(v1.include, v2) { return false } ; return !matchAny(v1.exclude, v2)`

	ws := strings.Join(writes, " , ")
	oneCompile := len(compiles) == 1 && strings.HasPrefix(compiles[0], "regexp.MustCompile(v")
	shape := -1
	switch {
	case joinedFields && joinedRet && oneCompile && ws == `"|" , v4[v6].String()`:
		shape = 0
	case joinedFields && joinedRet && oneCompile &&
		(ws == `"|" , "(?:" , v4[v6].String() , ")"` || ws == `"|" , "(?:" + v4[v6].String() + ")"`):
		shape = 1
	case listFields && len(writes) == 0 && len(compiles) == 0 &&
		(ret == "return &RegexpMatcher{exclude: slices.Clone(v2), include: slices.Clone(v1)}, nil" ||
			ret == "return &RegexpMatcher{exclude: v2, include: v1}, nil"):
		shape = 2
	}
	if shape < 0 {
		return fmt.Errorf("NewRegexpMatcher: the way rules are combined is not a shape the model knows "+
			"(fields=%v writes=[%s] compiles=%v return=%q)", fields, ws, compiles, ret)
	}
	w.Linef("(* 0 = rule texts joined with '|'; 1 = joined, each rule wrapped in (?:...); 2 = rules evaluated one by one *)")
	w.DefN("join_shape", uint64(shape))
	if shape == 2 {
		// matchAny(v1 rules, v2 s) must be the plain existential loop
		ma, err := fn("matchAny")
		if err != nil {
			return err
		}
		body := strings.Join(stmtsOf(f, ma.Body), " ; ")
		if body != "for _, v3 := range v1 { if v3.MatchString(v2) { return true } } ; return false" {
			return fmt.Errorf("matchAny: body %q is not the existential loop the model knows", body)
		}
		w.DefBool("empty_joined_is_nil", true) // not used by this shape
		switch matchBody {
		case eachMatch, eachMatchInclFirst:
		default:
			return fmt.Errorf("RegexpMatcher.match: body %q is not a shape the model knows", matchBody)
		}
	} else {
		w.DefBool("empty_joined_is_nil", guard)
		switch matchBody {
		case joinedMatch, joinedMatchInclFirst:
		default:
			return fmt.Errorf("RegexpMatcher.match: body %q is not a shape the model knows", matchBody)
		}
	}
	w.DefStr("match_body", matchBody)

	// ---- (v1 r) Match(v2 s): inversion applied to the result of match
	mf, err := fn("RegexpMatcher.Match")
	if err != nil {
		return err
	}
	mb := strings.Join(stmtsOf(f, mf.Body), " ; ")
	if mb != "v3 := v1.match(v2) ; if v1.inverse { v3 = !v3 } ; return v3" {
		return fmt.Errorf("RegexpMatcher.Match: body %q is not the shape the model knows", mb)
	}
	// ---- (v1 r) Inverse(): toggles or sets
	iv, err := fn("RegexpMatcher.Inverse")
	if err != nil {
		return err
	}
	ib := lastReturn(f, iv.Body)
	if len(iv.Body.List) != 1 {
		return fmt.Errorf("RegexpMatcher.Inverse: more than one statement")
	}
	switch ib {
	case "return &RegexpMatcher{exclude: v1.exclude, include: v1.include, inverse: !v1.inverse}":
		w.DefBool("inverse_toggles", true)
	case "return &RegexpMatcher{exclude: v1.exclude, include: v1.include, inverse: true}":
		w.DefBool("inverse_toggles", false)
	default:
		return fmt.Errorf("RegexpMatcher.Inverse: body %q is not a shape the model knows", ib)
	}
	// ---- ParseRegexpListItem(v1 val): the exclusion prefix
	pi, err := fn("ParseRegexpListItem")
	if err != nil {
		return err
	}
	pb := stmtsOf(f, pi.Body)
	prefix, found := "", false
	ast.Inspect(pi.Body, func(x ast.Node) bool {
		if ce, ok := x.(*ast.CallExpr); ok && f.Src(ce.Fun) == "strings.CutPrefix" && len(ce.Args) == 2 && f.Src(ce.Args[0]) == "v1" {
			if s, ok := StringLit(ce.Args[1]); ok {
				prefix, found = s, true
			}
		}
		return true
	})
	if !found || len(pb) != 4 || pb[0] != fmt.Sprintf("v1, v2 := strings.CutPrefix(v1, %q)", prefix) ||
		pb[1] != "v3, v4 := regexp.Compile(v1)" || pb[3] != "return RegexpListItem{v3, v2}, nil" {
		return fmt.Errorf("ParseRegexpListItem: body %q is not the shape the model knows", pb)
	}
	w.DefStr("exclude_prefix", prefix)
	// ---- NewRegexpMatcherFromList(v1 l): partition by the Exclude mark
	fl, err := fn("NewRegexpMatcherFromList")
	if err != nil {
		return err
	}
	lb := strings.Join(stmtsOf(f, fl.Body), " ; ")
	wantLB := "var v2, v3 []*regexp.Regexp ; " +
		"for v4 := range v1 { if v1[v4].Exclude { v3 = append(v3, v1[v4].Regexp) } else { v2 = append(v2, v1[v4].Regexp) } } ; " +
		"return NewRegexpMatcher(v2, v3)"
	if lb != wantLB {
		return fmt.Errorf("NewRegexpMatcherFromList: body %q is not the shape the model knows", lb)
	}
	// which side is consulted first
	w.DefBool("exclude_checked_first", matchBody == joinedMatch || matchBody == eachMatch)
	return genG17Wiring(repo, w)
}
