package main

import (
	"fmt"
	"go/ast"
	"go/parser"
	"go/printer"
	"go/token"
	"path/filepath"
	"strconv"
	"strings"
)

// Out accumulates Gallina text.
type Out struct{ sb strings.Builder }

func (o *Out) Linef(format string, a ...any) { fmt.Fprintf(&o.sb, format+"\n", a...) }
func (o *Out) String() string               { return o.sb.String() }

// CoqStr renders a Go string as a Gallina list of byte values.
func CoqStr(s string) string {
	if s == "" {
		return "(@nil N)"
	}
	parts := make([]string, len(s))
	for i := 0; i < len(s); i++ {
		parts[i] = strconv.Itoa(int(s[i]))
	}
	return "[" + strings.Join(parts, ";") + "]"
}

// CoqStrList renders a list of strings.
func CoqStrList(ss []string) string {
	if len(ss) == 0 {
		return "(@nil (list N))"
	}
	parts := make([]string, len(ss))
	for i, s := range ss {
		parts[i] = CoqStr(s)
	}
	return "[" + strings.Join(parts, "; ") + "]"
}

func CoqBool(b bool) string {
	if b {
		return "true"
	}
	return "false"
}

// comment renders text so that it is safe inside a Coq comment.
func comment(s string) string {
	s = strings.ReplaceAll(s, "\"", "'")
	s = strings.ReplaceAll(s, "*)", "* )")
	s = strings.ReplaceAll(s, "(*", "( *")
	return s
}

func (o *Out) DefStr(name, s string) {
	o.Linef("Definition %s : str := %s. (* %s *)", name, CoqStr(s), comment(fmt.Sprintf("%q", s)))
}
func (o *Out) DefStrList(name string, ss []string) {
	o.Linef("Definition %s : list str := %s. (* %s *)", name, CoqStrList(ss), comment(fmt.Sprintf("%q", ss)))
}
func (o *Out) DefBool(name string, b bool)  { o.Linef("Definition %s : bool := %s.", name, CoqBool(b)) }
func (o *Out) DefN(name string, n uint64)   { o.Linef("Definition %s : N := %d.", name, n) }
func (o *Out) DefZ(name string, n int64)    { o.Linef("Definition %s : Z := (%d)%%Z.", name, n) }

// File is a parsed Go source file.
type File struct {
	Fset *token.FileSet
	AST  *ast.File
	Path string
}

func Parse(repo, rel string) (*File, error) {
	fset := token.NewFileSet()
	p := filepath.Join(repo, rel)
	f, err := parser.ParseFile(fset, p, nil, parser.ParseComments)
	if err != nil {
		return nil, fmt.Errorf("parse %s: %w", rel, err)
	}
	recordRef(repo, rel)
	alphaNormalize(repo, fset, f, rel) // see lib_alpha.go: undo renamed locals / reworded comments and Debug messages
	return &File{Fset: fset, AST: f, Path: rel}, nil
}

// Src renders a node back to source text (single line, spaces collapsed).
func (f *File) Src(n ast.Node) string {
	var sb strings.Builder
	printer.Fprint(&sb, f.Fset, n)
	return strings.Join(strings.Fields(sb.String()), " ")
}

// Func finds a function or method declaration by name ("Name" or "Recv.Name").
func (f *File) Func(name string) (*ast.FuncDecl, error) {
	recv, fn := "", name
	if i := strings.Index(name, "."); i >= 0 {
		recv, fn = name[:i], name[i+1:]
	}
	for _, d := range f.AST.Decls {
		fd, ok := d.(*ast.FuncDecl)
		if !ok || fd.Name.Name != fn {
			continue
		}
		if recv == "" && fd.Recv == nil {
			return fd, nil
		}
		if recv != "" && fd.Recv != nil && len(fd.Recv.List) == 1 {
			t := fd.Recv.List[0].Type
			if s, ok := t.(*ast.StarExpr); ok {
				t = s.X
			}
			if id, ok := t.(*ast.Ident); ok && id.Name == recv {
				return fd, nil
			}
		}
	}
	return nil, fmt.Errorf("%s: func %s not found", f.Path, name)
}

// ValueSpec finds a package-level var/const by name and returns its value expression.
func (f *File) ValueSpec(name string) (ast.Expr, error) {
	for _, d := range f.AST.Decls {
		gd, ok := d.(*ast.GenDecl)
		if !ok {
			continue
		}
		for _, s := range gd.Specs {
			vs, ok := s.(*ast.ValueSpec)
			if !ok {
				continue
			}
			for i, n := range vs.Names {
				if n.Name == name && i < len(vs.Values) {
					return vs.Values[i], nil
				}
			}
		}
	}
	return nil, fmt.Errorf("%s: var/const %s not found", f.Path, name)
}

// StringLit returns the value of a string literal expression.
func StringLit(e ast.Expr) (string, bool) {
	bl, ok := e.(*ast.BasicLit)
	if !ok || bl.Kind != token.STRING {
		return "", false
	}
	s, err := strconv.Unquote(bl.Value)
	if err != nil {
		return "", false
	}
	return s, true
}

// IntLit returns the value of an integer literal expression.
func IntLit(e ast.Expr) (int64, bool) {
	bl, ok := e.(*ast.BasicLit)
	if !ok || bl.Kind != token.INT {
		return 0, false
	}
	v, err := strconv.ParseInt(bl.Value, 0, 64)
	if err != nil {
		return 0, false
	}
	return v, true
}

// FirstStringArg returns the first string-literal argument of a call expression
// (e.g. regexp.MustCompile(`...`)).
func FirstStringArg(e ast.Expr) (string, bool) {
	ce, ok := e.(*ast.CallExpr)
	if !ok || len(ce.Args) == 0 {
		return "", false
	}
	return StringLit(ce.Args[0])
}

// CallsIn lists, in source order, the rendered call expressions inside a node.
func (f *File) CallsIn(n ast.Node) []string {
	var out []string
	ast.Inspect(n, func(x ast.Node) bool {
		if ce, ok := x.(*ast.CallExpr); ok {
			out = append(out, f.Src(ce))
		}
		return true
	})
	return out
}

// CaseBody returns the statements of the `case <label>:` clause of the first
// switch statement found in n whose clause list mentions label.
func (f *File) CaseBody(n ast.Node, label string) ([]ast.Stmt, error) {
	var res []ast.Stmt
	found := false
	ast.Inspect(n, func(x ast.Node) bool {
		if found {
			return false
		}
		cc, ok := x.(*ast.CaseClause)
		if !ok {
			return true
		}
		for _, e := range cc.List {
			if f.Src(e) == label {
				res, found = cc.Body, true
				return false
			}
		}
		return true
	})
	if !found {
		return nil, fmt.Errorf("%s: case %s not found", f.Path, label)
	}
	return res, nil
}

// ConstBlockNames returns the names of the iota const block that contains name.
func (f *File) ConstBlockNames(name string) ([]string, error) {
	for _, d := range f.AST.Decls {
		gd, ok := d.(*ast.GenDecl)
		if !ok || gd.Tok != token.CONST {
			continue
		}
		var names []string
		hit := false
		for _, s := range gd.Specs {
			for _, n := range s.(*ast.ValueSpec).Names {
				names = append(names, n.Name)
				if n.Name == name {
					hit = true
				}
			}
		}
		if hit {
			return names, nil
		}
	}
	return nil, fmt.Errorf("%s: const block with %s not found", f.Path, name)
}
