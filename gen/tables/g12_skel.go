package main

import (
	"go/ast"
	"strings"
)

// g12Skeleton renders the control-flow skeleton of a function body as a list
// of tokens in source order:
//
//	"if <cond>"       every if statement (except those that only choose between log calls)
//	"else"            start of an else branch
//	"call <fun>"      every call whose callee is not a logging / formatting helper
//	"return <exprs>"  every return statement
//	"defer <call>"    every defer
//	"switch" / "case <exprs>" for switch statements
//
// Statement order and nesting order are preserved (pre-order walk), so removing,
// adding or reordering a call, a branch or a return changes the list.
func g12Skeleton(f *File, body *ast.BlockStmt) []string {
	return g12SkeletonFn(f, nil, body)
}

// g12AlphaRename replaces the names of the receiver, the parameters, the named results and every
// local variable / constant of a function by $0, $1, ... in order of declaration, so that renaming
// a local does not change the skeleton.  (go/parser resolves identifiers to their declaring
// objects; the AST is private to this run, so it is renamed in place.)
func g12AlphaRename(fd *ast.FuncDecl) {
	names := map[*ast.Object]string{}
	next := 0
	assign := func(id *ast.Ident) {
		if id == nil || id.Obj == nil || id.Name == "_" {
			return
		}
		if _, ok := names[id.Obj]; !ok && (id.Obj.Kind == ast.Var || id.Obj.Kind == ast.Con) {
			names[id.Obj] = "$" + itoaSmall(next)
			next++
		}
	}
	fields := func(fl *ast.FieldList) {
		if fl == nil {
			return
		}
		for _, fld := range fl.List {
			for _, n := range fld.Names {
				assign(n)
			}
		}
	}
	fields(fd.Recv)
	fields(fd.Type.Params)
	fields(fd.Type.Results)
	// declarations inside the body, in source order
	ast.Inspect(fd.Body, func(x ast.Node) bool {
		switch n := x.(type) {
		case *ast.AssignStmt:
			if n.Tok.String() == ":=" {
				for _, l := range n.Lhs {
					if id, ok := l.(*ast.Ident); ok && id.Obj != nil && id.Obj.Decl == n {
						assign(id)
					}
				}
			}
		case *ast.ValueSpec:
			for _, id := range n.Names {
				assign(id)
			}
		case *ast.RangeStmt:
			if n.Tok.String() == ":=" {
				if id, ok := n.Key.(*ast.Ident); ok {
					assign(id)
				}
				if id, ok := n.Value.(*ast.Ident); ok {
					assign(id)
				}
			}
		case *ast.FuncLit:
			fields(n.Type.Params)
			fields(n.Type.Results)
		case *ast.TypeSwitchStmt:
			if as, ok := n.Assign.(*ast.AssignStmt); ok {
				for _, l := range as.Lhs {
					if id, ok := l.(*ast.Ident); ok {
						assign(id)
					}
				}
			}
		}
		return true
	})
	rename := func(root ast.Node) {
		ast.Inspect(root, func(x ast.Node) bool {
			if id, ok := x.(*ast.Ident); ok && id.Obj != nil {
				if nn, ok := names[id.Obj]; ok {
					id.Name = nn
				}
			}
			return true
		})
	}
	if fd.Recv != nil {
		rename(fd.Recv)
	}
	rename(fd.Type)
	rename(fd.Body)
}

func itoaSmall(n int) string {
	if n == 0 {
		return "0"
	}
	s := ""
	for n > 0 {
		s = string(rune('0'+n%10)) + s
		n /= 10
	}
	return s
}

// g12SkeletonFn: skeleton of a function declaration after alpha-renaming its locals (fd may be nil: no renaming).
func g12SkeletonFn(f *File, fd *ast.FuncDecl, body *ast.BlockStmt) []string {
	if fd != nil {
		g12AlphaRename(fd)
		body = fd.Body
	}
	var out []string
	var walkStmt func(s ast.Stmt)
	var walkExpr func(e ast.Node)

	ignoredCall := func(name string) bool {
		if strings.Contains(name, ".log.") || strings.HasPrefix(name, "log.") {
			return true // logging through a logger field (hp.log.Info, ...)
		}
		for _, p := range []string{"log.", "fmt.", "errors.New", "strings.", "strconv.", "time.", "make", "len", "append", "int64", "string", "new"} {
			if name == p || (strings.HasSuffix(p, ".") && strings.HasPrefix(name, p)) {
				return true
			}
		}
		return false
	}
	walkExpr = func(e ast.Node) {
		if e == nil {
			return
		}
		ast.Inspect(e, func(x ast.Node) bool {
			switch n := x.(type) {
			case *ast.FuncLit:
				out = append(out, "func{")
				for _, s := range n.Body.List {
					walkStmt(s)
				}
				out = append(out, "}")
				return false
			case *ast.CallExpr:
				name := f.Src(n.Fun)
				if !ignoredCall(name) {
					out = append(out, "call "+f.Src(n))
				}
			}
			return true
		})
	}
	onlyLogs := func(b *ast.BlockStmt) bool {
		if b == nil {
			return true
		}
		for _, s := range b.List {
			es, ok := s.(*ast.ExprStmt)
			if !ok {
				return false
			}
			ce, ok := es.X.(*ast.CallExpr)
			if !ok || !strings.HasPrefix(f.Src(ce.Fun), "log.") {
				return false
			}
		}
		return true
	}
	walkStmt = func(s ast.Stmt) {
		switch n := s.(type) {
		case nil:
		case *ast.BlockStmt:
			for _, x := range n.List {
				walkStmt(x)
			}
		case *ast.IfStmt:
			elseBlock, elseIsBlock := n.Else.(*ast.BlockStmt)
			if onlyLogs(n.Body) && (n.Else == nil || (elseIsBlock && onlyLogs(elseBlock))) {
				// the branch only chooses a log line: not part of the skeleton (calls of its init statement are)
				if n.Init != nil {
					walkStmt(n.Init)
				}
				return
			}
			if n.Init != nil {
				walkStmt(n.Init)
			}
			out = append(out, "if "+f.Src(n.Cond))
			walkExpr(n.Cond)
			walkStmt(n.Body)
			if n.Else != nil {
				out = append(out, "else")
				walkStmt(n.Else)
			}
			out = append(out, "fi")
		case *ast.ReturnStmt:
			var rs []string
			for _, r := range n.Results {
				walkExpr(r)
				rs = append(rs, f.Src(r))
			}
			out = append(out, strings.TrimSpace("return "+strings.Join(rs, ", ")))
		case *ast.DeferStmt:
			out = append(out, "defer "+f.Src(n.Call.Fun))
			if fl, ok := n.Call.Fun.(*ast.FuncLit); ok {
				_ = fl // bodies of deferred closures only manage deadlines / logging
			}
		case *ast.ExprStmt:
			walkExpr(n.X)
		case *ast.AssignStmt:
			for _, r := range n.Rhs {
				walkExpr(r)
			}
			// assignments to fields (x.f = ...) and re-assignments of variables (x = ...) are part of the skeleton;
			// short declarations (x := call()) are represented by their call token
			for _, l := range n.Lhs {
				_, isSel := l.(*ast.SelectorExpr)
				// a message text assigned to a variable (msg = "...", msg = fmt.Sprintf(...)) is data, not control flow
				textOnly := !isSel && len(n.Rhs) == 1 && g12IsText(f, n.Rhs[0])
				if (isSel || n.Tok.String() == "=") && !textOnly {
					var rs []string
					for _, r := range n.Rhs {
						rs = append(rs, f.Src(r))
					}
					out = append(out, "set "+f.Src(l)+" = "+strings.Join(rs, ", "))
				}
			}
		case *ast.DeclStmt:
			if gd, ok := n.Decl.(*ast.GenDecl); ok {
				for _, sp := range gd.Specs {
					if vs, ok := sp.(*ast.ValueSpec); ok && vs.Type != nil {
						for _, nm := range vs.Names {
							out = append(out, "var "+nm.Name+" "+f.Src(vs.Type))
						}
					}
				}
			}
			walkExpr(n.Decl)
		case *ast.SwitchStmt:
			if n.Init != nil {
				walkStmt(n.Init)
			}
			tag := ""
			if n.Tag != nil {
				tag = " " + f.Src(n.Tag)
			}
			out = append(out, "switch"+tag)
			for _, c := range n.Body.List {
				cc := c.(*ast.CaseClause)
				var es []string
				for _, e := range cc.List {
					es = append(es, f.Src(e))
				}
				if len(es) == 0 {
					out = append(out, "default")
				} else {
					out = append(out, "case "+strings.Join(es, ", "))
				}
				for _, x := range cc.Body {
					walkStmt(x)
				}
			}
			out = append(out, "end")
		case *ast.ForStmt:
			out = append(out, "for "+f.Src(n.Cond))
			walkStmt(n.Body)
			out = append(out, "end")
		case *ast.RangeStmt:
			out = append(out, "range "+f.Src(n.X))
			walkStmt(n.Body)
			out = append(out, "end")
		case *ast.GoStmt:
			out = append(out, "go "+f.Src(n.Call.Fun))
		case *ast.SelectStmt:
			out = append(out, "select")
			for _, c := range n.Body.List {
				cc := c.(*ast.CommClause)
				if cc.Comm == nil {
					out = append(out, "default")
				} else {
					out = append(out, "comm "+f.Src(cc.Comm))
				}
				for _, x := range cc.Body {
					walkStmt(x)
				}
			}
			out = append(out, "end")
		case *ast.BranchStmt:
			out = append(out, n.Tok.String()) // break / continue / goto / fallthrough leave a loop or a case early
		default:
			// other statements (inc/dec, labels, ...) are not part of the skeleton
		}
	}
	for _, s := range body.List {
		walkStmt(s)
	}
	return out
}

// g12IsText: a string literal, a fmt.Sprintf call, or a concatenation of such with other operands (message building)
func g12IsText(f *File, e ast.Expr) bool {
	switch x := e.(type) {
	case *ast.BasicLit:
		return x.Kind.String() == "STRING"
	case *ast.CallExpr:
		return f.Src(x.Fun) == "fmt.Sprintf"
	case *ast.BinaryExpr:
		return x.Op.String() == "+" && (g12IsText(f, x.X) || g12IsText(f, x.Y))
	}
	return false
}
