package main

// Translator for proof group g05 (C05, routing).  Reads, from the CURRENT sources:
//   pac/proxy.go, pac/mode_string.go        Mode consts, parseMode arms, parseProxy / First / URL shapes
//   http_proxy.go                           configureProxy selection switch and wrapper order, directDomains,
//                                           directLocalhost, pacProxy (call order, rejection of unsupported types)
//   internal/martian/proxy_connect.go       connect's scheme switch, what is dialled on each arm
//   internal/martian/proxy.go               init: Transport shares ProxyURL and DialContext with the CONNECT path
//   dialvia/http.go, dialvia/socks5.go      address dialled for the proxy hop, TLS decision, default SOCKS port
//   net.go, http_transport.go, command/run/run.go   DialRedirectFromHostPortPairs matching rule, where it is applied
// Everything the Gallina model G05.Routing depends on is emitted into Tables.v; a
// shape this file does not know makes the run fail with SHAPE-NOT-FOUND.

import (
	"fmt"
	"go/ast"
	"go/token"
	"regexp"
	"strings"
)

func init() { register("g05", genG05) }

func coqPairList(ps [][2]string) string {
	if len(ps) == 0 {
		return "(@nil (str * str))"
	}
	parts := make([]string, len(ps))
	for i, p := range ps {
		parts[i] = "(" + CoqStr(p[0]) + ", " + CoqStr(p[1]) + ")"
	}
	return "[" + strings.Join(parts, "; ") + "]"
}

// stmtsOf returns every statement (at any depth) of a block, in source order.
func allStmts(n ast.Node) []ast.Stmt {
	var out []ast.Stmt
	ast.Inspect(n, func(x ast.Node) bool {
		if s, ok := x.(ast.Stmt); ok {
			out = append(out, s)
		}
		return true
	})
	return out
}

func hasCall(f *File, n ast.Node, text string) bool {
	for _, c := range f.CallsIn(n) {
		if c == text {
			return true
		}
	}
	return false
}

func callWithPrefix(f *File, n ast.Node, prefix string) (string, bool) {
	for _, c := range f.CallsIn(n) {
		if strings.HasPrefix(c, prefix) {
			return c, true
		}
	}
	return "", false
}

// returnsError reports whether a statement list contains `return <...>, <non-nil expr>` (last result not the ident nil).
func returnsNonNilLast(f *File, body []ast.Stmt) bool {
	for _, s := range body {
		found := false
		ast.Inspect(s, func(x ast.Node) bool {
			if r, ok := x.(*ast.ReturnStmt); ok && len(r.Results) > 0 {
				if f.Src(r.Results[len(r.Results)-1]) != "nil" {
					found = true
				}
			}
			return true
		})
		if found {
			return true
		}
	}
	return false
}

func genG05(repo string, w *Out) error {
	if err := g05Pac(repo, w); err != nil {
		return err
	}
	if err := g05HTTPProxy(repo, w); err != nil {
		return err
	}
	if err := g05Martian(repo, w); err != nil {
		return err
	}
	if err := g05Dialvia(repo, w); err != nil {
		return err
	}
	if err := g05Net(repo, w); err != nil {
		return err
	}
	if err := g05Config(repo, w); err != nil {
		return err
	}
	if err := g05PacResolver(repo, w); err != nil {
		return err
	}
	return g05Stdlib(w)
}

// ---------------------------------------------------------------- pac/proxy.go
func g05Pac(repo string, w *Out) error {
	f, err := Parse(repo, "pac/proxy.go")
	if err != nil {
		return err
	}
	consts, err := f.ConstBlockNames("DIRECT")
	if err != nil {
		return err
	}
	w.DefStrList("mode_consts", consts)

	// stringer output
	ms, err := Parse(repo, "pac/mode_string.go")
	if err != nil {
		return err
	}
	nameE, err := ms.ValueSpec("_Mode_name")
	if err != nil {
		return err
	}
	names, ok := StringLit(nameE)
	if !ok {
		return fmt.Errorf("mode_string.go: _Mode_name is not a string literal")
	}
	idxE, err := ms.ValueSpec("_Mode_index")
	if err != nil {
		return err
	}
	cl, ok := idxE.(*ast.CompositeLit)
	if !ok {
		return fmt.Errorf("mode_string.go: _Mode_index is not a composite literal")
	}
	var idx []int64
	for _, e := range cl.Elts {
		v, ok := IntLit(e)
		if !ok {
			return fmt.Errorf("mode_string.go: _Mode_index element %s", ms.Src(e))
		}
		idx = append(idx, v)
	}
	var mstr []string
	for i := 0; i+1 < len(idx); i++ {
		if idx[i] > idx[i+1] || idx[i+1] > int64(len(names)) {
			return fmt.Errorf("mode_string.go: _Mode_index not monotone within _Mode_name")
		}
		mstr = append(mstr, names[idx[i]:idx[i+1]])
	}
	w.DefStrList("mode_strings", mstr)

	// parseMode: switch s { case "X": return X ... default: return D }
	pm, err := f.Func("parseMode")
	if err != nil {
		return err
	}
	var sw *ast.SwitchStmt
	for _, s := range pm.Body.List {
		if x, ok := s.(*ast.SwitchStmt); ok {
			sw = x
		}
	}
	if sw == nil || sw.Tag == nil || len(pm.Type.Params.List) != 1 || len(pm.Type.Params.List[0].Names) != 1 ||
		f.Src(sw.Tag) != pm.Type.Params.List[0].Names[0].Name {
		return fmt.Errorf("parseMode: expected a switch on the parameter")
	}
	var arms [][2]string
	def := ""
	for _, c := range sw.Body.List {
		cc := c.(*ast.CaseClause)
		if len(cc.Body) != 1 {
			return fmt.Errorf("parseMode: arm body is not a single return")
		}
		r, ok := cc.Body[0].(*ast.ReturnStmt)
		if !ok || len(r.Results) != 1 {
			return fmt.Errorf("parseMode: arm body is not a single return")
		}
		id, ok := r.Results[0].(*ast.Ident)
		if !ok {
			return fmt.Errorf("parseMode: arm returns %s, not a Mode constant", f.Src(r.Results[0]))
		}
		if cc.List == nil {
			def = id.Name
			continue
		}
		for _, e := range cc.List {
			s, ok := StringLit(e)
			if !ok {
				return fmt.Errorf("parseMode: case label %s is not a string literal", f.Src(e))
			}
			arms = append(arms, [2]string{s, id.Name})
		}
	}
	if def == "" {
		return fmt.Errorf("parseMode: no default arm")
	}
	w.Linef("Definition parse_mode_arms : list (str * str) := %s. (* %s *)", coqPairList(arms), comment(fmt.Sprint(arms)))
	w.DefStr("parse_mode_default", def)

	// parseProxy
	pp, err := f.Func("parseProxy")
	if err != nil {
		return err
	}
	if len(pp.Type.Params.List) != 1 || len(pp.Type.Params.List[0].Names) != 1 {
		return fmt.Errorf("parseProxy: expected one parameter")
	}
	arg := pp.Type.Params.List[0].Names[0].Name
	stm := pp.Body.List
	if len(stm) < 2 {
		return fmt.Errorf("parseProxy: body too short")
	}
	trims := f.Src(stm[0]) == fmt.Sprintf("%s = strings.TrimSpace(%s)", arg, arg)
	if !trims && hasCall(f, pp.Body, "strings.TrimSpace("+arg+")") {
		return fmt.Errorf("parseProxy: strings.TrimSpace is used but not as the first statement")
	}
	w.DefBool("parse_proxy_trims", trims)
	// literal comparisons `arg == "<lit>"` in if conditions, in order, with what the arm returns
	var emptyDirect bool
	directLit := ""
	haveDirectLit := false
	cutSep := ""
	haveSplit := false
	for _, s := range stm {
		switch x := s.(type) {
		case *ast.IfStmt:
			c := f.Src(x.Cond)
			if m := regexp.MustCompile(`^` + regexp.QuoteMeta(arg) + ` == ("(?:[^"\\]|\\.)*")$`).FindStringSubmatch(c); m != nil && x.Init == nil {
				lit, _ := StringLit(&ast.BasicLit{Kind: token.STRING, Value: m[1]})
				body := f.Src(x.Body)
				isDirect := body == "{ return noProxy, nil }" || body == "{ return Proxy{Mode: DIRECT}, nil }"
				if !isDirect {
					return fmt.Errorf("parseProxy: arm for %s == %q returns %s, expected the DIRECT proxy", arg, lit, body)
				}
				if lit == "" {
					emptyDirect = true
				} else {
					if haveDirectLit {
						return fmt.Errorf("parseProxy: more than one literal keyword arm")
					}
					directLit, haveDirectLit = lit, true
				}
			}
		case *ast.AssignStmt:
			t := f.Src(x)
			if m := regexp.MustCompile(`^(\w+), (\w+), (\w+) := strings\.Cut\(` + regexp.QuoteMeta(arg) + `, ("(?:[^"\\]|\\.)*")\)$`).FindStringSubmatch(t); m != nil {
				cutSep, _ = StringLit(&ast.BasicLit{Kind: token.STRING, Value: m[4]})
				// later: SplitHostPort(m[2]) and parseMode(m[1])
				if !hasCall(f, pp.Body, "net.SplitHostPort("+m[2]+")") {
					return fmt.Errorf("parseProxy: net.SplitHostPort is not applied to the part after the separator")
				}
				if !hasCall(f, pp.Body, "parseMode("+m[1]+")") {
					return fmt.Errorf("parseProxy: parseMode is not applied to the part before the separator")
				}
				haveSplit = true
			}
		}
	}
	if !haveSplit || len(cutSep) != 1 {
		return fmt.Errorf("parseProxy: `mode, hostport, ok := strings.Cut(%s, \"<1 byte>\")` not found", arg)
	}
	if !emptyDirect {
		return fmt.Errorf("parseProxy: the arm `%s == \"\"` returning the DIRECT proxy was not found", arg)
	}
	w.DefBool("parse_proxy_has_direct_literal", haveDirectLit)
	w.DefStr("parse_proxy_direct_literal", directLit)
	w.DefStr("parse_proxy_cut_sep", cutSep)
	// port validation: `if _, err := strconv.ParseUint(port, 10, 16); err != nil { return noProxy, <err> }`
	validates := false
	for _, st := range stm {
		is, ok := st.(*ast.IfStmt)
		if !ok || is.Init == nil {
			continue
		}
		if f.Src(is.Init) == "_, err := strconv.ParseUint(port, 10, 16)" && f.Src(is.Cond) == "err != nil" && returnsNonNilLast(f, is.Body.List) {
			validates = true
		}
	}
	for _, c := range f.CallsIn(pp.Body) {
		if strings.HasPrefix(c, "strconv.") && c != "strconv.ParseUint(port, 10, 16)" {
			return fmt.Errorf("parseProxy: %s is not a shape the model knows", c)
		}
	}
	if !validates && hasCall(f, pp.Body, "strconv.ParseUint(port, 10, 16)") {
		return fmt.Errorf("parseProxy: strconv.ParseUint(port, 10, 16) is called but its error does not fail the entry")
	}
	w.DefBool("parse_proxy_validates_port", validates)
	// host validation: `if host == "" || strings.ContainsFunc(host, isBlankOrControl) { return noProxy, <err> }`
	// with isBlankOrControl(r) = r <= ' ' || r == 0x7f
	validatesHost := false
	for _, st := range stm {
		is, ok := st.(*ast.IfStmt)
		if !ok || is.Init != nil {
			continue
		}
		c := f.Src(is.Cond)
		if !regexp.MustCompile(`\bhost\b`).MatchString(c) {
			continue
		}
		if c != `host == "" || strings.ContainsFunc(host, isBlankOrControl)` || !returnsNonNilLast(f, is.Body.List) {
			return fmt.Errorf("parseProxy: host test `if %s` is not a shape the model knows", c)
		}
		bc, err := f.Func("isBlankOrControl")
		if err != nil {
			return err
		}
		if f.Src(bc.Body) != "{ return r <= ' ' || r == 0x7f }" {
			return fmt.Errorf("isBlankOrControl: body %s is not the shape the model knows", f.Src(bc.Body))
		}
		validatesHost = true
	}
	w.DefBool("parse_proxy_validates_host", validatesHost)
	// the final composite literal must take Host and Port from SplitHostPort's results
	last := f.Src(stm[len(stm)-1])
	if !regexp.MustCompile(`^return Proxy\{ ?Mode: parseMode\(\w+\), Host: host, Port: port,? ?\}, nil$`).MatchString(last) ||
		!strings.Contains(f.Src(pp.Body), "host, port, err := net.SplitHostPort(") {
		return fmt.Errorf("parseProxy: final return %q is not a shape the model knows", last)
	}

	// First
	fi, err := f.Func("Proxies.First")
	if err != nil {
		return err
	}
	recv := fi.Recv.List[0].Names[0].Name
	firstEmpty := false
	firstSep := ""
	usesBefore := false
	for _, s := range fi.Body.List {
		switch x := s.(type) {
		case *ast.IfStmt:
			if f.Src(x.Cond) == recv+` == ""` {
				if !regexp.MustCompile(`^\{ return (noProxy|Proxy\{ ?Mode: DIRECT,? ?\}), nil \}$`).MatchString(f.Src(x.Body)) {
					return fmt.Errorf("First: the empty-string arm returns %s", f.Src(x.Body))
				}
				firstEmpty = true
			}
		case *ast.AssignStmt:
			if m := regexp.MustCompile(`^(\w+), _, _ := strings\.Cut\(string\(` + regexp.QuoteMeta(recv) + `\), ("(?:[^"\\]|\\.)*")\)$`).FindStringSubmatch(f.Src(x)); m != nil {
				firstSep, _ = StringLit(&ast.BasicLit{Kind: token.STRING, Value: m[2]})
				usesBefore = hasCall(f, fi.Body, "parseProxy("+m[1]+")")
			}
		}
	}
	if len(firstSep) != 1 || !usesBefore {
		return fmt.Errorf("First: `spec, _, _ := strings.Cut(string(%s), \"<1 byte>\")` followed by parseProxy(spec) not found", recv)
	}
	w.DefBool("first_empty_is_direct", firstEmpty)
	w.DefStr("first_entry_sep", firstSep)

	// URL
	ur, err := f.Func("Proxy.URL")
	if err != nil {
		return err
	}
	pr := ur.Recv.List[0].Names[0].Name
	nilMode := ""
	var remap [][2]string
	lower, haveScheme, haveHost := false, false, false
	for _, s := range ur.Body.List {
		switch x := s.(type) {
		case *ast.IfStmt:
			c := f.Src(x.Cond)
			b := f.Src(x.Body)
			if m := regexp.MustCompile(`^` + pr + `\.Mode == (\w+)$`).FindStringSubmatch(c); m != nil && b == "{ return nil }" {
				if nilMode != "" {
					return fmt.Errorf("URL: more than one mode maps to nil")
				}
				nilMode = m[1]
			} else if m := regexp.MustCompile(`^m == (\w+)$`).FindStringSubmatch(c); m != nil {
				m2 := regexp.MustCompile(`^\{ m = (\w+) \}$`).FindStringSubmatch(b)
				if m2 == nil {
					return fmt.Errorf("URL: remap arm body %s", b)
				}
				remap = append(remap, [2]string{m[1], m2[1]})
			} else {
				return fmt.Errorf("URL: if-condition %q is not a shape the model knows", c)
			}
		case *ast.AssignStmt:
			if f.Src(x) != "m := "+pr+".Mode" {
				return fmt.Errorf("URL: assignment %q is not a shape the model knows", f.Src(x))
			}
		case *ast.ReturnStmt:
			t := f.Src(x)
			switch {
			case strings.Contains(t, "Scheme: strings.ToLower(m.String())"):
				lower, haveScheme = true, true
			case strings.Contains(t, "Scheme: m.String()"):
				haveScheme = true
			}
			haveHost = strings.Contains(t, "Host: net.JoinHostPort("+pr+".Host, "+pr+".Port)")
		default:
			return fmt.Errorf("URL: statement %q is not a shape the model knows", f.Src(s))
		}
	}
	if nilMode == "" || !haveScheme || !haveHost {
		return fmt.Errorf("URL: nil-mode test / Scheme from m.String() / Host from net.JoinHostPort(Host, Port) not found")
	}
	w.DefStr("url_nil_mode", nilMode)
	w.Linef("Definition url_remap : list (str * str) := %s. (* %s *)", coqPairList(remap), comment(fmt.Sprint(remap)))
	w.DefBool("url_scheme_lower", lower)
	return nil
}

// ---------------------------------------------------------------- http_proxy.go
func g05HTTPProxy(repo string, w *Out) error {
	f, err := Parse(repo, "http_proxy.go")
	if err != nil {
		return err
	}
	cp, err := f.Func("HTTPProxy.configureProxy")
	if err != nil {
		return err
	}
	// top-level statements in order: the selection switch, wrappers, the hand-over to martian
	var order []string
	var wrappers []string
	seenSwitch, seenAssign, seenRT := false, false, false
	for _, s := range cp.Body.List {
		switch x := s.(type) {
		case *ast.SwitchStmt:
			if x.Tag != nil || x.Init != nil {
				continue
			}
			isSel := false
			for _, c := range x.Body.List {
				for _, e := range c.(*ast.CaseClause).List {
					if strings.HasPrefix(f.Src(e), "hp.config.UpstreamProxy") {
						isSel = true
					}
				}
			}
			if !isSel {
				continue
			}
			if seenSwitch {
				return fmt.Errorf("configureProxy: two proxy selection switches")
			}
			seenSwitch = true
			for _, c := range x.Body.List {
				cc := c.(*ast.CaseClause)
				var assigned string
				for _, st := range cc.Body {
					if a, ok := st.(*ast.AssignStmt); ok && len(a.Lhs) == 1 && f.Src(a.Lhs[0]) == "hp.proxyFunc" {
						assigned = f.Src(a.Rhs[0])
					}
				}
				if cc.List == nil {
					if assigned != "" {
						return fmt.Errorf("configureProxy: default arm assigns hp.proxyFunc = %s", assigned)
					}
					order = append(order, "default")
					continue
				}
				if len(cc.List) != 1 {
					return fmt.Errorf("configureProxy: selection arm with several conditions")
				}
				cond := f.Src(cc.List[0])
				switch {
				case cond == "hp.config.UpstreamProxyFunc != nil" && assigned == "hp.config.UpstreamProxyFunc":
					order = append(order, "func")
				case cond == "hp.config.UpstreamProxy != nil" && assigned == "http.ProxyURL(u)" &&
					strings.Contains(f.Src(cc), "u := hp.upstreamProxyURL()"):
					order = append(order, "upstream")
				case cond == "hp.pac != nil" && assigned == "hp.pacProxy":
					order = append(order, "pac")
				default:
					return fmt.Errorf("configureProxy: selection arm `case %s:` assigning %q is not a shape the model knows", cond, assigned)
				}
			}
		case *ast.IfStmt:
			if !seenSwitch || x.Else != nil || x.Init != nil || len(x.Body.List) != 1 {
				continue
			}
			a, ok := x.Body.List[0].(*ast.AssignStmt)
			if !ok || len(a.Lhs) != 1 || f.Src(a.Lhs[0]) != "hp.proxyFunc" {
				continue
			}
			cond, rhs := f.Src(x.Cond), f.Src(a.Rhs[0])
			var tag string
			switch {
			case cond == "hp.config.DirectDomains != nil" && rhs == "hp.directDomains(hp.proxyFunc)":
				tag = "direct-domains"
			case (cond == "hp.config.ProxyLocalhost == DirectProxyLocalhost" || cond == "DirectProxyLocalhost == hp.config.ProxyLocalhost") &&
				rhs == "hp.directLocalhost(hp.proxyFunc)":
				tag = "direct-localhost"
			default:
				return fmt.Errorf("configureProxy: `if %s { hp.proxyFunc = %s }` is not a shape the model knows", cond, rhs)
			}
			if seenAssign {
				return fmt.Errorf("configureProxy: wrapper %s is applied after hp.proxy.ProxyURL was assigned (it has no effect)", tag)
			}
			wrappers = append(wrappers, tag)
		case *ast.AssignStmt:
			if len(x.Lhs) == 1 {
				switch f.Src(x.Lhs[0]) {
				case "hp.proxy.ProxyURL":
					if f.Src(x.Rhs[0]) != "hp.proxyFunc" || !seenSwitch {
						return fmt.Errorf("configureProxy: hp.proxy.ProxyURL = %s (before the selection: %v)", f.Src(x.Rhs[0]), !seenSwitch)
					}
					seenAssign = true
				case "hp.proxy.RoundTripper":
					if f.Src(x.Rhs[0]) != "hp.transport" {
						return fmt.Errorf("configureProxy: hp.proxy.RoundTripper = %s", f.Src(x.Rhs[0]))
					}
					seenRT = true
				case "hp.proxyFunc":
					return fmt.Errorf("configureProxy: unconditional assignment %q is not a shape the model knows", f.Src(x))
				}
			}
		}
	}
	if !seenSwitch || !seenAssign || !seenRT {
		return fmt.Errorf("configureProxy: selection switch / hp.proxy.ProxyURL = hp.proxyFunc / hp.proxy.RoundTripper = hp.transport not found")
	}
	w.DefStrList("select_order", order)
	w.DefStrList("wrappers", wrappers)

	dpl, err := f.ValueSpec("DirectProxyLocalhost")
	if err != nil {
		return err
	}
	dplv, ok := StringLit(dpl)
	if !ok {
		return fmt.Errorf("DirectProxyLocalhost is not a string literal")
	}
	w.DefStr("localhost_direct_const", dplv)

	// the two wrappers
	ddMapsIDNA, ddStripsDot := false, false
	checkASCIIHostname := func() error {
		ah, err := f.Func("asciiHostname")
		if err != nil {
			return err
		}
		if !strings.Contains(f.Src(ah.Body), "if a, err := idna.Lookup.ToASCII(host); err == nil { return a }") ||
			!strings.HasSuffix(f.Src(ah.Body), "return host }") {
			return fmt.Errorf("asciiHostname: body is not the shape the model knows (idna.Lookup.ToASCII on non-ASCII names, identity otherwise)")
		}
		return nil
	}
	for _, wr := range []struct{ fn, pred, def string }{
		{"HTTPProxy.directDomains", "hp.config.DirectDomains.Match(req.URL.Hostname())", "dd"},
		{"HTTPProxy.directLocalhost", "hp.isLocalhost(req.URL.Hostname())", "dl"},
	} {
		fd, err := f.Func(wr.fn)
		if err != nil {
			return err
		}
		if len(fd.Body.List) != 2 {
			return fmt.Errorf("%s: expected `if fn == nil {return nil}` followed by the returned closure", wr.fn)
		}
		if f.Src(fd.Body.List[0]) != "if fn == nil { return nil }" {
			return fmt.Errorf("%s: first statement is %q, expected the nil shortcut", wr.fn, f.Src(fd.Body.List[0]))
		}
		ret, ok := fd.Body.List[1].(*ast.ReturnStmt)
		if !ok || len(ret.Results) != 1 {
			return fmt.Errorf("%s: second statement is not a return of a closure", wr.fn)
		}
		fl, ok := ret.Results[0].(*ast.FuncLit)
		if !ok || len(fl.Body.List) != 2 {
			return fmt.Errorf("%s: closure body is not `if <pred> {return nil, nil}; return fn(req)`", wr.fn)
		}
		is, ok := fl.Body.List[0].(*ast.IfStmt)
		if !ok || f.Src(is.Body) != "{ return nil, nil }" || f.Src(fl.Body.List[1]) != "return fn(req)" {
			return fmt.Errorf("%s: closure body is not `if <pred> {return nil, nil}; return fn(req)`", wr.fn)
		}
		cond := f.Src(is.Cond)
		if is.Init != nil {
			cond = f.Src(is.Init) + "; " + cond
		}
		switch {
		case cond == wr.pred:
		case wr.def == "dd" && (cond == "h := req.URL.Hostname(); hp.config.DirectDomains.Match(h) || hp.config.DirectDomains.Match(asciiHostname(h))"):
			// the name as written and the name the transport connects to
			if err := checkASCIIHostname(); err != nil {
				return err
			}
			ddMapsIDNA = true
		case wr.def == "dd" && cond == "matchesAnyForm(hp.config.DirectDomains, req.URL.Hostname())":
			// as written, as the transport connects to it, each also without the trailing dot
			if err := checkASCIIHostname(); err != nil {
				return err
			}
			mf, err := f.Func("matchesAnyForm")
			if err != nil {
				return err
			}
			if len(mf.Type.Params.List) != 2 {
				return fmt.Errorf("matchesAnyForm: expected (matcher, host)")
			}
			mb := renameIdent(renameIdent(f.Src(mf.Body), mf.Type.Params.List[0].Names[0].Name, "r"), mf.Type.Params.List[1].Names[0].Name, "host")
			if mb != `{ ascii := asciiHostname(host) return r.Match(host) || r.Match(ascii) || r.Match(strings.TrimSuffix(host, ".")) || r.Match(strings.TrimSuffix(ascii, ".")) }` {
				return fmt.Errorf("matchesAnyForm: body %s is not the shape the model knows", mb)
			}
			ddMapsIDNA, ddStripsDot = true, true
		default:
			return fmt.Errorf("%s: predicate is %q, expected %q", wr.fn, cond, wr.pred)
		}
	}
	w.DefBool("wrappers_test_url_hostname", true)
	w.DefBool("direct_domains_maps_idna", ddMapsIDNA)
	w.DefBool("direct_domains_strips_dot", ddStripsDot)
	// isLocalhost maps the name itself (C04 models and proves the classifier; here only where the mapping happens)
	il, err := f.Func("HTTPProxy.isLocalhost")
	if err != nil {
		return err
	}
	w.DefBool("localhost_maps_idna_inside", strings.Contains(f.Src(il.Body), "asciiHostname(host)"))
	// NewHTTPProxy: the loopback names of the hosts file are lower-cased before they join hp.localhost
	// (isLocalhost lower-cases only the name it is asked about)
	nh, err := f.Func("NewHTTPProxy")
	if err != nil {
		return err
	}
	nsrc := f.Src(nh.Body)
	iApp := strings.Index(nsrc, "hp.localhost = append(hp.localhost, lh...)")
	if iApp < 0 || !strings.Contains(nsrc, "lh, err := hostsfile.LocalhostAliases()") {
		return fmt.Errorf("NewHTTPProxy: lh, err := hostsfile.LocalhostAliases() ... hp.localhost = append(hp.localhost, lh...) not found")
	}
	iLow := strings.Index(nsrc, "for i := range lh { lh[i] = strings.ToLower(lh[i]) }")
	w.DefBool("aliases_lowercased_at_construction", iLow >= 0 && iLow < iApp)
	w.DefBool("localhost_lowercases_query", strings.Contains(f.Src(il.Body), "strings.ToLower("))

	// pacProxy
	pp, err := f.Func("HTTPProxy.pacProxy")
	if err != nil {
		return err
	}
	src := f.Src(pp.Body)
	i1 := strings.Index(src, "s, err := hp.pac.FindProxyForURL(r.URL, \"\") if err != nil { return nil, err }")
	i2 := strings.Index(src, "p, err := pac.Proxies(s).First() if err != nil { return nil, err }")
	i3 := strings.Index(src, "proxyURL := p.URL()")
	if i1 < 0 || i2 < i1 || i3 < i2 {
		return fmt.Errorf("pacProxy: FindProxyForURL(r.URL, \"\") / Proxies(s).First() / p.URL(), each error returned, not found in that order")
	}
	// rejection of recognised-but-unsupported proxy types: `if p.Mode == pac.X || ... { return nil, <err> }`
	// or `switch p.Mode { case pac.X, pac.Y: return nil, <err> }`, located before p.URL()
	var unsupported []string
	modeRe := regexp.MustCompile(`^p\.Mode == pac\.(\w+)$`)
	var posURL token.Pos
	for _, s := range pp.Body.List {
		if f.Src(s) == "proxyURL := p.URL()" {
			posURL = s.Pos()
		}
	}
	if posURL == 0 {
		return fmt.Errorf("pacProxy: top-level statement proxyURL := p.URL() not found")
	}
	for _, s := range pp.Body.List {
		switch x := s.(type) {
		case *ast.IfStmt:
			parts := strings.Split(f.Src(x.Cond), " || ")
			var ms []string
			all := true
			for _, p := range parts {
				m := modeRe.FindStringSubmatch(p)
				if m == nil {
					all = false
					break
				}
				ms = append(ms, m[1])
			}
			if all && len(ms) > 0 {
				if !returnsNonNilLast(f, x.Body.List) || x.Pos() > posURL {
					return fmt.Errorf("pacProxy: `if %s` does not return an error before p.URL()", f.Src(x.Cond))
				}
				unsupported = append(unsupported, ms...)
			}
		case *ast.SwitchStmt:
			if x.Tag == nil || f.Src(x.Tag) != "p.Mode" {
				continue
			}
			if x.Pos() > posURL {
				return fmt.Errorf("pacProxy: switch on p.Mode is located after p.URL()")
			}
			for _, c := range x.Body.List {
				cc := c.(*ast.CaseClause)
				if cc.List == nil {
					if returnsNonNilLast(f, cc.Body) {
						return fmt.Errorf("pacProxy: default arm of switch p.Mode rejects; not a shape the model knows")
					}
					continue
				}
				if !returnsNonNilLast(f, cc.Body) {
					continue
				}
				for _, e := range cc.List {
					t := f.Src(e)
					if !strings.HasPrefix(t, "pac.") {
						return fmt.Errorf("pacProxy: case label %s", t)
					}
					unsupported = append(unsupported, strings.TrimPrefix(t, "pac."))
				}
			}
		}
	}
	w.DefStrList("pac_unsupported_modes", unsupported)
	return nil
}

// ---------------------------------------------------------------- internal/martian
func g05Martian(repo string, w *Out) error {
	f, err := Parse(repo, "internal/martian/proxy_connect.go")
	if err != nil {
		return err
	}
	co, err := f.Func("Proxy.connect")
	if err != nil {
		return err
	}
	src := f.Src(co.Body)
	usesProxyURL := strings.Contains(src, "if p.ProxyURL != nil { u, err := p.ProxyURL(req) if err != nil { return nil, nil, err } proxyURL = u }")
	if !usesProxyURL {
		return fmt.Errorf("connect: `if p.ProxyURL != nil { u, err := p.ProxyURL(req); if err != nil {return nil, nil, err}; proxyURL = u }` not found")
	}
	w.DefBool("connect_uses_proxy_func", true)
	// direct arm
	var directDial string
	var sw *ast.SwitchStmt
	for _, s := range co.Body.List {
		switch x := s.(type) {
		case *ast.IfStmt:
			if f.Src(x.Cond) == "proxyURL == nil" {
				c, ok := callWithPrefix(f, x.Body, "p.DialContext(")
				if !ok {
					return fmt.Errorf("connect: direct arm does not call p.DialContext")
				}
				directDial = c
				if !strings.Contains(f.Src(x.Body), "return newConnectResponse(req), conn, nil") {
					return fmt.Errorf("connect: direct arm does not return the dialled connection")
				}
			}
		case *ast.SwitchStmt:
			if x.Tag != nil && f.Src(x.Tag) == "proxyURL.Scheme" {
				sw = x
			}
		}
	}
	if directDial != `p.DialContext(ctx, "tcp", req.URL.Host)` {
		return fmt.Errorf("connect: direct arm dials %q, expected p.DialContext(ctx, \"tcp\", req.URL.Host)", directDial)
	}
	if sw == nil {
		return fmt.Errorf("connect: switch proxyURL.Scheme not found")
	}
	var arms []string
	defFails := false
	for _, c := range sw.Body.List {
		cc := c.(*ast.CaseClause)
		if cc.List == nil {
			defFails = returnsNonNilLast(f, cc.Body) && !strings.Contains(f.Src(cc), "p.connect")
			continue
		}
		if len(cc.Body) != 1 {
			return fmt.Errorf("connect: arm body is not a single return")
		}
		body := f.Src(cc.Body[0])
		var handler string
		switch body {
		case "return p.connectHTTP(req, proxyURL)":
			handler = "connectHTTP"
		case "return p.connectSOCKS5(req, proxyURL)":
			handler = "connectSOCKS5"
		default:
			return fmt.Errorf("connect: arm body %q is not a shape the model knows", body)
		}
		for _, e := range cc.List {
			s, ok := StringLit(e)
			if !ok {
				return fmt.Errorf("connect: case label %s is not a string literal", f.Src(e))
			}
			arms = append(arms, "("+CoqStr(s)+", "+CoqStr(handler)+")")
		}
	}
	w.Linef("Definition connect_switch : list (str * str) := %s.", "["+strings.Join(arms, "; ")+"]")
	w.DefBool("connect_default_fails", defFails)

	// connectHTTP: which dialer for which scheme, what is dialled
	ch, err := f.Func("Proxy.connectHTTP")
	if err != nil {
		return err
	}
	var tlsScheme string
	for _, s := range ch.Body.List {
		if is, ok := s.(*ast.IfStmt); ok {
			if m := regexp.MustCompile(`^proxyURL\.Scheme == "(\w+)"$`).FindStringSubmatch(f.Src(is.Cond)); m != nil {
				if _, ok := callWithPrefix(f, is.Body, "dialvia.HTTPSProxy(p.DialContext, proxyURL, "); !ok {
					return fmt.Errorf("connectHTTP: the %q arm does not build dialvia.HTTPSProxy(p.DialContext, proxyURL, …)", m[1])
				}
				if is.Else == nil || !hasCall(f, is.Else, "dialvia.HTTPProxy(p.DialContext, proxyURL)") {
					return fmt.Errorf("connectHTTP: else arm does not build dialvia.HTTPProxy(p.DialContext, proxyURL)")
				}
				tlsScheme = m[1]
			}
		}
	}
	if tlsScheme == "" || !hasCall(f, ch.Body, `d.DialContextR(ctx, "tcp", req.URL.Host)`) {
		return fmt.Errorf("connectHTTP: scheme test / d.DialContextR(ctx, \"tcp\", req.URL.Host) not found")
	}
	w.DefStr("connect_http_tls_scheme", tlsScheme)
	cs, err := f.Func("Proxy.connectSOCKS5")
	if err != nil {
		return err
	}
	if !hasCall(f, cs.Body, "dialvia.SOCKS5Proxy(p.DialContext, proxyURL)") || !hasCall(f, cs.Body, `d.DialContext(ctx, "tcp", req.URL.Host)`) {
		return fmt.Errorf("connectSOCKS5: dialvia.SOCKS5Proxy(p.DialContext, proxyURL) / d.DialContext(ctx, \"tcp\", req.URL.Host) not found")
	}

	// proxy.go init: the Transport and the CONNECT path share the proxy function and the dial function
	pf, err := Parse(repo, "internal/martian/proxy.go")
	if err != nil {
		return err
	}
	in, err := pf.Func("Proxy.init")
	if err != nil {
		return err
	}
	isrc := pf.Src(in.Body)
	shareProxy := strings.Contains(isrc, "if p.ProxyURL == nil { p.ProxyURL = t.Proxy } else { t.Proxy = p.ProxyURL }")
	shareDial := strings.Contains(isrc, "if p.DialContext == nil { p.DialContext = t.DialContext } else { t.DialContext = p.DialContext }")
	if !strings.Contains(isrc, "p.rt = p.RoundTripper") || !strings.Contains(isrc, "if t, ok := p.rt.(*http.Transport); ok {") {
		return fmt.Errorf("init: p.rt = p.RoundTripper / the *http.Transport branch not found")
	}
	w.DefBool("transport_shares_proxy_func", shareProxy)
	w.DefBool("transport_shares_dial", shareDial)
	rt, err := pf.Func("Proxy.roundTrip")
	if err != nil {
		return err
	}
	if !hasCall(pf, rt.Body, "p.rt.RoundTrip(req)") {
		return fmt.Errorf("roundTrip: p.rt.RoundTrip(req) not found")
	}
	return nil
}

// ---------------------------------------------------------------- dialvia
func g05Dialvia(repo string, w *Out) error {
	f, err := Parse(repo, "dialvia/http.go")
	if err != nil {
		return err
	}
	dr, err := f.Func("HTTPProxyDialer.DialContextR")
	if err != nil {
		return err
	}
	src := f.Src(dr.Body)
	if !strings.Contains(src, `conn, err := d.dial(ctx, "tcp", d.proxyURL.Host)`) {
		return fmt.Errorf("dialvia/http.go DialContextR: d.dial(ctx, \"tcp\", d.proxyURL.Host) not found")
	}
	m := regexp.MustCompile(`if d\.proxyURL\.Scheme == "(\w+)" \{ conn = tls\.Client\(conn, d\.tlsConfig\) \}`).FindStringSubmatch(src)
	if m == nil {
		return fmt.Errorf("dialvia/http.go DialContextR: `if d.proxyURL.Scheme == \"https\" { conn = tls.Client(conn, d.tlsConfig) }` not found")
	}
	w.DefStr("dialvia_http_tls_scheme", m[1])
	if !strings.Contains(src, "Method: http.MethodConnect, URL: &url.URL{Host: addr}, Host: addr,") {
		return fmt.Errorf("dialvia/http.go DialContextR: the CONNECT request for addr not found")
	}
	for _, c := range []struct{ fn, scheme string }{{"HTTPProxy", "http"}, {"HTTPSProxy", "https"}} {
		fd, err := f.Func(c.fn)
		if err != nil {
			return err
		}
		if !strings.Contains(f.Src(fd.Body), fmt.Sprintf(`if proxyURL.Scheme != "%s" { panic(`, c.scheme)) {
			return fmt.Errorf("dialvia.%s: scheme guard for %q not found", c.fn, c.scheme)
		}
	}
	s, err := Parse(repo, "dialvia/socks5.go")
	if err != nil {
		return err
	}
	sd, err := s.Func("SOCKS5ProxyDialer.DialContext")
	if err != nil {
		return err
	}
	ssrc := s.Src(sd.Body)
	m = regexp.MustCompile(`proxyHost := d\.proxyURL\.Hostname\(\) proxyPort := d\.proxyURL\.Port\(\) if proxyPort == "" \{ proxyPort = "(\d+)" \} proxyAddr := net\.JoinHostPort\(proxyHost, proxyPort\)`).FindStringSubmatch(ssrc)
	if m == nil || !strings.Contains(ssrc, `proxy.SOCKS5("tcp", proxyAddr, auth, d.dial)`) {
		return fmt.Errorf("dialvia/socks5.go DialContext: Hostname()/Port()/default port/JoinHostPort/proxy.SOCKS5(\"tcp\", proxyAddr, auth, d.dial) not found")
	}
	w.DefStr("socks5_default_port", m[1])
	sp, err := s.Func("SOCKS5Proxy")
	if err != nil {
		return err
	}
	if !strings.Contains(s.Src(sp.Body), `if proxyURL.Scheme != "socks5" { panic(`) {
		return fmt.Errorf("dialvia.SOCKS5Proxy: scheme guard not found")
	}
	return nil
}

// ---------------------------------------------------------------- net.go and wiring
func renameIdent(src, from, to string) string {
	if from == to || from == "" {
		return src
	}
	return regexp.MustCompile(`\b`+regexp.QuoteMeta(from)+`\b`).ReplaceAllString(src, to)
}

func g05Net(repo string, w *Out) error {
	f, err := Parse(repo, "net.go")
	if err != nil {
		return err
	}
	fd, err := f.Func("DialRedirectFromHostPortPairs")
	if err != nil {
		return err
	}
	var fl *ast.FuncLit
	ast.Inspect(fd.Body, func(x ast.Node) bool {
		if l, ok := x.(*ast.FuncLit); ok && fl == nil {
			fl = l
		}
		return true
	})
	if fl == nil || len(fl.Type.Params.List) == 0 {
		return fmt.Errorf("DialRedirectFromHostPortPairs: returned closure not found")
	}
	var pn []string
	for _, p := range fl.Type.Params.List {
		for _, n := range p.Names {
			pn = append(pn, n.Name)
		}
	}
	if len(pn) != 2 {
		return fmt.Errorf("DialRedirectFromHostPortPairs: closure does not take (network, address)")
	}
	body := f.Src(fl.Body)
	body = renameIdent(renameIdent(body, pn[0], "network"), pn[1], "address")
	// locals: host, port from SplitHostPort; range variable; the two result locals
	if m := regexp.MustCompile(`\{ (\w+), (\w+), err := net\.SplitHostPort\(address\)`).FindStringSubmatch(body); m != nil {
		body = renameIdent(renameIdent(body, m[1], "host"), m[2], "port")
	}
	if m := regexp.MustCompile(`for _, (\w+) := range (\w+) \{`).FindStringSubmatch(body); m != nil {
		body = renameIdent(renameIdent(body, m[1], "s"), m[2], "subs")
	}
	if m := regexp.MustCompile(`(\w+) := s\.Dst\.Host`).FindStringSubmatch(body); m != nil {
		body = renameIdent(body, m[1], "h")
	}
	if m := regexp.MustCompile(`(\w+) := s\.Dst\.Port`).FindStringSubmatch(body); m != nil {
		body = renameIdent(body, m[1], "p")
	}
	known := `{ host, port, err := net.SplitHostPort(address) if err != nil { return network, address } ` +
		`for _, s := range subs { if (s.Src.Host == "" || s.Src.Host == host) && (s.Src.Port == "" || s.Src.Port == port) { ` +
		`h := s.Dst.Host if h == "" { h = host } p := s.Dst.Port if p == "" { p = port } return network, net.JoinHostPort(h, p) } } ` +
		`return network, address }`
	if body != known {
		return fmt.Errorf("DialRedirectFromHostPortPairs: closure body is not the shape the model transcribes:\n got  %s\n want %s", body, known)
	}
	w.DefBool("redirect_shape_first_match", true)

	// Dialer.DialContext applies the redirect before dialling, to every dial
	dc, err := f.Func("Dialer.DialContext")
	if err != nil {
		return err
	}
	dsrc := f.Src(dc.Body)
	const rdStmt = "if d.rd != nil { network, address = d.rd(network, address) }"
	nd, err := f.Func("NewDialer")
	if err != nil {
		return err
	}
	if !strings.Contains(f.Src(nd.Body), "rd: cfg.RedirectFunc,") {
		return fmt.Errorf("NewDialer: rd: cfg.RedirectFunc not found")
	}
	di, err := f.Func("Dialer.dialContext")
	if err != nil {
		return err
	}
	isrc := f.Src(di.Body)
	// two known places for the redirect: once in DialContext before the retry loop is entered, or inside the
	// retry loop of dialContext before each attempt (then a retry maps the already mapped address again)
	i1 := strings.Index(dsrc, rdStmt)
	i2 := strings.Index(dsrc, "d.dialContext(ctx, network, address)")
	iLoop := strings.Index(isrc, "for i := 0; i < attempts; i++ {")
	iIn := strings.Index(isrc, rdStmt)
	iDial := strings.Index(isrc, "conn, err := dial(ctx, network, address)")
	var inLoop bool
	switch {
	case i1 >= 0 && i2 > i1 && iIn < 0:
		inLoop = false
	case i1 < 0 && i2 >= 0 && iLoop >= 0 && iIn > iLoop && iDial > iIn:
		inLoop = true
	default:
		return fmt.Errorf("Dialer: the redirect `%s` is neither applied once in DialContext before d.dialContext(ctx, network, address) nor inside dialContext's retry loop before the attempt", rdStmt)
	}
	w.DefBool("redirect_in_retry_loop", inLoop)
	// dialContext: attempts <= 0 means 1; every attempt dials (network, address); the first success ends the loop
	if iDial < 0 || strings.Count(isrc, "dial(ctx,") != 1 {
		return fmt.Errorf("Dialer.dialContext: the single `dial(ctx, network, address)` inside the retry loop not found")
	}
	if !strings.Contains(isrc, "attempts := d.rt.Attempts if attempts <= 0 { attempts = 1 } for i := 0; i < attempts; i++ {") ||
		!regexp.MustCompile(`if err == nil \{ return conn, (address, )?nil \}`).MatchString(isrc) {
		return fmt.Errorf("Dialer.dialContext: retry loop (attempts <= 0 means 1; stop at the first success) is not the shape the model transcribes")
	}
	w.DefBool("dialer_redirects_every_dial", true)

	tf, err := Parse(repo, "http_transport.go")
	if err != nil {
		return err
	}
	nt, err := tf.Func("NewHTTPTransport")
	if err != nil {
		return err
	}
	if !strings.Contains(tf.Src(nt.Body), "DialContext: NewDialer(&cfg.DialConfig).DialContext,") {
		return fmt.Errorf("NewHTTPTransport: DialContext: NewDialer(&cfg.DialConfig).DialContext not found")
	}
	tproxyNil := strings.Contains(tf.Src(nt.Body), "Proxy: nil,")
	w.DefBool("transport_own_proxy_nil", tproxyNil)
	rf, err := Parse(repo, "command/run/run.go")
	if err != nil {
		return err
	}
	found := false
	ast.Inspect(rf.AST, func(x ast.Node) bool {
		if a, ok := x.(*ast.AssignStmt); ok &&
			rf.Src(a) == "c.httpTransportConfig.RedirectFunc = forwarder.DialRedirectFromHostPortPairs(c.connectTo)" {
			found = true
		}
		return true
	})
	if !found {
		return fmt.Errorf("command/run/run.go: c.httpTransportConfig.RedirectFunc = forwarder.DialRedirectFromHostPortPairs(c.connectTo) not found")
	}
	w.DefBool("connect_to_wired", true)
	return nil
}

// ---------------------------------------------------------------- pac/pac.go: the resolver is a function of its query
// FindProxyForURL may use the receiver only to call the script (pr.fn, pr.vm): any other field read or any
// assignment to a receiver field makes an answer depend on earlier look-ups.
func g05PacResolver(repo string, w *Out) error {
	f, err := Parse(repo, "pac/pac.go")
	if err != nil {
		return err
	}
	fd, err := f.Func("ProxyResolver.FindProxyForURL")
	if err != nil {
		return err
	}
	recv := fd.Recv.List[0].Names[0].Name
	var fields []string
	seen := map[string]bool{}
	writes := false
	ast.Inspect(fd.Body, func(x ast.Node) bool {
		switch n := x.(type) {
		case *ast.SelectorExpr:
			if id, ok := n.X.(*ast.Ident); ok && id.Name == recv && !seen[n.Sel.Name] {
				seen[n.Sel.Name] = true
				fields = append(fields, n.Sel.Name)
			}
		case *ast.AssignStmt:
			for _, l := range n.Lhs {
				if strings.HasPrefix(f.Src(l), recv+".") {
					writes = true
				}
			}
		case *ast.IncDecStmt:
			if strings.HasPrefix(f.Src(n.X), recv+".") {
				writes = true
			}
		}
		return true
	})
	w.DefStrList("pac_find_proxy_receiver_fields", fields)
	w.DefBool("pac_find_proxy_writes_receiver", writes)
	if !hasCall(f, fd.Body, recv+".fn(goja.Undefined(), "+recv+".vm.ToValue(u.String()), "+recv+".vm.ToValue(hostname))") {
		return fmt.Errorf("pac.go FindProxyForURL: the script call pr.fn(goja.Undefined(), pr.vm.ToValue(u.String()), pr.vm.ToValue(hostname)) not found")
	}
	if !strings.Contains(f.Src(fd.Body), `if hostname == "" { hostname = u.Hostname() }`) {
		return fmt.Errorf("pac.go FindProxyForURL: `if hostname == \"\" { hostname = u.Hostname() }` not found")
	}
	return nil
}
