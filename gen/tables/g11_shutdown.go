package main

import (
	"fmt"
	"go/ast"
	"io/fs"
	"os"
	"path/filepath"
	"sort"
	"strings"
)

// genG11Shutdown extracts the code shapes the C11 LTS (coq/g11/Shutdown.v) transcribes:
// the order of registration / defers / closing checks in handleLoop, handle and writeResponse,
// the lock scope and exits of Shutdown and Close, and the order of calls in forwarder's run.
// Every top-level statement is mapped to a tag; a statement that is not recognised becomes
// "?:<source>", so that a new statement between two known ones breaks the obligation by name.
func genG11Shutdown(repo string, w *Out) error {
	w.Linef("(* ---- C11: registry, shutdown, close ---- *)")
	px, err := Parse(repo, "internal/martian/proxy.go")
	if err != nil {
		return err
	}
	tagOf := func(f *File, s ast.Stmt, rules [][2]string) string {
		src := f.Src(s)
		for _, r := range rules {
			if r[0] == src || (strings.HasSuffix(r[0], "*") && strings.HasPrefix(src, strings.TrimSuffix(r[0], "*"))) ||
				(strings.HasPrefix(r[0], "~") && strings.Contains(src, r[0][1:])) {
				return r[1]
			}
		}
		// a statement the model does not know: harmless ("other") unless it touches anything the
		// shutdown logic depends on (closing signal, res.Close, registry, counter, lock, control flow)
		sensitive := false
		for _, tok := range []string{"closing", "res.Close", "connsMu", "connsWg", "p.conns", "closeCh", "closeOnce", "conn.Close",
			"return", "defer", "go ", "goto", "break", "continue", "panic", "errClose", "Shutdown", "hp.Close", "ctx"} {
			if strings.Contains(src, tok) {
				sensitive = true
			}
		}
		if !sensitive {
			return "other"
		}
		if len(src) > 70 {
			src = src[:70]
		}
		return "?:" + src
	}
	progOf := func(f *File, fn string, rules [][2]string) ([]string, error) {
		fd, err := f.Func(fn)
		if err != nil {
			return nil, err
		}
		var out []string
		for _, s := range fd.Body.List {
			out = append(out, tagOf(f, s, rules))
		}
		return out, nil
	}

	// ---- handleLoop
	hl, err := progOf(px, "Proxy.handleLoop", [][2]string{
		{"start := time.Now()", "start"},
		{"p.connsMu.Lock()", "lock"},
		{"p.conns[conn] = struct{}{}", "conns-add"},
		{"p.connsWg.Add(1)", "cnt-inc"},
		{"p.connsMu.Unlock()", "unlock"},
		{"defer func() { p.connsMu.Lock() delete(p.conns, conn) p.connsMu.Unlock() }()", "defer:delete-under-lock"},
		{"defer p.connsWg.Add(-1)", "defer:cnt-dec"},
		{"defer conn.Close()", "defer:conn-close"},
		{"if p.closing() { return }", "closing-check-return"},
		{"pc := newProxyConn(p, conn)", "new-proxy-conn"},
		{"if err := pc.maybeHandshakeTLS(); err != nil {*", "handshake"},
		{"const maxConsecutiveErrors = 5", "const"},
		{"errorsN := 0", "const"},
		{"for { if err := pc.handle(); err != nil {*", "loop"},
		{"~conn.RemoteAddr()", "addr"}, // any other statement that reads the peer address (today: the "accepted connection" log line)
	})
	if err != nil {
		return err
	}
	w.DefStrList("handleloop_prog", hl)

	// the serving loop leaves only through `return` (so the defers run): no break / goto
	hlf, _ := px.Func("Proxy.handleLoop")
	escapes := false
	ast.Inspect(hlf.Body, func(x ast.Node) bool {
		if bs, ok := x.(*ast.BranchStmt); ok && (bs.Tok.String() == "goto" || bs.Tok.String() == "break") {
			escapes = true
		}
		return true
	})
	w.DefBool("handleloop_leaves_by_return_only", !escapes)

	// ---- handle
	pc, err := Parse(repo, "internal/martian/proxy_conn.go")
	if err != nil {
		return err
	}
	hd, err := progOf(pc, "proxyConn.handle", [][2]string{
		{"req, err := p.readRequest()", "read-request"},
		{"p.traceReadRequest(req, err)", "trace-read"},
		{"if err != nil { if errors.Is(err, io.EOF) { return errClose }*", "read-error-return-errClose"},
		{"defer req.Body.Close()", "defer:body-close"},
		{"if p.closing() { return errClose }", "closing-check-errClose"},
		{"if req.Method == http.MethodConnect { return p.handleConnectRequest(req) }", "connect-branch"},
		{"ctx := req.Context()", "ctx"},
		{"p.fixRequestScheme(req)", "fix-scheme"},
		{"reqUpType := upgradeType(req.Header)", "upgrade-type"},
		{"if reqUpType != \"\" {*", "upgrade-hdr"},
		{"if err := p.modifyRequest(req); err != nil {*", "modify-request"},
		{"res, err := p.roundTrip(req)", "round-trip"},
		{"if err != nil { if isClosedConnError(err) {*", "round-trip-error-response"},
		{"defer res.Body.Close()", "defer:res-body-close"},
		{"res.Request = req", "res-request"},
		{"resUpType := upgradeType(res.Header)", "upgrade-type"},
		{"if resUpType != \"\" {*", "upgrade-hdr"},
		{"if err := p.modifyResponse(res); err != nil {*", "modify-response"},
		{"if res.StatusCode == http.StatusSwitchingProtocols { return p.handleUpgradeResponse(res) }", "upgrade-branch"},
		{"return p.writeResponse(res)", "write-response"},
	})
	if err != nil {
		return err
	}
	w.DefStrList("handle_prog", hd)

	// ---- writeResponse: where res.Close is decided and used
	wrName := "proxyConn.writeResponse"
	if fd, err := pc.Func("proxyConn.writeResponse"); err == nil {
		switch got := pc.Src(fd.Body); got {
		case "{ return p.writeResponseDeferTrace(res, false) }":
			wrName = "proxyConn.writeResponseDeferTrace"
		default:
			if !strings.Contains(got, "p.closing()") {
				return fmt.Errorf("writeResponse: body %q neither decides res.Close itself nor is the known wrapper", got)
			}
		}
	}
	wr, err := progOf(pc, wrName, [][2]string{
		{"req := res.Request", "req"},
		{"ctx := req.Context()", "ctx"},
		{"if p.WriteTimeout > 0 {*", "write-deadline"},
		{"if p.closing() { res.Close = true } else {*", "decide-close-if-closing"},
		{"if res.Close { res.Header.Add(\"Connection\", \"close\") }", "close-header"},
		{"var err error", "var"},
		{"switch { case req.Method == http.MethodConnect && res.StatusCode/100 == 2: err = writeConnectOKResponse(p.brw.Writer)*", "write"},
		{"if err != nil { p.brw.Flush()*", "flush"},
		{"if !skipTraceWroteResponse(res, err) { p.traceWroteResponse(res, err) }", "trace-wrote"},
		{"if !(deferTrace && skipTraceWroteResponse(res, err)) { p.traceWroteResponse(res, err) }", "trace-wrote"},
		{"if res.ContentLength == -1 && !isHeaderOnlySpec(res) &&*", "unknown-length-framing"},
		{"if err != nil { if isClosedConnError(err) {*", "write-error-return-errClose"},
		{"if res.Close { log.Debug(ctx, \"closing connection\") return errClose }", "close-return-errClose"},
		{"return nil", "return-nil"},
	})
	if err != nil {
		return err
	}
	w.DefStrList("write_response_prog", wr)

	// ---- Shutdown / Close / closing
	sd, err := progOf(px, "Proxy.Shutdown", [][2]string{
		{"p.init()", "init"},
		{"log.Info(*", "log"},
		{"p.connsMu.Lock()", "lock"},
		{"defer p.connsMu.Unlock()", "defer:unlock"},
		{"p.closeOnce.Do(func() { close(p.closeCh) })", "close-once"},
		{"const shutdownPollIntervalMax*", "poll-setup"},
		{"pollIntervalBase := time.Millisecond", "poll-setup"},
		{"nextPollInterval := func() time.Duration {*", "poll-setup"},
		{"timer := time.NewTimer(nextPollInterval())", "poll-setup"},
		{"defer timer.Stop()", "poll-setup"},
		{"for { if n := p.connsWg.Load(); n == 0 { log.Info(context.TODO(), \"all connections closed\") return nil } select { case <-ctx.Done(): return ctx.Err() case <-timer.C: timer.Reset(nextPollInterval()) } }", "poll:zero-return-nil|ctx-done-return-err"},
	})
	if err != nil {
		return err
	}
	w.DefStrList("shutdown_prog", sd)
	cl, err := progOf(px, "Proxy.Close", [][2]string{
		{"p.init()", "init"},
		{"p.connsMu.Lock()", "lock"},
		{"defer p.connsMu.Unlock()", "defer:unlock"},
		{"p.closeOnce.Do(func() { close(p.closeCh) })", "close-once"},
		{"var err error", "var"},
		{"for conn := range p.conns { if e := conn.Close(); e != nil { err = multierr.Append(err, e) } }", "range-conns-close"},
		{"for conn := range p.conns { if e := conn.Close(); e != nil { err = multierr.Append(err, e) } if tconn, ok := conn.(*tls.Conn); ok { tconn.NetConn().Close() } }", "range-conns-close-and-socket-under-tls"},
		{"return err", "return"},
	})
	if err != nil {
		return err
	}
	w.DefStrList("close_prog", cl)
	cg, err := px.Func("Proxy.closing")
	if err != nil {
		return err
	}
	w.DefStr("closing_body", px.Src(cg.Body))

	// ---- Serve: exits of the accept loop
	sv, err := px.Func("Proxy.Serve")
	if err != nil {
		return err
	}
	if len(sv.Body.List) == 0 || px.Src(sv.Body.List[0]) != "defer l.Close()" {
		return fmt.Errorf("Serve: does not start with `defer l.Close()`")
	}
	w.DefBool("serve_defers_listener_close", true)

	// ---- forwarder's run: the order of the shutdown sequence
	hp, err := Parse(repo, "http_proxy.go")
	if err != nil {
		return err
	}
	run, err := hp.Func("HTTPProxy.run")
	if err != nil {
		return err
	}
	var seq []string
	var first *ast.FuncLit
	ast.Inspect(run.Body, func(x ast.Node) bool {
		if fl, ok := x.(*ast.FuncLit); ok && first == nil {
			first = fl
			return false
		}
		return true
	})
	if first == nil {
		return fmt.Errorf("run: shutdown goroutine not found")
	}
	for _, s := range first.Body.List {
		seq = append(seq, tagOf(hp, s, [][2]string{
			{"<-ctx.Done()", "wait-ctx"},
			{"ctxErr := ctx.Err()", "ctx-err"},
			{"if err := hp.Close(); err != nil {*", "close-listeners"},
			{"ctx, cancel := shutdownContext(hp.config.shutdownConfig)", "shutdown-context"},
			{"defer cancel()", "defer:cancel"},
			{"if err := hp.proxy.Shutdown(ctx); err != nil { hp.log.Debug(\"failed to gracefully shutdown server\", \"error\", err) if err := hp.proxy.Close(); err != nil {*", "shutdown-else-close"},
			{"if tr, ok := hp.transport.(*http.Transport); ok { tr.CloseIdleConnections() }", "close-idle-upstream"},
			{"return ctxErr", "return-ctx-err"},
		}))
	}
	w.DefStrList("run_prog", seq)
	sf, err := Parse(repo, "shutdown.go")
	if err != nil {
		return err
	}
	dsc, err := sf.Func("defaultShutdownConfig")
	if err != nil {
		return err
	}
	var stms int64
	if e, ok := sf.kvIn(dsc.Body)["ShutdownTimeout"]; ok {
		if stms, err = sf.durMs(e); err != nil {
			return err
		}
	}
	w.DefZ("default_shutdown_timeout_ms", stms)
	// shutdownContext: the timeout is applied only when it is positive (zero = no limit), further
	// shutdown signals cancel the drain only when some are configured
	sc, err := sf.Func("shutdownContext")
	if err != nil {
		return err
	}
	tmoGuard, sigGuard, tmoAny := false, false, false
	ast.Inspect(sc.Body, func(x ast.Node) bool {
		switch n := x.(type) {
		case *ast.IfStmt:
			body := sf.Src(n.Body)
			if sf.Src(n.Cond) == "cfg.ShutdownTimeout > 0" && strings.Contains(body, "context.WithTimeout(ctx, cfg.ShutdownTimeout)") {
				tmoGuard = true
			}
			if sf.Src(n.Cond) == "len(cfg.ShutdownSignals) > 0" && strings.Contains(body, "signal.NotifyContext(ctx, cfg.ShutdownSignals...)") {
				sigGuard = true
			}
		case *ast.CallExpr:
			if sf.Src(n.Fun) == "context.WithTimeout" {
				tmoAny = true
			}
		}
		return true
	})
	if !tmoAny {
		return fmt.Errorf("shutdownContext: no context.WithTimeout found")
	}
	w.DefBool("shutdown_timeout_guarded", tmoGuard)
	w.DefBool("shutdown_signals_guarded", sigGuard)

	// ---- HTTP/2 inside an intercepted (MITM) session: h2.Config.Proxy(closeCh, ...) ends BOTH relays the
	// moment the closing signal is set (streams in flight are cut) — a path the LTS does not have.  It is
	// reachable only if some production code calls mitm.Config.SetH2Config; list the callers.
	var h2callers []string
	filepath.WalkDir(repo, func(path string, d fs.DirEntry, err error) error { //nolint:errcheck
		if err != nil {
			return nil
		}
		rel, _ := filepath.Rel(repo, path)
		if d.IsDir() {
			if strings.HasPrefix(d.Name(), ".") || rel == "internal/martian/h2/testing" || rel == "e2e" || rel == "verifhook" {
				return filepath.SkipDir
			}
			return nil
		}
		if !strings.HasSuffix(path, ".go") || strings.HasSuffix(path, "_test.go") || strings.HasPrefix(d.Name(), "zz_verif") {
			return nil
		}
		b, err := os.ReadFile(path)
		if err == nil && strings.Contains(string(b), ".SetH2Config(") {
			h2callers = append(h2callers, rel)
		}
		return nil
	})
	sort.Strings(h2callers)
	w.DefStrList("h2_in_mitm_enabled_by", h2callers)
	// multiple listeners: run() starts one Serve per listener on the same martian.Proxy
	runSrc := hp.Src(run.Body)
	w.DefBool("run_serves_every_listener_on_one_proxy",
		strings.Contains(runSrc, "for i := range hp.listeners") && strings.Contains(runSrc, "hp.proxy.Serve(l)"))

	// ---- the exported count of open connections (gauge listener_cx_active), model coq/g11/Gauge.v:
	// Listener.Accept increments it and wraps the connection so that closing it decrements it once
	ct, err := Parse(repo, "conntrack/conntrack.go")
	if err != nil {
		return err
	}
	clc, err := ct.Func("closeListener.Close")
	if err != nil {
		return err
	}
	var closeProg []string
	for _, st := range clc.Body.List {
		closeProg = append(closeProg, strings.Join(strings.Fields(ct.Src(st)), " "))
	}
	w.DefStrList("conntrack_close_prog", closeProg)
	cc, err := ct.Func("closeConn.Close")
	if err != nil {
		return err
	}
	w.DefStr("conntrack_conn_close_body", strings.Join(strings.Fields(ct.Src(cc.Body)), " "))
	nf, err := Parse(repo, "net.go")
	if err != nil {
		return err
	}
	la, err := nf.Func("Listener.Accept")
	if err != nil {
		return err
	}
	// statements of Accept that touch the metrics or wrap the connection, in order
	var accProg []string
	for _, st := range la.Body.List {
		src := strings.Join(strings.Fields(nf.Src(st)), " ")
		switch {
		case strings.HasPrefix(src, "conn, err := l.listener.Accept()"):
			accProg = append(accProg, "accept")
		case strings.HasPrefix(src, "if err != nil {") && strings.Contains(src, "return nil, err"):
			accProg = append(accProg, "error-return")
		case src == "l.metrics.accept()":
			accProg = append(accProg, "metrics-accept")
		case strings.HasPrefix(src, "conn = conntrack.Builder{") && strings.Contains(src, "OnClose: l.metrics.close,") && strings.HasSuffix(src, "}.Build(conn)"):
			accProg = append(accProg, "wrap-onclose-metrics-close")
		case strings.Contains(src, "metrics") || strings.Contains(src, "conntrack"):
			accProg = append(accProg, "?:"+src)
		}
	}
	w.DefStrList("listener_accept_gauge_prog", accProg)
	nm, err := Parse(repo, "net_metrics.go")
	if err != nil {
		return err
	}
	for _, x := range []struct{ fn, def string }{{"listenerMetrics.accept", "metrics_accept_prog"}, {"listenerMetrics.close", "metrics_close_prog"}} {
		fd, err := nm.Func(x.fn)
		if err != nil {
			return err
		}
		var prog []string
		for _, st := range fd.Body.List {
			prog = append(prog, strings.Join(strings.Fields(nm.Src(st)), " "))
		}
		w.DefStrList(x.def, prog)
	}
	return nil
}
