package main

import (
	"fmt"
	"go/ast"
	"sort"
	"strings"
)

// g12IndexSites lists every place where the functions transcribed by group g12 can panic by themselves:
// index expressions x[i], slice expressions x[i:j], and type assertions x.(T) (marked "ok" when in the
// two-value form, "unchecked" otherwise).  Each site is "file:func: source"; the Coq side must have a
// stated obligation for every one of them (Indexing.v), so a new site makes an obligation fail.
func g12IndexSites(repo string, w *Out) error {
	scope := []struct {
		file  string
		funcs []string // empty = every function of the file
	}{
		{"internal/martian/proxy_conn.go", nil},
		{"internal/martian/proxy_connect.go", []string{"OnProxyConnectResponse", "?onProxyConnectResponse", "?readAllWithin", "maybeConnectErrorResponse", "Proxy.connectHTTP", "Proxy.Connect", "newConnectResponse", "writeConnectOKResponse"}},
		{"internal/martian/proxy.go", []string{"Proxy.handleLoop", "Proxy.errorResponse", "Proxy.roundTrip", "upgradeType", "Proxy.modifyRequest", "Proxy.modifyResponse", "Proxy.shouldMITM"}},
		{"internal/martian/proxy_trace.go", nil},
		{"internal/martian/errors.go", nil},
		{"http_proxy_errors.go", nil},
		{"conntrack/conntrack.go", []string{"closeListener.Close", "closeConn.Close", "conn.Read", "conn.Write", "conn.ReadFrom"}},
		{"middleware/prometheus.go", []string{"Prometheus.ReadRequest", "Prometheus.WroteResponse", "Prometheus.labels"}},
		{"net_metrics.go", nil},
		{"net.go", []string{"Listener.Accept", "Dialer.DialContext"}},
		{"dialvia/http.go", []string{"byteReader.Read"}},
	}
	var idx, ta []string
	for _, sc := range scope {
		f, err := Parse(repo, sc.file)
		if err != nil {
			return err
		}
		want := map[string]bool{}
		optional := map[string]bool{}
		for _, n := range sc.funcs {
			if strings.HasPrefix(n, "?") { // present only in some shapes of the source
				n = n[1:]
				optional[n] = true
			}
			want[n] = true
		}
		found := map[string]bool{}
		for _, d := range f.AST.Decls {
			fd, ok := d.(*ast.FuncDecl)
			if !ok || fd.Body == nil {
				continue
			}
			name := fd.Name.Name
			if fd.Recv != nil && len(fd.Recv.List) == 1 {
				t := fd.Recv.List[0].Type
				if s, ok := t.(*ast.StarExpr); ok {
					t = s.X
				}
				if id, ok := t.(*ast.Ident); ok {
					name = id.Name + "." + name
				}
			}
			if len(want) > 0 && !want[name] {
				continue
			}
			found[name] = true
			// two-value type assertions
			okForm := map[*ast.TypeAssertExpr]bool{}
			ast.Inspect(fd.Body, func(x ast.Node) bool {
				switch n := x.(type) {
				case *ast.AssignStmt:
					if len(n.Lhs) == 2 && len(n.Rhs) == 1 {
						if t, ok := n.Rhs[0].(*ast.TypeAssertExpr); ok {
							okForm[t] = true
						}
					}
				case *ast.ValueSpec:
					if len(n.Names) == 2 && len(n.Values) == 1 {
						if t, ok := n.Values[0].(*ast.TypeAssertExpr); ok {
							okForm[t] = true
						}
					}
				case *ast.TypeSwitchStmt:
					ast.Inspect(n.Assign, func(y ast.Node) bool {
						if t, ok := y.(*ast.TypeAssertExpr); ok {
							okForm[t] = true
						}
						return true
					})
				}
				return true
			})
			ast.Inspect(fd.Body, func(x ast.Node) bool {
				switch n := x.(type) {
				case *ast.IndexExpr:
					idx = append(idx, fmt.Sprintf("%s:%s: %s", sc.file, name, f.Src(n)))
				case *ast.SliceExpr:
					idx = append(idx, fmt.Sprintf("%s:%s: %s", sc.file, name, f.Src(n)))
				case *ast.TypeAssertExpr:
					form := "unchecked"
					if okForm[n] {
						form = "ok"
					}
					ta = append(ta, fmt.Sprintf("%s %s:%s: %s", form, sc.file, name, f.Src(n)))
				}
				return true
			})
		}
		for n := range want {
			if !found[n] && !optional[n] {
				return fmt.Errorf("%s: func %s not found (index-site scan)", sc.file, n)
			}
		}
	}
	sort.Strings(idx)
	sort.Strings(ta)
	w.Linef("(* every index / slice expression in the transcribed functions *)")
	w.DefStrList("index_sites", idx)
	w.Linef("(* every type assertion in the transcribed functions: two-value form (ok) or panicking form (unchecked) *)")
	w.DefStrList("type_assert_sites", ta)
	// the buffer handed to dialvia's byteReader: bufio.NewReaderSize(byteReader{conn}, N)
	df, err := Parse(repo, "dialvia/http.go")
	if err != nil {
		return err
	}
	size := int64(-1)
	ast.Inspect(df.AST, func(x ast.Node) bool {
		ce, ok := x.(*ast.CallExpr)
		if !ok || df.Src(ce.Fun) != "bufio.NewReaderSize" || len(ce.Args) != 2 {
			return true
		}
		if strings.HasPrefix(df.Src(ce.Args[0]), "byteReader{") {
			if v, ok := IntLit(ce.Args[1]); ok {
				size = v
			}
		}
		return true
	})
	if size < 0 {
		return fmt.Errorf("dialvia/http.go: bufio.NewReaderSize(byteReader{...}, N) not found")
	}
	w.DefN("byte_reader_buffer_size", uint64(size))
	// the literals tlsRecordHeaderLooksLikeHTTP compares the 5-byte record header with
	ef, err := Parse(repo, "http_proxy_errors.go")
	if err != nil {
		return err
	}
	fd, err := ef.Func("tlsRecordHeaderLooksLikeHTTP")
	if err != nil {
		return err
	}
	var lits []string
	ast.Inspect(fd.Body, func(x ast.Node) bool {
		if bl, ok := x.(*ast.BasicLit); ok {
			if s, ok := StringLit(bl); ok {
				lits = append(lits, s)
			}
		}
		return true
	})
	w.DefStrList("record_header_prefixes", lits)
	return nil
}
