package main

import (
	"fmt"
	"go/ast"
	"go/token"
	"strings"
)

func init() { register("g20", genG20) }

// g20ConstInt evaluates an integer constant expression made of literals, parentheses and * + - << /.
func g20ConstInt(e ast.Expr) (int64, bool) {
	switch x := e.(type) {
	case *ast.BasicLit:
		return IntLit(x)
	case *ast.ParenExpr:
		return g20ConstInt(x.X)
	case *ast.BinaryExpr:
		a, ok1 := g20ConstInt(x.X)
		b, ok2 := g20ConstInt(x.Y)
		if !ok1 || !ok2 {
			return 0, false
		}
		switch x.Op {
		case token.MUL:
			return a * b, true
		case token.ADD:
			return a + b, true
		case token.SUB:
			return a - b, true
		case token.SHL:
			return a << uint(b), true
		case token.QUO:
			if b == 0 {
				return 0, false
			}
			return a / b, true
		}
	}
	return 0, false
}

func g20Stmts(f *File, ss []ast.Stmt) []string {
	out := make([]string, len(ss))
	for i, s := range ss {
		out[i] = f.Src(s)
	}
	return out
}

// genG20 reads ratelimit/{ratelimit,listener,conn}.go, net.go and bind/flag.go.
func genG20(repo string, w *Out) error {
	// ---------------------------------------------------------------- ratelimit.go
	rf, err := Parse(repo, "ratelimit/ratelimit.go")
	if err != nil {
		return err
	}
	dmb, err := rf.ValueSpec("defaultMaxBurstSize")
	if err != nil {
		return err
	}
	dv, ok := g20ConstInt(dmb)
	if !ok || dv <= 0 {
		return fmt.Errorf("ratelimit.go: defaultMaxBurstSize %q is not an integer constant expression", rf.Src(dmb))
	}
	w.DefN("default_max_burst", uint64(dv))
	nrl, err := rf.Func("newRateLimiter")
	if err != nil {
		return err
	}
	st := g20Stmts(rf, nrl.Body.List)
	if len(nrl.Type.Params.List) != 1 || len(nrl.Type.Params.List[0].Names) != 1 || nrl.Type.Params.List[0].Names[0].Name != "bandwidth" {
		return fmt.Errorf("newRateLimiter: parameter list is not (bandwidth int64)")
	}
	// maxBurstSize := bandwidth / <divisor>
	var div int64
	if len(st) < 2 {
		return fmt.Errorf("newRateLimiter: body %q is not a shape the model knows", st)
	}
	if as, ok := nrl.Body.List[0].(*ast.AssignStmt); ok && len(as.Lhs) == 1 && len(as.Rhs) == 1 && rf.Src(as.Lhs[0]) == "maxBurstSize" {
		be, ok := as.Rhs[0].(*ast.BinaryExpr)
		if !ok || be.Op != token.QUO || rf.Src(be.X) != "bandwidth" {
			return fmt.Errorf("newRateLimiter: first statement %q is not `maxBurstSize := bandwidth / <const>`", st[0])
		}
		div, ok = g20ConstInt(be.Y)
		if !ok || div <= 0 {
			return fmt.Errorf("newRateLimiter: divisor %q is not a positive integer constant", rf.Src(be.Y))
		}
	} else {
		return fmt.Errorf("newRateLimiter: first statement %q is not `maxBurstSize := bandwidth / <const>`", st[0])
	}
	w.DefN("burst_divisor", uint64(div))
	rest := st[1:]
	floorMax := false
	if len(rest) == 2 {
		switch rest[0] {
		case "if maxBurstSize < defaultMaxBurstSize { maxBurstSize = defaultMaxBurstSize }",
			"if maxBurstSize <= defaultMaxBurstSize { maxBurstSize = defaultMaxBurstSize }",
			"if defaultMaxBurstSize > maxBurstSize { maxBurstSize = defaultMaxBurstSize }",
			"maxBurstSize = max(maxBurstSize, defaultMaxBurstSize)":
			floorMax = true
		default:
			return fmt.Errorf("newRateLimiter: statement %q is not the burst floor the model knows", rest[0])
		}
		rest = rest[1:]
	}
	w.DefBool("burst_floor_is_max", floorMax)
	if len(rest) != 1 || rest[0] != "return rate.NewLimiter(rate.Limit(bandwidth), int(maxBurstSize))" {
		return fmt.Errorf("newRateLimiter: tail %q is not `return rate.NewLimiter(rate.Limit(bandwidth), int(maxBurstSize))`", rest)
	}
	w.DefBool("limiter_args_rate_then_burst", true)

	// ---------------------------------------------------------------- listener.go
	lf, err := Parse(repo, "ratelimit/listener.go")
	if err != nil {
		return err
	}
	nl, err := lf.Func("NewListener")
	if err != nil {
		return err
	}
	var pnames []string
	for _, p := range nl.Type.Params.List {
		for _, n := range p.Names {
			pnames = append(pnames, n.Name)
		}
	}
	if strings.Join(pnames, ",") != "l,readLimit,writeLimit" {
		return fmt.Errorf("NewListener: parameters %q are not (l, readLimit, writeLimit)", pnames)
	}
	feeds := map[string]string{} // limit parameter -> limiter variable
	guard := map[string]token.Token{}
	var retLit *ast.CompositeLit
	for _, s := range nl.Body.List {
		switch x := s.(type) {
		case *ast.IfStmt:
			be, ok := x.Cond.(*ast.BinaryExpr)
			if !ok || x.Init != nil || x.Else != nil || lf.Src(be.Y) != "0" {
				return fmt.Errorf("NewListener: if %q is not `<limit> <op> 0`", lf.Src(x.Cond))
			}
			lim := lf.Src(be.X)
			if lim != "readLimit" && lim != "writeLimit" {
				return fmt.Errorf("NewListener: guard %q tests neither readLimit nor writeLimit", lf.Src(x.Cond))
			}
			if len(x.Body.List) != 1 {
				return fmt.Errorf("NewListener: body of `if %s` has %d statements", lf.Src(x.Cond), len(x.Body.List))
			}
			as, ok := x.Body.List[0].(*ast.AssignStmt)
			if !ok || len(as.Lhs) != 1 || len(as.Rhs) != 1 || lf.Src(as.Rhs[0]) != "newRateLimiter("+lim+")" {
				return fmt.Errorf("NewListener: body %q of `if %s` is not `<limiter> = newRateLimiter(%s)`", lf.Src(x.Body.List[0]), lf.Src(x.Cond), lim)
			}
			v := lf.Src(as.Lhs[0])
			if _, dup := feeds[lim]; dup {
				return fmt.Errorf("NewListener: %s is tested twice", lim)
			}
			feeds[lim] = v
			guard[lim] = be.Op
		case *ast.ReturnStmt:
			if len(x.Results) == 1 {
				if ue, ok := x.Results[0].(*ast.UnaryExpr); ok && ue.Op == token.AND {
					retLit, _ = ue.X.(*ast.CompositeLit)
				}
			}
		case *ast.DeclStmt:
			gd, _ := x.Decl.(*ast.GenDecl)
			okDecl := false
			if gd != nil && gd.Tok == token.VAR && len(gd.Specs) == 1 {
				if vs, ok := gd.Specs[0].(*ast.ValueSpec); ok && len(vs.Values) == 0 && len(vs.Names) == 2 && lf.Src(vs.Type) == "*rate.Limiter" {
					okDecl = true
				}
			}
			if !okDecl {
				return fmt.Errorf("NewListener: declaration %q is not `var <a>, <b> *rate.Limiter`", lf.Src(x))
			}
		default:
			return fmt.Errorf("NewListener: statement %q is not a shape the model knows", lf.Src(s))
		}
	}
	if len(feeds) != 2 || feeds["readLimit"] == feeds["writeLimit"] {
		return fmt.Errorf("NewListener: limits feed %v, expected one limiter each", feeds)
	}
	if guard["readLimit"] != guard["writeLimit"] {
		return fmt.Errorf("NewListener: the two guards use different operators")
	}
	switch guard["readLimit"] {
	case token.GTR:
		w.DefN("limit_guard_kind", 0)
	case token.GEQ:
		w.DefN("limit_guard_kind", 1)
	case token.NEQ:
		w.DefN("limit_guard_kind", 2)
	default:
		return fmt.Errorf("NewListener: guard operator %s is not a shape the model knows", guard["readLimit"])
	}
	fieldsOf := func(cl *ast.CompositeLit, f *File) map[string]string {
		m := map[string]string{}
		if cl == nil {
			return m
		}
		for _, e := range cl.Elts {
			if kv, ok := e.(*ast.KeyValueExpr); ok {
				m[f.Src(kv.Key)] = f.Src(kv.Value)
			}
		}
		return m
	}
	lm := fieldsOf(retLit, lf)
	if lm["Listener"] != "l" {
		return fmt.Errorf("NewListener: returned literal %v does not embed l", lm)
	}
	// which struct field each limit ends up in (through the local variable it is assigned to)
	fieldOf := func(v string) string {
		switch {
		case lm["rxLimiter"] == v && lm["txLimiter"] != v:
			return "rxLimiter"
		case lm["txLimiter"] == v && lm["rxLimiter"] != v:
			return "txLimiter"
		}
		return ""
	}
	rfield, wfield := fieldOf(feeds["readLimit"]), fieldOf(feeds["writeLimit"])
	if rfield == "" || wfield == "" || rfield == wfield {
		return fmt.Errorf("NewListener: limits feed %v and the returned literal is %v: not one limiter field each", feeds, lm)
	}
	w.DefBool("read_limit_feeds_tx", rfield == "txLimiter")
	w.DefBool("write_limit_feeds_rx", wfield == "rxLimiter")
	w.DefBool("listener_fields_straight", true) // folded into the two flags above
	ac, err := lf.Func("Listener.Accept")
	if err != nil {
		return err
	}
	var combine *ast.CallExpr
	ast.Inspect(ac.Body, func(n ast.Node) bool {
		if ce, ok := n.(*ast.CallExpr); ok && strings.HasPrefix(lf.Src(ce.Fun), "connfu.") {
			combine = ce
		}
		return true
	})
	if combine == nil || lf.Src(combine.Fun) != "connfu.CombineWithConfig" || len(combine.Args) != 3 ||
		lf.Src(combine.Args[1]) != "c" || lf.Src(combine.Args[2]) != "connfu.Config{}" {
		return fmt.Errorf("Accept: connfu.CombineWithConfig(&Conn{...}, c, connfu.Config{}) not found")
	}
	var connLit *ast.CompositeLit
	if ue, ok := combine.Args[0].(*ast.UnaryExpr); ok && ue.Op == token.AND {
		connLit, _ = ue.X.(*ast.CompositeLit)
	}
	cm := fieldsOf(connLit, lf)
	if connLit == nil || lf.Src(connLit.Type) != "Conn" || cm["Conn"] != "c" {
		return fmt.Errorf("Accept: first argument is not &Conn{Conn: c, ...}: %v", cm)
	}
	switch {
	case cm["rxLimiter"] == "l.rxLimiter" && cm["txLimiter"] == "l.txLimiter":
		w.DefBool("accept_fields_straight", true)
	case cm["rxLimiter"] == "l.txLimiter" && cm["txLimiter"] == "l.rxLimiter":
		w.DefBool("accept_fields_straight", false)
	default:
		return fmt.Errorf("Accept: Conn literal %v is not a shape the model knows", cm)
	}
	w.DefBool("accept_hides_readfrom_writeto", true) // connfu.Config{}: no optional method is passed through

	// ---------------------------------------------------------------- conn.go
	cf, err := Parse(repo, "ratelimit/conn.go")
	if err != nil {
		return err
	}
	// the wait is unconditional: WaitN is given the package-level context.Background() (no deadline, never cancelled)
	waitUnconditional := true
	if wc, err := cf.ValueSpec("waitContext"); err != nil || cf.Src(wc) != "context.Background()" {
		waitUnconditional = false
	}
	type connShape struct {
		limiter               string
		ioFirst, retN, guardN bool
	}
	shape := func(method string) (connShape, error) {
		var cs connShape
		fd, err := cf.Func("Conn." + method)
		if err != nil {
			return cs, err
		}
		ss := fd.Body.List
		io := "n, err = c.Conn." + method + "(b)"
		if len(ss) != 3 || cf.Src(ss[2]) != "return" {
			return cs, fmt.Errorf("Conn.%s: body %q is not a shape the model knows", method, g20Stmts(cf, ss))
		}
		var resNames []string
		if fd.Type.Results != nil {
			for _, fl := range fd.Type.Results.List {
				for _, nm := range fl.Names {
					resNames = append(resNames, nm.Name+" "+cf.Src(fl.Type))
				}
			}
		}
		if strings.Join(resNames, ", ") != "n int, err error" {
			return cs, fmt.Errorf("Conn.%s: results are not (n int, err error)", method)
		}
		var ifs *ast.IfStmt
		switch {
		case cf.Src(ss[0]) == io:
			cs.ioFirst = true
			ifs, _ = ss[1].(*ast.IfStmt)
		case cf.Src(ss[1]) == io:
			ifs, _ = ss[0].(*ast.IfStmt)
		}
		if ifs == nil || ifs.Init != nil || ifs.Else != nil || len(ifs.Body.List) != 1 {
			return cs, fmt.Errorf("Conn.%s: body %q is not a shape the model knows", method, g20Stmts(cf, ss))
		}
		cond := cf.Src(ifs.Cond)
		call := cf.Src(ifs.Body.List[0])
		for _, lim := range []string{"rxLimiter", "txLimiter"} {
			for _, g := range []struct {
				c      string
				guardN bool
			}{{"n > 0 && c." + lim + " != nil", true}, {"c." + lim + " != nil && n > 0", true}, {"c." + lim + " != nil", false}} {
				if cond != g.c {
					continue
				}
				switch call {
				case "c." + lim + ".WaitN(waitContext, n)":
					cs.limiter, cs.retN, cs.guardN = lim, true, g.guardN
					return cs, nil
				case "c." + lim + ".WaitN(waitContext, len(b))":
					cs.limiter, cs.retN, cs.guardN = lim, false, g.guardN
					return cs, nil
				}
			}
		}
		// the limiter is consulted, but not by a plain WaitN(waitContext, n): a helper, another context, a deadline
		for _, lim := range []string{"rxLimiter", "txLimiter"} {
			if strings.Contains(cond, "c."+lim+" != nil") && strings.Contains(call, "c."+lim) {
				cs.limiter, cs.retN, cs.guardN = lim, strings.Contains(call, ", n)"), strings.Contains(cond, "n > 0")
				waitUnconditional = false
				return cs, nil
			}
		}
		return cs, fmt.Errorf("Conn.%s: `if %s { %s }` is not a shape the model knows", method, cond, call)
	}
	rs, err := shape("Read")
	if err != nil {
		return err
	}
	ws, err := shape("Write")
	if err != nil {
		return err
	}
	w.DefBool("conn_read_charges_rx", rs.limiter == "rxLimiter")
	w.DefBool("conn_write_charges_tx", ws.limiter == "txLimiter")
	w.DefBool("conn_io_before_wait", rs.ioFirst && ws.ioFirst)
	w.DefBool("conn_charges_returned_n", rs.retN && ws.retN)
	w.DefBool("conn_guard_n_positive", rs.guardN && ws.guardN)
	w.DefBool("conn_returns_inner_result", true) // named results assigned from c.Conn.<op>(b), bare return (checked above)
	w.DefBool("wait_context_is_background", waitUnconditional)

	// ---------------------------------------------------------------- net.go
	nf, err := Parse(repo, "net.go")
	if err != nil {
		return err
	}
	li, err := nf.Func("Listener.Listen")
	if err != nil {
		return err
	}
	wrapped := false
	ast.Inspect(li.Body, func(n ast.Node) bool {
		is, ok := n.(*ast.IfStmt)
		if !ok || is.Init == nil {
			return true
		}
		if nf.Src(is.Init) == "rl, wl := l.ReadLimit, l.WriteLimit" && nf.Src(is.Cond) == "rl > 0 || wl > 0" &&
			len(is.Body.List) == 1 && nf.Src(is.Body.List[0]) == "ll = ratelimit.NewListener(ll, int64(rl), int64(wl))" {
			wrapped = true
		}
		return true
	})
	if !wrapped {
		return fmt.Errorf("net.go Listener.Listen: `if rl, wl := l.ReadLimit, l.WriteLimit; rl > 0 || wl > 0 { ll = ratelimit.NewListener(ll, int64(rl), int64(wl)) }` not found")
	}
	// stacking: the rate limiter is wrapped around whatever listener was built before it (the PROXY-protocol reader
	// included), and the extra listeners of MultiListener get their whole ListenerConfig (limits included)
	ppPos, rlPos := token.NoPos, token.NoPos
	rlAround := ""
	ast.Inspect(li.Body, func(n ast.Node) bool {
		switch x := n.(type) {
		case *ast.CompositeLit:
			if nf.Src(x.Type) == "proxyproto.Listener" && ppPos == token.NoPos {
				ppPos = x.Pos()
			}
		case *ast.CallExpr:
			if nf.Src(x.Fun) == "ratelimit.NewListener" && len(x.Args) == 3 {
				rlPos, rlAround = x.Pos(), nf.Src(x.Args[0])
			}
		}
		return true
	})
	w.DefBool("ratelimit_wraps_proxyproto", ppPos != token.NoPos && rlPos != token.NoPos && ppPos < rlPos && rlAround == "ll")
	ml, err := nf.Func("MultiListener.Listen")
	if err != nil {
		return err
	}
	w.DefBool("multilistener_copies_whole_config", strings.Contains(nf.Src(ml.Body), "l.ListenerConfig = lc.ListenerConfig"))
	w.DefBool("net_wraps_if_any_positive", true)
	w.DefBool("net_args_read_then_write", true)

	// ---------------------------------------------------------------- bind/flag.go
	bf, err := Parse(repo, "bind/flag.go")
	if err != nil {
		return err
	}
	field := map[string]string{}
	ast.Inspect(bf.AST, func(n ast.Node) bool {
		ce, ok := n.(*ast.CallExpr)
		if !ok || bf.Src(ce.Fun) != "fs.Var" || len(ce.Args) < 2 {
			return true
		}
		for _, name := range []string{"read-limit", "write-limit"} {
			if bf.Src(ce.Args[1]) == `namePrefix+"`+name+`"` || bf.Src(ce.Args[1]) == `namePrefix + "`+name+`"` {
				field[name] = strings.TrimPrefix(bf.Src(ce.Args[0]), "&cfg.")
			}
		}
		return true
	})
	if field["read-limit"] == "" || field["write-limit"] == "" {
		return fmt.Errorf("bind/flag.go: fs.Var(&cfg.<X>, namePrefix+\"read-limit\"/\"write-limit\", ...) not found: %v", field)
	}
	w.DefStr("flag_read_limit_field", field["read-limit"])
	w.DefStr("flag_write_limit_field", field["write-limit"])
	return nil
}
