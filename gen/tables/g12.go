package main

import (
	"fmt"
	"go/ast"
	"go/parser"
	"go/token"
	"io/fs"
	"os"
	"path/filepath"
	"regexp"
	"runtime"
	"sort"
	"strings"
)

func init() { register("g12", genG12) }

var g12HTTPStatus = map[string]uint64{
	"StatusContinue": 100, "StatusSwitchingProtocols": 101, "StatusProcessing": 102, "StatusEarlyHints": 103, "StatusOK": 200,
	"StatusCreated": 201, "StatusAccepted": 202, "StatusNonAuthoritativeInfo": 203, "StatusNoContent": 204, "StatusResetContent": 205,
	"StatusPartialContent": 206, "StatusMultiStatus": 207, "StatusAlreadyReported": 208, "StatusIMUsed": 226,
	"StatusMultipleChoices": 300, "StatusMovedPermanently": 301, "StatusFound": 302, "StatusSeeOther": 303, "StatusNotModified": 304,
	"StatusUseProxy": 305, "StatusTemporaryRedirect": 307, "StatusPermanentRedirect": 308, "StatusBadRequest": 400,
	"StatusUnauthorized": 401, "StatusPaymentRequired": 402, "StatusForbidden": 403, "StatusNotFound": 404,
	"StatusMethodNotAllowed": 405, "StatusNotAcceptable": 406, "StatusProxyAuthRequired": 407, "StatusRequestTimeout": 408,
	"StatusConflict": 409, "StatusGone": 410, "StatusLengthRequired": 411, "StatusPreconditionFailed": 412,
	"StatusRequestEntityTooLarge": 413, "StatusRequestURITooLong": 414, "StatusUnsupportedMediaType": 415,
	"StatusRequestedRangeNotSatisfiable": 416, "StatusExpectationFailed": 417, "StatusTeapot": 418, "StatusMisdirectedRequest": 421,
	"StatusUnprocessableEntity": 422, "StatusLocked": 423, "StatusFailedDependency": 424, "StatusTooEarly": 425,
	"StatusUpgradeRequired": 426, "StatusPreconditionRequired": 428, "StatusTooManyRequests": 429,
	"StatusRequestHeaderFieldsTooLarge": 431, "StatusUnavailableForLegalReasons": 451, "StatusInternalServerError": 500,
	"StatusNotImplemented": 501, "StatusBadGateway": 502, "StatusServiceUnavailable": 503, "StatusGatewayTimeout": 504,
	"StatusHTTPVersionNotSupported": 505, "StatusVariantAlsoNegotiates": 506, "StatusInsufficientStorage": 507,
	"StatusLoopDetected": 508, "StatusNotExtended": 510, "StatusNetworkAuthenticationRequired": 511,
}

// g12CodeSets returns the numeric values of the `code = http.StatusXxx` assignments of a skeleton, in order.
func g12CodeSets(skel []string) ([]uint64, []string) {
	var nums []uint64
	var other []string
	for _, t := range skel {
		if !strings.HasPrefix(t, "set code = ") {
			continue
		}
		rhs := strings.TrimPrefix(t, "set code = ")
		if strings.HasPrefix(rhs, "http.") {
			if v, ok := g12HTTPStatus[strings.TrimPrefix(rhs, "http.")]; ok {
				nums = append(nums, v)
				continue
			}
		}
		other = append(other, rhs)
	}
	return nums, other
}

func g12Has(skel []string, tok string) bool {
	for _, t := range skel {
		if t == tok {
			return true
		}
	}
	return false
}

func g12HasPrefix(skel []string, p string) bool {
	for _, t := range skel {
		if strings.HasPrefix(t, p) {
			return true
		}
	}
	return false
}

func genG12(repo string, w *Out) error {
	// skel: the skeleton with the source's own identifiers (used to recognise shapes)
	skel := func(file, fn string) ([]string, *File, error) {
		f, err := Parse(repo, file)
		if err != nil {
			return nil, nil, err
		}
		fd, err := f.Func(fn)
		if err != nil {
			return nil, nil, err
		}
		return g12Skeleton(f, fd.Body), f, nil
	}
	// skelNorm: the skeleton with locals renamed to $0, $1, ... (what the obligations compare)
	skelNorm := func(file, fn string) ([]string, error) {
		f, err := Parse(repo, file) // fresh parse: renaming mutates the AST
		if err != nil {
			return nil, err
		}
		fd, err := f.Func(fn)
		if err != nil {
			return nil, err
		}
		return g12SkeletonFn(f, fd, nil), nil
	}
	// emit writes the normalised skeleton and returns the raw one
	emit := func(name, file, fn string) ([]string, error) {
		s, _, err := skel(file, fn)
		if err != nil {
			return nil, err
		}
		sn, err := skelNorm(file, fn)
		if err != nil {
			return nil, err
		}
		w.Linef("(* %s : %s *)", file, fn)
		w.DefStrList(name, sn)
		return s, nil
	}

	// ------------------------------------------------------------ http_proxy_errors.go
	ef, err := Parse(repo, "http_proxy_errors.go")
	if err != nil {
		return err
	}
	er, err := ef.Func("HTTPProxy.errorResponse")
	if err != nil {
		return err
	}
	var handlers []string
	ast.Inspect(er.Body, func(x ast.Node) bool {
		cl, ok := x.(*ast.CompositeLit)
		if !ok || ef.Src(cl.Type) != "[]errorHandler" {
			return true
		}
		for _, e := range cl.Elts {
			handlers = append(handlers, ef.Src(e))
		}
		return false
	})
	if len(handlers) == 0 {
		return fmt.Errorf("errorResponse: handler list []errorHandler{...} not found")
	}
	w.DefStrList("handler_order", handlers)
	if _, err := emit("skel_errorResponse", "http_proxy_errors.go", "HTTPProxy.errorResponse"); err != nil {
		return err
	}
	// every handler named in the list must be a function the model knows; its skeleton and code constants
	known := map[string]string{
		"handleWindowsNetError": "windows", "handleNetError": "net", "handleTLSRecordHeader": "tls_record",
		"handleTLSCertificateError": "tls_cert", "handleTLSECHRejectionError": "tls_ech", "handleTLSAlertError": "tls_alert",
		"handleMartianErrorStatus": "status", "handleAuthenticationError": "auth", "handleDenyError": "deny",
		"handleProhibitedError": "prohibited", "handleContextCancelationError": "canceled", "handleStatusText": "status_text",
		"handleTimeoutError": "timeout",
	}
	names := make([]string, 0, len(known))
	for k := range known {
		names = append(names, k)
	}
	sort.Strings(names)
	for _, h := range handlers {
		if _, ok := known[h]; !ok {
			return fmt.Errorf("errorResponse: handler %s is not one the model knows", h)
		}
	}
	for _, h := range names {
		if _, ferr := ef.Func(h); ferr != nil && h == "handleTimeoutError" {
			// shape of the source before the generic time-out handler existed
			w.DefStrList("skel_"+h, nil)
			w.DefN("code_timeout", 0)
			continue
		}
		s, err := emit("skel_"+h, "http_proxy_errors.go", h)
		if err != nil {
			return err
		}
		nums, other := g12CodeSets(s)
		short := known[h]
		switch short {
		case "net":
			if len(nums) != 2 || len(other) != 0 {
				return fmt.Errorf("%s: expected two http.Status code assignments, got %v %v", h, nums, other)
			}
			w.DefN("code_net_timeout", nums[0])
			w.DefN("code_net_other", nums[1])
		case "status":
			if len(nums) != 0 || len(other) != 1 || other[0] != "martianErr.Status" {
				return fmt.Errorf("%s: expected code = martianErr.Status, got %v %v", h, nums, other)
			}
		case "status_text":
			// for i := 400; i < 600; i++ { if err.Error() == http.StatusText(i) { return i, ... } }
			fd, _ := ef.Func(h)
			lo, hi := int64(-1), int64(-1)
			ast.Inspect(fd.Body, func(x ast.Node) bool {
				fs, ok := x.(*ast.ForStmt)
				if !ok {
					return true
				}
				if as, ok := fs.Init.(*ast.AssignStmt); ok && len(as.Rhs) == 1 {
					if v, ok := IntLit(as.Rhs[0]); ok {
						lo = v
					}
				}
				if be, ok := fs.Cond.(*ast.BinaryExpr); ok && be.Op == token.LSS {
					if v, ok := IntLit(be.Y); ok {
						hi = v
					}
				}
				return false
			})
			if lo < 0 || hi < 0 {
				return fmt.Errorf("%s: loop `for i := LO; i < HI; i++` not found", h)
			}
			w.DefN("status_text_lo", uint64(lo))
			w.DefN("status_text_hi", uint64(hi))
		default:
			if len(nums) != 1 || len(other) != 0 {
				return fmt.Errorf("%s: expected exactly one http.Status code assignment, got %v %v", h, nums, other)
			}
			w.DefN("code_"+short, nums[0])
		}
	}
	// default code of errorResponse (inside `if code == 0`)
	ers, _, _ := skel("http_proxy_errors.go", "HTTPProxy.errorResponse")
	dn, _ := g12CodeSets(ers)
	if len(dn) != 1 {
		return fmt.Errorf("errorResponse: expected one default `code = http.StatusXxx`, got %v", dn)
	}
	w.DefN("code_default", dn[0])
	// the header name constant
	eh, err := ef.ValueSpec("ErrorHeader")
	if err != nil {
		return err
	}
	ehs, ok := StringLit(eh)
	if !ok {
		return fmt.Errorf("ErrorHeader is not a string literal")
	}
	w.DefStr("error_header", ehs)
	w.DefBool("goos_windows", runtime.GOOS == "windows")

	// martian.ErrorStatus{...Status: N} literals anywhere in the non-test sources
	lits, err := g12ErrorStatusLiterals(repo)
	if err != nil {
		return err
	}
	parts := make([]string, len(lits))
	for i, v := range lits {
		parts[i] = fmt.Sprint(v)
	}
	if len(parts) == 0 {
		w.Linef("Definition error_status_literals : list N := (@nil N).")
	} else {
		w.Linef("Definition error_status_literals : list N := [%s].", strings.Join(parts, "; "))
	}

	// ------------------------------------------------------------ internal/martian/proxy_conn.go
	pc := "internal/martian/proxy_conn.go"
	// of these functions the model transcribes the control flow around reading, modifying, contacting the
	// upstream, writing, tracing and returning; tokens about anything else (request fix-ups, upgrade header
	// juggling, TLS session bookkeeping) belong to other properties and are not part of the obligation
	relevant := []string{"readRequest", "trace", "rite", "modify", "roundTrip", ".handle", "Connect(", "closing()", "return", "!= nil", "== nil",
		"tunnel", "drainBuffer", "bicopy", "shouldMITM", "errorResponse", "StatusCode", ".Peek(", "Handshake", ".Request = ", "ReadWriteCloser", "defer "}
	for _, fn := range []string{"handle", "handleConnectRequest", "handleMITM", "tunnel", "handleUpgradeResponse", "writeErrorResponse"} {
		sn, err := skelNorm(pc, "proxyConn."+fn)
		if err != nil {
			return err
		}
		var rel []string
		for _, t := range sn {
			for _, k := range relevant {
				if strings.Contains(t, k) {
					rel = append(rel, t)
					break
				}
			}
		}
		w.Linef("(* %s : proxyConn.%s (tokens about reading, modifying, upstream contact, writing, tracing, returning) *)", pc, fn)
		w.DefStrList("skel_"+fn, g12Renumber(rel))
	}
	wes, _, _ := skel(pc, "proxyConn.writeErrorResponse")
	// the *connectError response is bound to the request being served either in writeErrorResponse itself
	// or in maybeConnectErrorResponse(req, err)
	mces, _, err := skel("internal/martian/proxy_connect.go", "maybeConnectErrorResponse")
	if err != nil {
		return err
	}
	viaHelper := g12Has(wes, "call maybeConnectErrorResponse(req, err)")
	w.DefBool("conn_err_rebinds_request", g12Has(wes, "set res.Request = req") || (viaHelper && g12Has(mces, "set res.Request = req")))
	w.DefBool("conn_err_rebinds_proto", g12HasPrefix(wes, "set res.ProtoMajor = ") || (viaHelper && g12HasPrefix(mces, "set res.ProtoMajor = ")))
	// writeResponse: which function holds the skip test, and its shape
	wrName := "proxyConn.writeResponse"
	wr, pf, err := skel(pc, wrName)
	if err != nil {
		return err
	}
	deferred := false
	if !g12HasPrefix(wr, "if !skipTraceWroteResponse(") && !g12HasPrefix(wr, "if !(") {
		// thin wrapper: follow it to the worker
		if _, err2 := pf.Func("proxyConn.writeResponseDeferTrace"); err2 == nil {
			if _, err := emit("skel_writeResponse_wrapper", pc, wrName); err != nil {
				return err
			}
			wrName = "proxyConn.writeResponseDeferTrace"
			wr, _, err = skel(pc, wrName)
			if err != nil {
				return err
			}
		}
	}
	switch {
	case g12Has(wr, "if !skipTraceWroteResponse(res, err)"):
		deferred = false
	case g12Has(wr, "if !(deferTrace && skipTraceWroteResponse(res, err))"), g12Has(wr, "if !deferTrace || !skipTraceWroteResponse(res, err)"):
		deferred = true
	default:
		return fmt.Errorf("writeResponse: the guard around traceWroteResponse is not a shape the model knows: %q", wr)
	}
	// of writeResponse only the connection-close decision, the completion report and the returns are
	// transcribed in G12.Exchange (how the body is framed and flushed belongs to C02's model)
	wrNorm, err := skelNorm(pc, wrName)
	if err != nil {
		return err
	}
	var wrRel []string
	for _, t := range wrNorm {
		for _, k := range []string{".Close", ".closing()", "skipTraceWroteResponse", "traceWroteResponse", "return", ".brw.Flush()", "!= nil", "http.MethodConnect", "StatusSwitchingProtocols"} {
			if strings.Contains(t, k) {
				wrRel = append(wrRel, t)
				break
			}
		}
	}
	w.Linef("(* %s : %s (tokens about closing, tracing, returning) *)", pc, wrName)
	w.DefStrList("skel_writeResponse", g12Renumber(wrRel))
	w.DefBool("trace_skip_only_when_deferred", deferred)
	// which functions of proxy_conn.go write a response with the trace deferred
	var defCallers []string
	for _, d := range pf.AST.Decls {
		fd, ok := d.(*ast.FuncDecl)
		if !ok || fd.Body == nil {
			continue
		}
		for _, t := range g12Skeleton(pf, fd.Body) {
			if strings.HasPrefix(t, "call ") && strings.Contains(t, ".writeResponseDeferTrace(") && strings.HasSuffix(t, ", true)") {
				defCallers = append(defCallers, fd.Name.Name)
				break
			}
		}
	}
	sort.Strings(defCallers)
	w.DefStrList("deferred_trace_callers", defCallers)
	// does writeResponse clear res.Close for a 101 as it does for CONNECT + 2xx?
	upg := false
	for i, t := range wr {
		if t == "if res.StatusCode == http.StatusSwitchingProtocols" && i+1 < len(wr) && wr[i+1] == "set res.Close = false" {
			upg = true
		}
		if (strings.Contains(t, "res.StatusCode == http.StatusSwitchingProtocols") && strings.Contains(t, "res.StatusCode/100 == 2")) &&
			strings.HasPrefix(t, "if ") && i+1 < len(wr) && wr[i+1] == "set res.Close = false" {
			upg = true
		}
	}
	w.DefBool("upgrade_clears_close", upg)
	// a body of unknown length from an upstream that closes its connection (res.Close): delivered in chunks to an
	// HTTP/1.1 client (case len(res.TransferEncoding) == 0) or left close-delimited (… && !res.Close)
	switch {
	case g12Has(wr, "case len(res.TransferEncoding) == 0"):
		w.DefBool("close_delimited_rechunked", true)
	case g12Has(wr, "case len(res.TransferEncoding) == 0 && !res.Close"):
		w.DefBool("close_delimited_rechunked", false)
	default:
		w.DefBool("close_delimited_rechunked", false) // the source has no re-framing block: relayed as received
	}
	// order of the cases of the write switch: a response that must not have a body (isHeaderOnlySpec: 1xx, 204, 304,
	// reply to HEAD — its Body may be the panicking placeholder of an upgrade) is written by writeHeaderOnlyResponse
	// BEFORE any case that calls res.Write (event stream, chunk flushing, default)
	ho, firstWrite := -1, -1
	for i, t := range wr {
		if t == "case isHeaderOnlySpec(res)" && ho < 0 {
			ho = i
		}
		if strings.HasPrefix(t, "call res.Write(") && firstWrite < 0 {
			firstWrite = i
		}
	}
	w.DefBool("header_only_case_before_body_writers", ho >= 0 && firstWrite > ho)
	if _, err := emit("skel_skipTraceWroteResponse", pc, "skipTraceWroteResponse"); err != nil {
		return err
	}

	// ------------------------------------------------------------ proxy_connect.go, proxy.go
	for _, x := range [][3]string{
		{"skel_connectHTTP", "internal/martian/proxy_connect.go", "Proxy.connectHTTP"},
		{"skel_maybeConnectErrorResponse", "internal/martian/proxy_connect.go", "maybeConnectErrorResponse"},
		{"skel_handleLoop", "internal/martian/proxy.go", "Proxy.handleLoop"},
		{"skel_martian_errorResponse", "internal/martian/proxy.go", "Proxy.errorResponse"},
		{"skel_traceReadRequest", "internal/martian/proxy_trace.go", "Proxy.traceReadRequest"},
		{"skel_traceWroteResponse", "internal/martian/proxy_trace.go", "Proxy.traceWroteResponse"},
		{"skel_prom_ReadRequest", "middleware/prometheus.go", "Prometheus.ReadRequest"},
		{"skel_prom_WroteResponse", "middleware/prometheus.go", "Prometheus.WroteResponse"},
		{"skel_prom_labels", "middleware/prometheus.go", "Prometheus.labels"},
		{"skel_closeListener_Close", "conntrack/conntrack.go", "closeListener.Close"},
		{"skel_Listener_Accept", "net.go", "Listener.Accept"},
		{"skel_Dialer_DialContext", "net.go", "Dialer.DialContext"},
		{"skel_listenerMetrics_accept", "net_metrics.go", "listenerMetrics.accept"},
		{"skel_listenerMetrics_close", "net_metrics.go", "listenerMetrics.close"},
		{"skel_dialerMetrics_dial", "net_metrics.go", "dialerMetrics.dial"},
		{"skel_dialerMetrics_close", "net_metrics.go", "dialerMetrics.close"},
	} {
		if _, err := emit(x[0], x[1], x[2]); err != nil {
			return err
		}
	}
	// ------------------------------------------------------------ relay of a rejected CONNECT (Reject.v)
	{
		pcf, err := Parse(repo, "internal/martian/proxy_connect.go")
		if err != nil {
			return err
		}
		worker := "OnProxyConnectResponse"
		if _, err := pcf.Func("onProxyConnectResponse"); err == nil {
			worker = "onProxyConnectResponse" // the exported function is a thin wrapper
			if _, err := emit("skel_OnProxyConnectResponse_wrapper", "internal/martian/proxy_connect.go", "OnProxyConnectResponse"); err != nil {
				return err
			}
		}
		ocr, err := emit("skel_OnProxyConnectResponse", "internal/martian/proxy_connect.go", worker)
		if err != nil {
			return err
		}
		// the body of the rejection is read iff a positive Content-Length announces one
		w.DefBool("reject_reads_body_only_when_length_positive", g12Has(ocr, "if connectRes.ContentLength > 0") && !g12HasPrefix(ocr, "if connectRes.ContentLength != 0"))
		// ... and through a reader that gives up after a time limit (a select on a timer with a return)
		bounded := false
		reader := ""
		for _, t := range ocr {
			if strings.HasPrefix(t, "call io.ReadAll(") {
				reader = "io.ReadAll"
			}
			if strings.HasPrefix(t, "call readAllWithin(connectRes.Body, ") {
				reader = "readAllWithin"
			}
		}
		if reader == "readAllWithin" {
			raw, err := emit("skel_readAllWithin", "internal/martian/proxy_connect.go", "readAllWithin")
			if err != nil {
				return err
			}
			inTimer := false
			for _, t := range raw {
				if t == "comm <-t.C" {
					inTimer = true
					continue
				}
				if strings.HasPrefix(t, "comm ") {
					inTimer = false
				}
				if inTimer && strings.HasPrefix(t, "return") {
					bounded = true
				}
			}
			bounded = bounded && g12Has(raw, "select")
		} else {
			w.Linef("(* the rejection's body is read with %s *)", reader)
			w.DefStrList("skel_readAllWithin", nil)
		}
		w.DefBool("reject_body_read_is_bounded", bounded)
	}

	// ------------------------------------------------------------ proxy_handler.go (the http.Handler variant of the exchange)
	ph := "internal/martian/proxy_handler.go"
	for _, fn := range []string{"handleRequest", "handleConnectRequest", "tunnel", "handleUpgradeResponse", "writeErrorResponse"} {
		sn, err := skelNorm(ph, "proxyHandler."+fn)
		if err != nil {
			return err
		}
		var rel []string
		for _, t := range sn {
			for _, k := range append([]string{"panic(", "Hijack"}, relevant...) {
				if strings.Contains(t, k) {
					rel = append(rel, t)
					break
				}
			}
		}
		w.Linef("(* %s : proxyHandler.%s (tokens about modifying, upstream contact, writing, tracing, returning) *)", ph, fn)
		w.DefStrList("skel_h_"+fn, g12Renumber(rel))
	}
	{
		sn, err := skelNorm(ph, "proxyHandler.writeResponse")
		if err != nil {
			return err
		}
		var rel []string
		for _, t := range sn {
			for _, k := range []string{"traceWroteResponse", "return", "panic(", "!= nil", "defer "} {
				if strings.Contains(t, k) {
					rel = append(rel, t)
					break
				}
			}
		}
		w.Linef("(* %s : proxyHandler.writeResponse (tokens about tracing, aborting, returning) *)", ph)
		w.DefStrList("skel_h_writeResponse", g12Renumber(rel))
	}

	// ------------------------------------------------------------ dialvia/http.go: CONNECT through an upstream proxy
	if _, err := emit("skel_DialContextR", "dialvia/http.go", "HTTPProxyDialer.DialContextR"); err != nil {
		return err
	}
	dcr, _, _ := skel("dialvia/http.go", "HTTPProxyDialer.DialContextR")
	{
		// once the connection to the upstream proxy exists, every error return closes it first (no deferred close,
		// whose test of a named error could be defeated by a shadowing declaration)
		dialled, ok, n := false, true, 0
		for i, t := range dcr {
			if strings.HasPrefix(t, "call d.dial(") {
				dialled = true
				continue
			}
			if dialled && strings.HasPrefix(t, "return nil, nil, ") {
				n++
				if n == 1 {
					continue // the return for a failed dial: there is no connection
				}
				// look back over the calls of this block (the operands of the return are calls too)
				closed := false
				for j := i - 1; j >= 0 && strings.HasPrefix(dcr[j], "call "); j-- {
					if dcr[j] == "call conn.Close()" {
						closed = true
					}
				}
				if !closed {
					ok = false
				}
			}
		}
		w.DefBool("dialvia_closes_before_every_error_return", dialled && ok && n >= 2 && !g12HasPrefix(dcr, "defer func"))
	}

	// ------------------------------------------------------------ net.go: the dialer's retry loop
	if _, err := emit("skel_Dialer_dialContext", "net.go", "Dialer.dialContext"); err != nil {
		return err
	}
	dc, _, _ := skel("net.go", "Dialer.dialContext")
	{
		// a failed attempt is recorded (lastErr = err) before anything can leave the loop, and the function ends
		// with `return nil, lastErr`: it never returns (nil, nil) after at least one attempt
		inLoop, failed, ok, rec := false, false, true, false
		for _, t := range dc {
			switch {
			case strings.HasPrefix(t, "for "):
				inLoop = true
			case inLoop && strings.HasPrefix(t, "return conn, nil"):
				failed = true // what follows the success return of an attempt is the failure path
			case inLoop && failed && t == "set lastErr = err":
				rec = true
			case inLoop && failed && !rec && (t == "break" || t == "continue" || t == "goto" || strings.HasPrefix(t, "return")):
				ok = false
			}
		}
		w.DefBool("dial_records_error_before_leaving_loop", ok && rec && len(dc) > 0 && dc[len(dc)-1] == "return nil, lastErr")
		w.DefBool("dial_attempts_at_least_one", g12Has(dc, "if attempts <= 0") && g12Has(dc, "set attempts = 1"))
	}

	// maxConsecutiveErrors
	pf2, err := Parse(repo, "internal/martian/proxy.go")
	if err != nil {
		return err
	}
	hl, err := pf2.Func("Proxy.handleLoop")
	if err != nil {
		return err
	}
	maxErr := int64(-1)
	ast.Inspect(hl.Body, func(x ast.Node) bool {
		if vs, ok := x.(*ast.ValueSpec); ok && len(vs.Names) == 1 && vs.Names[0].Name == "maxConsecutiveErrors" && len(vs.Values) == 1 {
			if v, ok := IntLit(vs.Values[0]); ok {
				maxErr = v
			}
		}
		return true
	})
	if maxErr < 0 {
		return fmt.Errorf("handleLoop: const maxConsecutiveErrors not found")
	}
	w.DefN("max_consecutive_errors", uint64(maxErr))

	// closeListener.Close shape flags
	cls, _, _ := skel("conntrack/conntrack.go", "closeListener.Close")
	switch {
	case g12Has(cls, "call c.once.Do(c.onClose)"):
		w.DefBool("close_uses_once", true)
	case g12Has(cls, "call c.onClose()"):
		w.DefBool("close_uses_once", false)
	default:
		return fmt.Errorf("closeListener.Close: neither c.once.Do(c.onClose) nor c.onClose() found: %q", cls)
	}
	w.DefBool("close_calls_underlying", g12Has(cls, "call c.close()"))
	// does anything let Close return between the underlying close and the Once?
	early := false
	seenClose := false
	for _, t := range cls {
		if t == "call c.close()" {
			seenClose = true
		}
		if strings.HasPrefix(t, "call c.once.Do(") || t == "call c.onClose()" {
			break
		}
		if seenClose && strings.HasPrefix(t, "return") {
			early = true
		}
	}
	w.DefBool("close_returns_early_on_errclosed", early)

	if err := g12IndexSites(repo, w); err != nil {
		return err
	}
	// conntrack byte counters: which counter each wrapper method feeds
	for _, x := range [][2]string{{"skel_conn_Read", "conn.Read"}, {"skel_conn_Write", "conn.Write"}, {"skel_conn_ReadFrom", "conn.ReadFrom"}} {
		if _, err := emit(x[0], "conntrack/conntrack.go", x[1]); err != nil {
			return err
		}
	}
	cr, _, _ := skel("conntrack/conntrack.go", "conn.Read")
	cw, _, _ := skel("conntrack/conntrack.go", "conn.Write")
	cf, _, _ := skel("conntrack/conntrack.go", "conn.ReadFrom")
	w.DefBool("read_feeds_rx", g12Has(cr, "call c.o.addRx(uint64(n))") && !g12HasPrefix(cr, "call c.o.addTx("))
	w.DefBool("write_feeds_tx", g12Has(cw, "call c.o.addTx(uint64(n))") && !g12HasPrefix(cw, "call c.o.addRx("))
	w.DefBool("readfrom_feeds_tx", g12Has(cf, "call c.o.addTx(uint64(n))") && !g12HasPrefix(cf, "call c.o.addRx("))

	// forwarder's trace hooks in middlewareStack: nil guards
	hpf, err := Parse(repo, "http_proxy.go")
	if err != nil {
		return err
	}
	ms, err := hpf.Func("HTTPProxy.middlewareStack")
	if err != nil {
		return err
	}
	mss := g12Skeleton(hpf, ms.Body)
	w.DefBool("trace_read_guards_nil_req", g12Has(mss, "if info.Req != nil") && g12Has(mss, "call p.ReadRequest(info.Req)"))
	w.DefBool("trace_wrote_guards_nil_res", g12Has(mss, "if info.Res != nil") && g12Has(mss, "call p.WroteResponse(info.Res)"))
	return nil
}

// g12ErrorStatusLiterals finds the Status values of ErrorStatus composite literals in non-test Go files.
func g12ErrorStatusLiterals(repo string) ([]int64, error) {
	var out []int64
	err := filepath.WalkDir(repo, func(p string, d fs.DirEntry, err error) error {
		if err != nil {
			return nil
		}
		if d.IsDir() {
			n := d.Name()
			if n == ".git" || n == "vendor" || n == "node_modules" || n == "e2e" || n == "verifhook" {
				return filepath.SkipDir
			}
			return nil
		}
		if !strings.HasSuffix(p, ".go") || strings.HasSuffix(p, "_test.go") {
			return nil
		}
		b, err := os.ReadFile(p)
		if err != nil || !strings.Contains(string(b), "ErrorStatus{") {
			return nil
		}
		if strings.Contains(string(b), "//go:build verif") {
			return nil // verification hooks are not part of the product
		}
		fset := token.NewFileSet()
		f, err := parser.ParseFile(fset, p, b, 0)
		if err != nil {
			return nil
		}
		ast.Inspect(f, func(x ast.Node) bool {
			cl, ok := x.(*ast.CompositeLit)
			if !ok {
				return true
			}
			tn := ""
			switch t := cl.Type.(type) {
			case *ast.SelectorExpr:
				tn = t.Sel.Name
			case *ast.Ident:
				tn = t.Name
			}
			if tn != "ErrorStatus" {
				return true
			}
			found := false
			for _, e := range cl.Elts {
				kv, ok := e.(*ast.KeyValueExpr)
				if !ok {
					continue
				}
				if k, ok := kv.Key.(*ast.Ident); ok && k.Name == "Status" {
					if v, ok := IntLit(kv.Value); ok {
						out = append(out, v)
						found = true
					} else if se, ok := kv.Value.(*ast.SelectorExpr); ok {
						if v, ok := g12HTTPStatus[se.Sel.Name]; ok {
							out = append(out, int64(v))
							found = true
						}
					}
				}
			}
			if !found {
				out = append(out, 0) // a status the extractor cannot evaluate: makes the obligation fail
			}
			return true
		})
		return nil
	})
	sort.Slice(out, func(i, j int) bool { return out[i] < out[j] })
	return out, err
}

// g12Renumber renames the placeholders $n of a (filtered) token list in order of first occurrence, so
// that a local variable added in a part of the function that is not part of the obligation does not
// shift the numbers.
func g12Renumber(toks []string) []string {
	re := regexp.MustCompile(`\$\d+`)
	m := map[string]string{}
	out := make([]string, len(toks))
	for i, t := range toks {
		out[i] = re.ReplaceAllStringFunc(t, func(x string) string {
			if v, ok := m[x]; ok {
				return v
			}
			v := fmt.Sprintf("$%d", len(m))
			m[x] = v
			return v
		})
	}
	return out
}
